#!/usr/bin/env python3
"""Regenerate MANIFEST.json from contracts/registry.py (claims, levels, notes) - keeps it valid at all times."""
import json, os, sys
ROOT = os.path.dirname(os.path.dirname(os.path.abspath(__file__)))
sys.path.insert(0, ROOT)
from contracts import manifest_data as md

checks = []
for pid in sorted(md.CLAIMS):
    c = md.CLAIMS[pid]
    checks.append({
        'property_id': pid,
        'quick_cmd': './verif check %s --tier quick' % pid,
        'thorough_cmd': './verif check %s --tier thorough' % pid,
        'evidence_file': 'evidence/%s.json' % pid,
        'replay_cmd_template': './verif replay {path}',
        'engine': 'pyvc',
        'level_claimed': {'category': c['level'], 'text': c['text'], 'design_ref': c.get('design_ref', 'DESIGN.md section 4')},
        'level_note': c['note'],
        'technique': c['technique'],
    })
man = {
    'version': 1,
    'setup_cmd': './tools/setup.sh',
    'hooks': {'guard': 'DYNETX_VERIF', 'enable': 'none needed: contracts are sidecar files under /verif/contracts, no hook exists in /repo (the guard name is recorded for the schema only; no source reads it)',
              'baseline_off_cmd': 'cd /repo && /venv/bin/python -m pytest -ra -q -p no:cacheprovider --timeout=900 --continue-on-collection-errors',
              'source_commits': [], 'add_only': True},
    'engines': [{'name': 'pyvc', 'path': 'pyvc/', 'serves_properties': sorted(md.CLAIMS),
                 'kind_free_text': 'home-built deductive verifier: ast of the real /repo functions -> symbolic executor (paths, loop invariants, callee contracts, exceptions, ownership-typed heap) -> verification conditions -> z3 (E-matching proof mode, MBQI model search) / cvc5; sidecar contracts in contracts/; counter-models replayed on the real code; bounded stand-in in bounded/'}],
    'checks': checks,
    'notes': md.NOTES,
    'not_applicable': [{'property_id': p, 'reason': r} for p, r in sorted(md.NOT_CLAIMED.items())],
}
json.dump(man, open(os.path.join(ROOT, 'MANIFEST.json'), 'w'), indent=1)
print('MANIFEST.json: %d checks, %d not claimed' % (len(checks), len(md.NOT_CLAIMED)))
