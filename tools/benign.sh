#!/bin/sh
# benign edits (renamed locals, reordered independent statements, equivalent spellings): every check must stay quiet
D=$(mktemp -d /tmp/benign.XXXXXX)
git -C /repo archive HEAD | tar -x -C "$D"
for f in dynetx/classes/dyngraph.py dynetx/classes/dyndigraph.py; do
  sed -i 's/\bdatadict\b/dd/g; s/\bmax_end\b/last_end/g; s/\bappeared\b/fresh_instants/g' "$D/$f"
  sed -i 's/\bi_to\b/hi/g; s/\bf_from\b/lo/g; s/for u, v, ts in self\./for x, y, data in self./; s/for a, b in ts\[.t.\]:/for s0, e0 in data["t"]:/' "$D/$f"
  python3 - "$D/$f" <<'PY'
import re, sys
p = sys.argv[1]
s = open(p).read()
# inside time_slice only: the renamed loop variables
i = s.index('    def time_slice(self'); j = s.index('    def update_node_attr(self')
seg = s[i:j]
seg = re.sub(r'\bH\.add_interaction\(u, v, ', 'H.add_interaction(x, y, ', seg)
seg = seg.replace(' < a or ', ' < s0 or ').replace(' > b:', ' > e0:').replace('>= a and', '>= s0 and').replace('>=a and', '>= s0 and').replace('<= b:', '<= e0:')
seg = seg.replace('elif a >= lo', 'elif s0 >= lo').replace('b <= hi', 'e0 <= hi').replace('b<= hi', 'e0 <= hi').replace('lo <= a and', 'lo <= s0 and')
seg = seg.replace('(x, y, a, ', '(x, y, s0, ').replace(', b + 1)', ', e0 + 1)')
s = s[:i] + seg + s[j:]
s = s.replace('            if idt not in self.snapshots:', '            if not idt in self.snapshots:')
s = s.replace('        timestamps = sorted(self.time_to_edge.keys())\n        for t in timestamps:\n            for e in self.time_to_edge[t]:\n                yield e[0], e[1], e[2], t',
              '        keys = sorted(self.time_to_edge.keys())\n        for instant in keys:\n            for ev in self.time_to_edge[instant]:\n                yield ev[0], ev[1], ev[2], instant')
s = s.replace('        self.time_to_edge = defaultdict(int)\n        self.snapshots = {}\n', '        self.snapshots = {}\n        self.time_to_edge = defaultdict(int)\n')
open(p, 'w').write(s)
PY
done
(cd "$D" && /venv/bin/python -m pytest -q -p no:cacheprovider dynetx/test 2>&1 | tail -1)
grep -n "for x, y, data\|for s0, e0\|keys = sorted\|not idt in" "$D/dynetx/classes/dyngraph.py" | head
for P in "$@"; do
  DYNETX_REPO="$D" VERIF_EVIDENCE_DIR="$D/evidence" /verif/verif check $P --tier quick 2>&1 | grep -v "^KNOWN-FINDING" | tail -4 | cut -c1-220
done
rm -rf "$D"
