#!/bin/sh
# usage: tools/refactor_check.sh <dir with patch.diff equiv.py meta.json> <name> <property>...
# a BEHAVIOUR-PRESERVING change: confirms it (tests pass, equiv.py digest identical on both trees), runs the given checks against a
# scratch copy with the change applied; every check must stay quiet (no VIOLATION line); stores the result under /verif/refactorings/<name>/
SRC="$1"; NAME="$2"; shift 2
ROOT="${VERIF_ROOT:-/verif}"
D=$(mktemp -d /tmp/refac.XXXXXX)
git -C /repo archive HEAD | tar -x -C "$D"
OUT=/verif/refactorings/$NAME; mkdir -p "$OUT"
cp "$SRC/patch.diff" "$SRC/equiv.py" "$OUT/" 2>/dev/null; cp "$SRC/meta.json" "$OUT/agent_meta.json" 2>/dev/null
mkdir -p "$D/out/x"; cp "$SRC/equiv.py" "$D/out/x/equiv.py"
C1=$(cd "$D" && timeout 600 /venv/bin/python out/x/equiv.py 2>/dev/null | tail -1)
(cd "$D" && git init -q . 2>/dev/null; git -C "$D" apply --whitespace=nowarn "$SRC/patch.diff") || { echo "PATCH DOES NOT APPLY"; rm -rf "$D"; exit 2; }
C2=$(cd "$D" && timeout 600 /venv/bin/python out/x/equiv.py 2>/dev/null | tail -1)
TESTS=$(cd "$D" && /venv/bin/python -m pytest -q -p no:cacheprovider dynetx/test 2>&1 | tail -1)
SAME=no; [ "$C1" = "$C2" ] && [ -n "$C1" ] && SAME=yes
echo "equiv digest identical: $SAME ; tests: $TESTS"
RES=""
for P in "$@"; do
  LINE=$(DYNETX_REPO="$D" VERIF_EVIDENCE_DIR="$D/evidence" "$ROOT/verif" check $P --tier quick 2>&1 | grep -v "^KNOWN-FINDING" | tail -8)
  echo "$LINE" | grep -E "^VIOLATION|^check|^UNDECIDED" | cut -c1-260
  V=$(echo "$LINE" | grep -c "^VIOLATION")
  U=$(echo "$LINE" | grep "^check" | sed 's/.* \([0-9]*\) undecided.*/\1/')
  RES="$RES $P:$V:$U"
done
python3 - "$OUT" "$NAME" "$SAME" "$TESTS" "$RES" <<'PY'
import json, sys, os
out, name, same, tests, res = sys.argv[1:6]
am = {}
try: am = json.load(open(os.path.join(out, 'agent_meta.json')))
except Exception: pass
meta = {'id': name, 'functions': am.get('functions'), 'what': am.get('what'),
        'confirmed': {'equiv_digest_identical_on_both_trees': same, 'baseline_tests_on_changed_tree': tests},
        'checks_run': {p.split(':')[0]: {'violation_lines': int(p.split(':')[1]), 'undecided': p.split(':')[2]} for p in res.split()}}
json.dump(meta, open(os.path.join(out, 'meta.json'), 'w'), indent=1)
PY
rm -rf "$D"
