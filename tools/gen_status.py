#!/usr/bin/env python3
"""Regenerate the as-built status table of DESIGN.md (between the STATUS-TABLE markers) from contracts/registry.py,
known_findings.json and the last evidence files."""
import importlib, json, os, re, sys
ROOT = os.path.dirname(os.path.dirname(os.path.abspath(__file__)))
sys.path.insert(0, ROOT)
from contracts import registry
kf = json.load(open(os.path.join(ROOT, 'known_findings.json')))
rows = []
for n in range(1, 21):
    pid = 'C%02d' % n
    fns = []
    for (m, f, a, v) in registry.PROOF_UNITS.get(pid, []):
        key = '%s%s' % (f, ('(' + ','.join(map(str, a)) + ')') if a else '')
        if key not in fns:
            fns.append(key)
    if pid in getattr(registry, 'STATIC_PARTS', {}):
        fns.append('static frame analysis (pyvc/frames.py)')
    ev = {}
    p = os.path.join(ROOT, 'evidence', pid + '.json')
    if os.path.exists(p):
        ev = json.load(open(p))
    cov = ev.get('coverage', {})
    finds = [f['id'] for f in kf['findings'] if pid in f.get('properties', [])]
    rows.append('| %s | %s | %s | %s/%s | %s | %s |' % (
        pid, registry.LEVELS.get(pid, 'proof'), ', '.join(fns) or '-', cov.get('discharged', '-'), cov.get('obligations', '-'),
        ', '.join('%s (%s eval.)' % (b.get('part'), b.get('evaluations')) for b in cov.get('bounded', [])) or '-', ', '.join(finds) or '-'))
tbl = ('| property | level | proof units (contract classes; class argument = dynetx class) | discharged / obligations (last quick run) | bounded parts | known findings |\n'
       '|---|---|---|---|---|---|\n' + '\n'.join(rows))
p = os.path.join(ROOT, 'DESIGN.md')
s = open(p).read()
a, b = '<!-- STATUS-TABLE-BEGIN -->', '<!-- STATUS-TABLE-END -->'
if a in s:
    s = s[:s.index(a) + len(a)] + '\n' + tbl + '\n' + s[s.index(b):]
    open(p, 'w').write(s)
    print('status table updated')
else:
    print(tbl)


# ---- seeded-changes table (Appendix E) from seeded/SUMMARY.json (written by tools/seeded_all.py) ------------------------------
sp = os.path.join(ROOT, 'seeded', 'SUMMARY.json')
a2, b2 = '<!-- SEEDED-TABLE-BEGIN -->', '<!-- SEEDED-TABLE-END -->'
s = open(p).read()
if os.path.exists(sp) and a2 in s:
    S = json.load(open(sp))
    rows = []
    for name in sorted(S):
        v = S[name]
        if 'error' in v:
            rows.append('| %s | (not run: %s) | |' % (name, v['error'][:60]))
            continue
        pv = ['%s' % x for x in v.get('proof_tier_violation_lines', [])]
        nd = [x for x in v.get('proof_tier_not_discharged', []) if not any(x.split(' [')[0] in y for y in pv)]
        proof = '; '.join(pv) if pv else ''
        if nd:
            proof += ('; ' if proof else '') + 'not discharged (UNDECIDED): ' + '; '.join(nd[:3]) + (' ...' if len(nd) > 3 else '')
        rows.append('| %s | %s | %s |' % (name, proof or '-', ', '.join(v.get('bounded_tier_violation_lines', [])) or '-'))
    n_det = sum(1 for v in S.values() if v.get('proof_tier_violation_lines') or v.get('bounded_tier_violation_lines'))
    n_proof = sum(1 for v in S.values() if v.get('proof_tier_violation_lines'))
    tbl2 = ('%d changes, %d detected (VIOLATION line), %d of them named by the proof tier.\n\n| change | proof tier | bounded tier (checks that fired) |\n|---|---|---|\n' % (len(S), n_det, n_proof)
            + '\n'.join(rows))
    s = s[:s.index(a2) + len(a2)] + '\n' + tbl2 + '\n' + s[s.index(b2):]
    open(p, 'w').write(s)
    print('seeded table updated: %d changes, %d detected' % (len(S), n_det))
