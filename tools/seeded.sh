#!/bin/sh
# usage: tools/seeded.sh <dir with patch.diff demo.py meta.json> <name> <property>...
# confirms the seeded change (demo passes clean / fails mutated, baseline tests unchanged), runs the checks of the
# given properties against a scratch copy with the change applied, stores everything under /verif/seeded/<name>/
SRC="$1"; NAME="$2"; shift 2
ROOT="${VERIF_ROOT:-/verif}"          # (a snapshot copy of /verif may be used so that edits do not disturb a long batch)
D=$(mktemp -d /tmp/seed.XXXXXX)
git -C /repo archive HEAD | tar -x -C "$D"
OUT=${SEEDED_OUT:-/verif/seeded}/$NAME; mkdir -p "$OUT"
cp "$SRC/patch.diff" "$SRC/demo.py" "$OUT/" 2>/dev/null; cp "$SRC/meta.json" "$OUT/agent_meta.json" 2>/dev/null
mkdir -p "$D/out/x"; cp "$SRC/demo.py" "$D/out/x/demo.py"
(cd "$D" && /venv/bin/python out/x/demo.py >/dev/null 2>&1); CLEAN=$?
(cd "$D" && git init -q . 2>/dev/null; git -C "$D" apply --whitespace=nowarn "$SRC/patch.diff") || { echo "PATCH DOES NOT APPLY"; rm -rf "$D"; exit 2; }
(cd "$D" && /venv/bin/python out/x/demo.py > "$OUT/demo_on_mutant.txt" 2>&1); MUT=$?
TESTS=$(cd "$D" && /venv/bin/python -m pytest -q -p no:cacheprovider dynetx/test 2>&1 | tail -1)
echo "demo clean exit=$CLEAN mutated exit=$MUT ; tests: $TESTS"
RES=""
for P in "$@"; do
  LINE=$(DYNETX_REPO="$D" VERIF_EVIDENCE_DIR="$D/evidence" "$ROOT/verif" check $P --tier quick 2>&1 | grep -v "^UNDECIDED\|^KNOWN-FINDING" | tail -6)
  echo "$LINE" | cut -c1-220
  V=$(echo "$LINE" | grep -c "^VIOLATION")
  RES="$RES $P:$V"
  for f in $(echo "$LINE" | grep "^VIOLATION" | sed 's/.*replay=\([^ ]*\).*/\1/' | head -2); do cp "$f" "$OUT/" 2>/dev/null; done
done
python3 - "$OUT" "$NAME" "$CLEAN" "$MUT" "$TESTS" "$RES" <<'PY'
import json, sys, os
out, name, clean, mut, tests, res = sys.argv[1:7]
am = {}
try: am = json.load(open(os.path.join(out, 'agent_meta.json')))
except Exception: pass
meta = {'id': name, 'property': am.get('property'), 'what': am.get('what'), 'needs': am.get('needs'),
        'confirmed': {'demo_exit_on_clean_tree': int(clean), 'demo_exit_on_changed_tree': int(mut), 'baseline_tests_on_changed_tree': tests},
        'checks_run': {p.split(':')[0]: ('detected (%s VIOLATION line(s))' % p.split(':')[1] if p.split(':')[1] != '0' else 'NOT detected') for p in res.split()},
        'ran': ['tools/seeded.sh: git archive HEAD -> scratch copy, demo.py on clean copy, git apply patch.diff, demo.py, pytest dynetx/test, ./verif check <property> --tier quick with DYNETX_REPO=<scratch copy>; scratch copy removed']}
json.dump(meta, open(os.path.join(out, 'meta.json'), 'w'), indent=1)
PY
rm -rf "$D"
