import sys, time, collections
sys.path.insert(0,'/verif')
from pyvc.engine import Engine
from pyvc.solve import discharge, to_smt2, split_goal
from contracts.kernel import AddInteraction
eng = Engine()
c = AddInteraction(sys.argv[1])
eng.register(c, modular=False); eng.cur_key=c.key
var={'mode':'removal','t':'int','e':sys.argv[2]}
obs, stats = eng.run_paths(lambda ctx: c.setup(ctx, var), c.body, c.finish)
sel=[o for o in obs if o.name==sys.argv[3]]
meta = discharge(sel, workers=16, timeout_ms=4000, use_cvc5=False)
n=0
for ob,k,res in meta:
    if res['status']!='discharged' or 'mbqi' in res['backend']:
        g=split_goal(ob.goal)[k]
        open('/tmp/ob_%d.smt2'%n,'w').write(to_smt2(ob.hyps,g)); 
        print(n, res['status'], res['backend'], ' '.join(ob.path)); n+=1
