import sys, time, json, z3
sys.path.insert(0,'/verif')
from pyvc.engine import Engine
from pyvc.solve import split_goal
from contracts.kernel import AddInteraction
eng=Engine()
cls=sys.argv[1]; e=sys.argv[2]; name=sys.argv[3]; n=int(sys.argv[4])
c=AddInteraction(cls,bound_n=n); eng.register(c,modular=False); eng.cur_key=c.key
var={'mode':'removal','t':'int','e':e}
obs,stats=eng.run_paths(lambda ctx: c.setup(ctx,var), c.body, c.finish)
print(len(obs), stats['paths'], stats['undecided'][:3])
for ob in obs:
    if ob.name!=name: continue
    for g in split_goal(ob.goal):
        s=z3.Solver(); s.set('timeout',5000)
        for h in ob.hyps: s.add(h)
        s.add(z3.Not(g)); t=time.time(); r=s.check(); print(r, '%.2f'%(time.time()-t), s.reason_unknown() if r==z3.unknown else '', ' '.join(ob.path[-6:]))
