"""vacuity guard experiment: for every path end of a unit, is `False` provable from the hypotheses + path condition?"""
import sys, time, importlib, collections
sys.path.insert(0,'/verif')
from pyvc.engine import Engine
from pyvc.solve import discharge
from pyvc.interp import Obligation
import z3
eng = Engine()
mod=importlib.import_module(sys.argv[1]); c=getattr(mod, sys.argv[2])(*eval(sys.argv[3]))
for dep in getattr(c,'uses',lambda e: [])(eng): eng.register(dep, modular=True)
eng.register(c, modular=False); eng.cur_key=c.key
for var in c.variants():
    if len(sys.argv)>4 and not eval(sys.argv[4])(var): continue
    fin = c.finish
    def finish(ctx, call, outcome, fin=fin):
        ctx.oblige('canary.false', z3.BoolVal(False), kind='canary')
    obs, stats = eng.run_paths(lambda ctx: c.setup(ctx, var), c.body, finish)
    can=[o for o in obs if o.name=='canary.false']
    meta = discharge(can, workers=16, timeout_ms=4000, use_cvc5=False)
    cnt=collections.Counter(r['status'] for _,_,r in meta)
    print(c.variant_name(var), 'path ends:', len(can), dict(cnt), 'VACUOUS PATHS!' if cnt.get('discharged') else '')
