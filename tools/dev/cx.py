import sys, time, json
sys.path.insert(0,'/verif')
from pyvc.engine import Engine
from pyvc.driver import find_counterexample
from contracts.kernel import AddInteraction
eng=Engine()
cls=sys.argv[1]; e=sys.argv[2]; name=sys.argv[3]
t=time.time()
r=find_counterexample(eng, lambda n: AddInteraction(cls, bound_n=n), {'mode':'removal','t':'int','e':e}, name, log=print)
print('%.1fs'%(time.time()-t))
print(json.dumps(r, indent=1, default=str)[:3000] if r else None)
