import sys, time, json, os
sys.path.insert(0,'/verif'); sys.path.insert(0, os.environ.get('DYNETX_REPO','/repo'))
from pyvc.engine import Engine
from pyvc.driver import find_counterexample
from contracts.kernel import AddInteraction
eng=Engine()
cls=sys.argv[1]; var=eval(sys.argv[2]); name=sys.argv[3]
t=time.time()
r,info=find_counterexample(eng, lambda n: AddInteraction(cls, bound_n=n), var, name, log=print)
print('%.1fs'%(time.time()-t), info)
if r: print(r['call'], r['outcome'], sorted(r['violated'])); print(r['history'])
