import sys
sys.path.insert(0,'/verif')
from pyvc.engine import Engine
from contracts.kernel import AddInteraction
import dynetx as dn
eng=Engine()
c=AddInteraction('DynGraph')
G=dn.DynGraph(); G.add_interaction(1,2,0,5)
r=c.replay(eng,None,(1,2,2,None),G=G); print(r['outcome'], r['violated'])
G=dn.DynGraph(); G.add_interaction(1,2,3,5)
r=c.replay(eng,None,(1,2,1,None),G=G); print(r['outcome'], r['violated'])
G=dn.DynGraph(); G.add_interaction(1,2,3,5)
r=c.replay(eng,None,(1,2,7,9),G=G); print(r['outcome'], r['violated'])
