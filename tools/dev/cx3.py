import sys, time, json, z3, os
sys.path.insert(0,'/verif')
from pyvc.engine import Engine
from pyvc.solve import split_goal, to_smt2
from contracts.kernel import AddInteraction
eng=Engine()
cls=sys.argv[1]; e=sys.argv[2]; name=sys.argv[3]; n=int(sys.argv[4])
c=AddInteraction(cls,bound_n=n); eng.register(c,modular=False); eng.cur_key=c.key
var={'mode':'removal','t':'int','e':e}
obs,stats=eng.run_paths(lambda ctx: c.setup(ctx,var), c.body, c.finish)
k=0
for ob in obs:
    if ob.name!=name: continue
    for g in split_goal(ob.goal):
        s=z3.Solver(); s.set('timeout',3000)
        for h in ob.hyps: s.add(h)
        s.add(z3.Not(g)); r=s.check()
        if r==z3.unknown:
            open('/tmp/cx_%d.smt2'%k,'w').write(to_smt2(ob.hyps,g)); k+=1
            # try dropping each hypothesis group
            for i,h in enumerate(ob.hyps):
                if not z3.is_quantifier(h) and not (z3.is_implies(h) and z3.is_quantifier(h.arg(1))): continue
                s=z3.Solver(); s.set('timeout',3000)
                for j,h2 in enumerate(ob.hyps):
                    if j!=i: s.add(h2)
                s.add(z3.Not(g)); t=time.time(); r2=s.check()
                if r2!=z3.unknown: print('dropping hyp',i,'->',r2,'%.2f'%(time.time()-t), str(h)[:300].replace('\n',' '))
            sys.exit()
