import sys, time, collections
sys.path.insert(0,'/verif')
from pyvc.engine import Engine
from contracts.kernel import AddInteraction
eng = Engine()
c = AddInteraction(sys.argv[1] if len(sys.argv)>1 else 'DynGraph')
eng.register(c, modular=False); eng.cur_key=c.key
for var in c.variants():
    if var['mode']!='removal': continue
    t=time.time()
    obs, stats = eng.run_paths(lambda ctx: c.setup(ctx, var), c.body, c.finish)
    print(c.variant_name(var), {k:v for k,v in stats.items() if k!='undecided'}, len(obs), 'obligations', '%.1fs'%(time.time()-t))
    for u in stats['undecided'][:5]: print('   UNDECIDED', u)
    print('   ', collections.Counter(o.name.split('.')[0]+'.'+o.name.split('.')[1] for o in obs).most_common(12))
