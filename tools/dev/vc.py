import sys, time, collections, importlib
sys.path.insert(0,'/verif')
from pyvc.engine import Engine
from pyvc.solve import discharge
eng = Engine()
mod=importlib.import_module(sys.argv[1]); c=getattr(mod, sys.argv[2])(*eval(sys.argv[3]))
c.excluded_regions=set(filter(None,__import__('os').environ.get('VC_EXCL','D06,D09b,D10,D11,D12').split(',')))
for dep in getattr(c,'uses',lambda e: [])(eng): eng.register(dep, modular=True)
eng.register(c, modular=False); eng.cur_key=c.key
for var in c.variants():
    if len(sys.argv)>4 and not eval(sys.argv[4])(var): continue
    t=time.time()
    obs, stats = eng.run_paths(lambda ctx: c.setup(ctx, var), c.body, c.finish)
    print(c.variant_name(var), len(obs),'obligations gen %.1fs'%(time.time()-t), {k:v for k,v in stats.items() if k!='undecided'}, stats['undecided'][:3])
    t=time.time()
    meta = discharge(obs, workers=16, timeout_ms=int(__import__("os").environ.get("VC_TIMEOUT","6000")), use_cvc5=False)
    by=collections.defaultdict(lambda: collections.Counter()); ex={}
    for ob,k,res in meta:
        by[ob.name][res['status']+'/'+res['backend']]+=1
        if res['status']!='discharged': ex.setdefault(ob.name,(ob,res))
    print('  solve %.1fs'%(time.time()-t), sum(1 for _,_,r in meta if r['status']=='discharged'),'/',len(meta))
    for n in sorted(by):
        if any(not k.startswith('discharged') for k in by[n]): print('   %-70s %s'%(n,dict(by[n])))
    for n,(ob,res) in ex.items(): print('   ',n, '|', ' '.join(ob.path)[-300:], '|', res['reason'][:80])
