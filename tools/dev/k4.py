import sys, time, collections
sys.path.insert(0,'/verif')
from pyvc.engine import Engine
from pyvc.solve import discharge
from contracts.kernel import AddInteraction
eng = Engine()
c = AddInteraction(sys.argv[1]); c.excluded_regions=set(sys.argv[4].split(',')) if len(sys.argv)>4 else set()
eng.register(c, modular=False); eng.cur_key=c.key
var=eval(sys.argv[2])
t=time.time()
obs, stats = eng.run_paths(lambda ctx: c.setup(ctx, var), c.body, c.finish)
print(len(obs),'obligations gen %.1fs'%(time.time()-t), {k:v for k,v in stats.items() if k!='undecided'}, stats['undecided'][:3])
t=time.time()
meta = discharge(obs, workers=16, timeout_ms=int(sys.argv[3]) if len(sys.argv)>3 else 4000, use_cvc5=False)
print('solve %.1fs'%(time.time()-t))
by=collections.defaultdict(lambda: collections.Counter()); tm=collections.defaultdict(float)
ex={}
for ob,k,res in meta:
    by[ob.name][res['status']+'/'+res['backend']]+=1; tm[ob.name]+=res['seconds']
    if res['status']!='discharged': ex.setdefault(ob.name,(ob,res))
for n in sorted(by):
    if any(not k.startswith('discharged/z3-ematch') and not k.startswith('discharged/trivial') for k in by[n]): print('%-70s %6.1fs %s'%(n,tm[n],dict(by[n])))
for n,(ob,res) in ex.items(): print(n, '|', ' '.join(ob.path)[-300:], '|', res['reason'][:80])
