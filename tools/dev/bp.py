import sys, time, json, collections
sys.path.insert(0,'/verif'); 
import importlib
mod=importlib.import_module('bounded.'+sys.argv[1]); fn=getattr(mod, sys.argv[2])
t=time.time(); r=fn(sys.argv[3] if len(sys.argv)>3 else 'quick', 1)
c=r['coverage']; print('%.1fs evaluations=%d distinct=%d violations=%d'%(time.time()-t,c['evaluations'],c['distinct_nontrivial'],len(r['violations'])))
kinds=collections.OrderedDict()
for v in r['violations']: kinds.setdefault((v['check'],v['class']),v)
for (k,cls),v in kinds.items(): print(' ',k,cls,'|',v['history'],'|',v['detail'][:260], {x:v[x] for x in v if x not in('check','class','edge_removal','history','detail')})
