#!/bin/sh
# usage: tools/mutant.sh <file-relative-to-repo> <sed-expression> <property>...   (scratch copy under /tmp, removed afterwards)
set -e
F="$1"; EXPR="$2"; shift 2
D=$(mktemp -d /tmp/mut.XXXXXX)
cp -r /repo/dynetx "$D/"
sed -i "$EXPR" "$D/$F"
if diff -q /repo/$F "$D/$F" >/dev/null; then echo "MUTANT DID NOT CHANGE THE FILE"; rm -rf "$D"; exit 2; fi
diff /repo/$F "$D/$F" | head -6
for P in "$@"; do
  DYNETX_REPO="$D" VERIF_EVIDENCE_DIR="$D/evidence" /verif/verif check $P --tier quick 2>&1 | grep -v "^UNDECIDED" | tail -4 | cut -c1-200
done
rm -rf "$D"
