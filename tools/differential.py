#!/usr/bin/env python3
import sys, os, json, time
ROOT = os.path.dirname(os.path.dirname(os.path.abspath(__file__)))
sys.path.insert(0, ROOT); sys.path.insert(0, os.environ.get('DYNETX_REPO', '/repo'))
from pyvc.differential import kernel_differential
t = time.time()
st = kernel_differential(int(sys.argv[1]) if len(sys.argv) > 1 else 60, int(sys.argv[2]) if len(sys.argv) > 2 else 1)
print(json.dumps({k: (v if k != 'mismatches' else v[:3]) for k, v in st.items()}, indent=1), '%.1fs' % (time.time() - t))
