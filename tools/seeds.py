#!/usr/bin/env python3
"""Run every bounded part with several seeds on the unchanged tree: nothing may fire except listed known findings."""
import sys, os, json, time, importlib
ROOT = os.path.dirname(os.path.dirname(os.path.abspath(__file__)))
sys.path.insert(0, ROOT); sys.path.insert(0, os.environ.get('DYNETX_REPO', '/repo'))
from contracts import registry
from pyvc import findings, check as chk
from bounded import parts
kf = chk.load_known_findings()
seeds = [int(x) for x in sys.argv[1].split(',')] if len(sys.argv) > 1 else [2, 3]
only = sys.argv[2].split(',') if len(sys.argv) > 2 else None
bad = 0
for pid, ps in sorted(registry.BOUNDED_PARTS.items()):
    if only and pid not in only:
        continue
    for part in ps:
        for seed in seeds:
            t = time.time()
            res = getattr(parts, part)('quick', seed)
            unexpected = [v for v in res['violations'] if findings.match_bounded(kf, pid, v) is None]
            print('%s %-34s seed %d: %6d evaluations, %d violations, %d unexpected  %.1fs' % (pid, part, seed, res['coverage']['evaluations'], len(res['violations']), len(unexpected), time.time() - t), flush=True)
            for v in unexpected[:3]:
                bad += 1
                print('    UNEXPECTED', v['check'], v.get('class'), json.dumps(v.get('history'))[:200], '|', v['detail'][:300])
sys.exit(1 if bad else 0)
