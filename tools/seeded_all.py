#!/usr/bin/env python3
"""Re-run every seeded change against the current checks (scratch copies, 3 at a time) and write seeded/SUMMARY.json:
per change, the proof-tier obligations that were not discharged / refuted and the bounded checks that fired."""
import concurrent.futures as cf
import glob
import json
import os
import shutil
import subprocess
import sys
import tempfile

ROOT = os.path.dirname(os.path.dirname(os.path.abspath(__file__)))


def run_one(d):
    name = os.path.basename(d)
    meta = json.load(open(os.path.join(d, 'meta.json')))
    prop = meta.get('property') or name.split('_')[0]
    tmp = tempfile.mkdtemp(prefix='seedall.')
    try:
        subprocess.run('git -C /repo archive HEAD | tar -x -C %s' % tmp, shell=True, check=True)
        r = subprocess.run(['git', 'apply', '--whitespace=nowarn', os.path.join(d, 'patch.diff')], cwd=tmp, capture_output=True, text=True)
        if r.returncode != 0:
            r = subprocess.run(['patch', '-p1', '-i', os.path.join(d, 'patch.diff')], cwd=tmp, capture_output=True, text=True)
            if r.returncode != 0:
                return name, {'property': prop, 'error': 'patch does not apply to the current tree: ' + (r.stderr or r.stdout)[-200:]}
        env = dict(os.environ, DYNETX_REPO=tmp, VERIF_EVIDENCE_DIR=os.path.join(tmp, 'ev'), VERIF_WORKERS='5')
        p = subprocess.run([os.path.join(ROOT, 'verif'), 'check', prop, '--tier', 'quick'], capture_output=True, text=True, env=env, timeout=3000)
        ev = json.load(open(os.path.join(tmp, 'ev', prop + '.json')))
        cov = ev['coverage']
        proof = sorted(set('%s [%s]' % (t['clause'], '/'.join(t['status'])) for t in cov.get('not_discharged', [])))
        lines = [l for l in p.stdout.splitlines() if l.startswith('VIOLATION')]
        bounded, replayed = [], []
        for l in lines:
            f = l.split('replay=')[1].split()[0]
            try:
                rd = json.load(open(f))
            except Exception:
                continue
            if 'part' in rd:
                bounded.append(rd['check'])
            else:
                replayed.append((rd.get('obligation') or rd.get('clause')) + (' (no-failing-input-found)' if 'no-failing-input-found' in l else ' (replayed)'))
        return name, {'property': prop, 'exit': p.returncode, 'proof_tier_not_discharged': proof, 'proof_tier_violation_lines': sorted(set(replayed)),
                      'bounded_tier_violation_lines': sorted(set(bounded)), 'undecided': len(cov.get('undecided', [])), 'wall_s': ev['wall_s']}
    except Exception as ex:
        return name, {'property': prop, 'error': repr(ex)[:300]}
    finally:
        shutil.rmtree(tmp, ignore_errors=True)


def main():
    dirs = sorted(x for x in glob.glob(os.path.join(ROOT, 'seeded', '*')) if os.path.isdir(x))
    if len(sys.argv) > 1:
        dirs = [d for d in dirs if any(a in d for a in sys.argv[1:])]
    out = {}
    with cf.ThreadPoolExecutor(3) as ex:
        for name, res in ex.map(run_one, dirs):
            out[name] = res
            print(name, res.get('exit'), res.get('error', ''), 'proof:', res.get('proof_tier_violation_lines'), res.get('proof_tier_not_discharged'),
                  'bounded:', res.get('bounded_tier_violation_lines'), flush=True)
    p = os.path.join(ROOT, 'seeded', 'SUMMARY.json')
    old = json.load(open(p)) if os.path.exists(p) and len(sys.argv) > 1 else {}
    old.update(out)
    json.dump(old, open(p, 'w'), indent=1, sort_keys=True)


if __name__ == '__main__':
    main()
