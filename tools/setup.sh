#!/bin/sh
# Build /verif/.venv offline: python 3.12 (same interpreter as /venv, where dynetx and its deps live)
# + z3-solver, cvc5, jsonschema from the offline wheelhouse; a .pth makes /venv's site-packages visible.
set -e
cd "$(dirname "$0")/.."
if [ -x .venv/bin/python ] && .venv/bin/python -c "import z3, networkx, dynetx" 2>/dev/null; then
  exit 0
fi
rm -rf .venv
/venv/bin/python -m venv .venv
PIP_NO_INDEX=1 .venv/bin/python -m pip install -q --no-index --find-links /opt/veriftools/wheels z3-solver cvc5 jsonschema >/dev/null
SP=$(.venv/bin/python -c "import sysconfig; print(sysconfig.get_paths()['purelib'])")
echo "import site; site.addsitedir('/venv/lib/python3.12/site-packages')" > "$SP/venv_overlay.pth"
.venv/bin/python -c "import z3, networkx, dynetx; print('venv ok', z3.get_version_string(), networkx.__version__, dynetx.__file__)"
