#!/bin/sh
# benign edits, second batch (functions that came under contract later): renamed locals, keyword instead of positional arguments,
# an equivalent spelling of a condition; every check must stay quiet (obligations discharged, no VIOLATION)
D=$(mktemp -d /tmp/benign.XXXXXX)
git -C /repo archive HEAD | tar -x -C "$D"
python3 - "$D" <<'PY'
import re, sys, os
D = sys.argv[1]
def edit(rel, pairs):
    p = os.path.join(D, rel); s = open(p).read()
    for a, b in pairs:
        if a not in s:
            print('PATTERN NOT FOUND in %s: %r' % (rel, a[:60]))
        s = s.replace(a, b)
    open(p, 'w').write(s)
for f in ('dynetx/classes/dyngraph.py', 'dynetx/classes/dyndigraph.py'):
    s = open(os.path.join(D, f)).read()
    s = re.sub(r'\[i for i in self\._(adj|succ|pred)\[n\] if self\.__presence_test\((\w+), (\w+), t\)\]',
               lambda m: '[nb for nb in self._%s[n] if self.__presence_test(%s, %s, t)]' % (m.group(1), 'nb' if m.group(2) == 'i' else m.group(2), 'nb' if m.group(3) == 'i' else m.group(3)), s)
    s = s.replace('edges_t', 'deg_now')
    s = s.replace('numerator, denominator = (0, 0)', 'numerator, denominator = 0, 0')
    open(os.path.join(D, f), 'w').write(s)
edit('dynetx/classes/dyngraph.py', [
    ('            deg = list(self.degree([n], t).values())\n            if len(deg) > 0:\n                return deg[0] > 0', '            found = list(self.degree([n], t).values())\n            if len(found) > 0:\n                return found[0] > 0'),
    ('        nlist = list(nodes)\n        interaction = zip(nlist[:-1], nlist[1:])\n        self.add_interactions_from(interaction, t)', '        seq = list(nodes)\n        pairs = zip(seq[:-1], seq[1:])\n        self.add_interactions_from(pairs, t=t)'),
    ('        ucov = 0\n        for t in self.snapshots:\n            ucov += 1 if self.has_node(u, t) else 0\n        return ucov / len(self.snapshots)', '        hits = 0\n        for tid in self.snapshots:\n            hits += 1 if self.has_node(u, tid) else 0\n        return hits / len(self.snapshots)'),
])
edit('dynetx/algorithms/paths.py', [
    ('    ids = [i for i in ids if start <= i <= end]', '    ids = [x for x in ids if start <= x and x <= end]'),
    ('        paths = time_respecting_paths(G, u, v=None, start=start, end=end, sample=sample) #list\n        if len(paths) > 0:\n            for k, path in paths.items():\n                v = k[-1]\n                res[(u, v)] = path',
     '        found = time_respecting_paths(G, u, None, start, end, sample=sample)\n        if len(found) > 0:\n            for key, plist in found.items():\n                w = key[-1]\n                res[(u, w)] = plist'),
])
edit('dynetx/algorithms/assortativity.py', [
    ('            dconf = delta_conformity(dg, t, delta, alphas, labels, profile_size, hierarchies, path_type,\n                                     progress_bar=not progress_bar, sample=sample)\n            if dconf is None:\n                continue\n            for alpha, data in list(dconf.items()):',
     '            res_t = delta_conformity(dg, t, delta, alphas, labels, profile_size=profile_size, hierarchies=hierarchies, path_type=path_type,\n                                     progress_bar=not progress_bar, sample=sample)\n            if res_t is None:\n                continue\n            for alpha, data in list(res_t.items()):'),
])
edit('dynetx/classes/function.py', [
    ('    return G.degree(nbunch, t)', '    return G.degree(nbunch=nbunch, t=t)'),
    ('    return G.number_of_interactions(u, v, t)', '    return G.number_of_interactions(u=u, v=v, t=t)'),
])
PY
(cd "$D" && /venv/bin/python -m pytest -q -p no:cacheprovider dynetx/test 2>&1 | tail -1)
for P in "$@"; do
  DYNETX_REPO="$D" VERIF_EVIDENCE_DIR="$D/evidence" /verif/verif check $P --tier quick 2>&1 | grep -v "^KNOWN-FINDING" | tail -4 | cut -c1-220
done
rm -rf "$D"
