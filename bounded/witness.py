"""Witness histories of the listed known findings, run against the real code.  Each returns True while
the defect is still present."""
import dynetx as dn


def d06_unclosed_two_instant_run(cls='DynGraph'):
    g = getattr(dn, cls)()
    g.add_interaction(1, 2, 0)
    g.add_interaction(1, 2, 1)
    st = list(g.stream_interactions())
    present = sorted(q for q in range(-1, 4) if g.has_interaction(1, 2, q))
    return present == [0, 1] and not any(op == '-' and q == 2 for (_, _, op, q) in st)


def match_d06(v):
    """bounded-tier violation record inside D06's region: a run of exactly two instants [s, s+1] that is not
    closed, whose second instant was added by a point add extending the single instant s"""
    return v.get('check') in ('C05.runs_closed', 'C10.roundtrip') and v.get('d06') is True
