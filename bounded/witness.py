"""Witness histories of the listed known findings, run against the real code.  Each returns True while
the defect is still present."""
import dynetx as dn


def d06_unclosed_two_instant_run(cls='DynGraph'):
    g = getattr(dn, cls)()
    g.add_interaction(1, 2, 0)
    g.add_interaction(1, 2, 1)
    st = list(g.stream_interactions())
    present = sorted(q for q in range(-1, 4) if g.has_interaction(1, 2, q))
    return present == [0, 1] and not any(op == '-' and q == 2 for (_, _, op, q) in st)


def match_d06(v):
    """bounded-tier violation record inside D06's region: a run of exactly two instants [s, s+1] that is not
    closed, whose second instant was added by a point add extending the single instant s"""
    c = v.get('check', '')
    return (c.endswith('.runs_closed') or c.endswith('.replay_reconstructs_presence') or c == 'C10.roundtrip') and v.get('d06') is True


def d09b_to_directed_one_direction():
    g = dn.DynGraph()
    g.add_interaction(1, 2, 0)
    h = g.to_directed()
    return h.has_interaction(1, 2, 0) != h.has_interaction(2, 1, 0)


def match_d09b(v):
    return v.get('check') == 'C16.presence' and v.get('d09') is True


def d10_directed_listing_skips_edges():
    g = dn.DynDiGraph()
    g.add_interaction(1, 2, 0)
    g.add_interaction(2, 1, 0)
    return len(g.interactions(t=0)) == 1 and len(g.interactions()) == 1


def match_d10(v):
    return v.get('check', '').split('.')[-1] in ('interactions', 'dn_interactions', 'interactions_nbunch') and v.get('d10') is True


def d11_self_loop_counted_once():
    g = dn.DynGraph()
    g.add_interaction(1, 1, 0)
    g.add_interaction(1, 2, 0)
    return g.degree(1, t=0) == 2 and g.size(t=0) == 1


def match_d11(v):
    return v.get('d11') is True


def d12_density_of_a_snapshot():
    g = dn.DynGraph()
    g.add_interaction(1, 2, 0)
    return dn.density(g, t=0) == 0


def match_d12(v):
    return v.get('check', '').endswith('.density') and v.get('d12') is True


def d21_frozen_graph_accepts_interactions():
    g = dn.DynGraph()
    dn.freeze(g)
    try:
        g.add_interaction(1, 2, 0)
    except Exception:
        return False
    return g.has_interaction(1, 2, 0)


def match_d21(v):
    c = v.get('check', '')
    return c.startswith('C19.freeze.') and any(m in c for m in ('add_interaction', 'add_interactions_from', 'add_path', 'add_star', 'add_cycle'))


def d24_node_density_counts_the_node_itself():
    g = dn.DynGraph()
    g.add_interaction(2, 1, 0)
    return abs(g.node_density(1) - 0.5) < 1e-9


def match_d24(v):
    return v.get('check') == 'C17.node_density' and v.get('d24') is True


def d19_self_loop_in_temporal_dag():
    import dynetx.algorithms as al
    g = dn.DynGraph()
    g.add_interaction(1, 1, 0)
    dag = al.temporal_dag(g, 1)[0]
    return dag.has_edge('1_0', '1_0')


def match_d19(v):
    return v.get('check', '').endswith('.selfloop')


def d23_empty_span_stored_inverted():
    g = dn.DynGraph()
    g.add_interaction(1, 2, 5, 5)
    tl = g._adj[1][2]['t']
    return tl == [[5, 4]]


def match_d23(v):
    return v.get('d23') is True
