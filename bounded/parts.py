"""Registry of the bounded stand-in parts (name -> function) and replay of their violation records."""
import importlib

_MODULES = ('parts_core', 'parts_queries', 'parts_io', 'parts_paths', 'parts_stats_api')


def __getattr__(name):
    for m in _MODULES:
        try:
            mod = importlib.import_module('bounded.' + m)
        except ImportError:
            continue
        if hasattr(mod, name):
            return getattr(mod, name)
    raise AttributeError(name)


def replay(v):
    """re-run a violation record against the real code: 1 if it still fails, else 0"""
    part = v.get('part')
    for m in _MODULES:
        try:
            mod = importlib.import_module('bounded.' + m)
        except ImportError:
            continue
        if part and hasattr(mod, part):
            if hasattr(mod, 'replay') and m not in ('parts_core', 'parts_queries'):
                return mod.replay(v)
            res = getattr(mod, part)('replay', 0, only=v) if False else None
    # generic: re-run the part in quick tier and look for the same check on the same history
    if part:
        fn = __getattr__(part)
        res = fn('quick', v.get('seed', 0))
        for w in res['violations']:
            if w['check'] == v['check'] and w.get('history') == v.get('history'):
                print('still fails:', w['check'], w['detail'][:300])
                return 1
        same = [w for w in res['violations'] if w['check'] == v['check']]
        if same:
            print('the same check still fails (on %r): %s' % (same[0].get('history'), same[0]['detail'][:300]))
            return 1
        print('no longer fails:', v['check'])
        return 0
    print('record has no part name; cannot replay')
    return 0
