"""Registry of the bounded stand-in parts (name -> function) and replay of their violation records."""
import importlib

_MODULES = ('parts_core', 'parts_queries', 'parts_io', 'parts_paths', 'parts_stats_api')


def _lookup(name):
    for m in _MODULES:
        try:
            mod = importlib.import_module('bounded.' + m)
        except ImportError:
            continue
        if hasattr(mod, name):
            return getattr(mod, name)
    raise AttributeError(name)


def _raised_by_repo(tb):
    """is the innermost frame of the traceback code of the dynetx package under test (not harness code)?"""
    import os
    import dynetx
    root = os.path.dirname(os.path.abspath(dynetx.__file__)) + os.sep
    while tb.tb_next is not None:
        tb = tb.tb_next
    return os.path.abspath(tb.tb_frame.f_code.co_filename).startswith(root)


def _interrupted_in_repo(tb):
    """the frame that was executing when the watchdog fired (the one below the signal handler) is code of the dynetx package under test"""
    import os
    import dynetx
    root = os.path.dirname(os.path.abspath(dynetx.__file__)) + os.sep
    frames = []
    while tb is not None:
        frames.append(tb.tb_frame)
        tb = tb.tb_next
    while frames and frames[-1].f_code.co_name == 'on_alarm':
        frames.pop()
    # (the interrupted frame may be inside networkx / the standard library, called from dynetx: look for the innermost dynetx frame
    # that is not followed by harness frames)
    for fr in reversed(frames):
        fn_ = os.path.abspath(fr.f_code.co_filename)
        if fn_.startswith(root):
            return True
        if os.sep + 'verif' + os.sep in fn_ or fn_.startswith(os.path.dirname(os.path.abspath(__file__))):
            return False
    return False


def __getattr__(name):
    fn = _lookup(name)
    if not (callable(fn) and len(name) > 4 and name[0] == 'c' and name[1:3].isdigit() and name[3] == '_'):
        return fn

    def guarded(tier, seed, *a, **kw):
        """an exception that the code under test raises while the part queries a graph built by an accepted history is a
        violation of the part's property (the queries are total on such graphs); an exception of the harness is a crash"""
        import sys
        import signal
        import traceback
        from bounded import core
        core.CURRENT = None
        budget = 1500 if tier == 'quick' else 7200

        class PartTimeout(Exception):
            pass

        def on_alarm(signum, frame):
            raise PartTimeout('part %s exceeded %d s' % (name, budget))
        old = None
        try:
            old = signal.signal(signal.SIGALRM, on_alarm)
            signal.alarm(budget)
        except (ValueError, AttributeError):
            old = None              # (not in the main thread: no watchdog)
        try:
            return fn(tier, seed, *a, **kw)
        except PartTimeout:
            # a call that does not come back: a violation when the time is being spent inside the code under test
            et, ev, tb = sys.exc_info()
            if not _interrupted_in_repo(tb):
                raise
            cur = core.CURRENT or (None, None, None)
            return {'coverage': {'evaluations': 1, 'distinct_nontrivial': 1, 'rule': 'aborted: the code under test did not return within the budget',
                                 'samples': [{}], 'exhaustive': False, 'bound': '', 'label': 'bounded stand-in (never counted as proved)'},
                    'violations': [{'check': 'C%s.does_not_return_on_accepted_history' % name[1:3], 'class': cur[0], 'edge_removal': cur[1],
                                    'history': core._j(cur[2]) if cur[2] is not None else None,
                                    'detail': 'the part exceeded its budget of %d s while executing the code under test\n%s' % (budget, ''.join(traceback.format_tb(tb)[-3:]))}]}
        except Exception:
            et, ev, tb = sys.exc_info()
            if not _raised_by_repo(tb):
                raise
            cur = core.CURRENT or (None, None, None)
            return {'coverage': {'evaluations': 1, 'distinct_nontrivial': 1, 'rule': 'aborted by an exception of the code under test',
                                 'samples': [{}], 'exhaustive': False, 'bound': '', 'label': 'bounded stand-in (never counted as proved)'},
                    'violations': [{'check': 'C%s.raises_on_accepted_history' % name[1:3], 'class': cur[0], 'edge_removal': cur[1],
                                    'history': core._j(cur[2]) if cur[2] is not None else None,
                                    'detail': '%s: %s raised by the code under test while the harness queried a graph built by an accepted '
                                              'history\n%s' % (et.__name__, ev, ''.join(traceback.format_tb(tb)[-3:]))}]}
        finally:
            try:
                signal.alarm(0)
                if old is not None:
                    signal.signal(signal.SIGALRM, old)
            except (ValueError, AttributeError):
                pass
    guarded.__name__ = name
    return guarded


def replay(v):
    """re-run a violation record against the real code: 1 if it still fails, else 0"""
    part = v.get('part')
    for m in _MODULES:
        try:
            mod = importlib.import_module('bounded.' + m)
        except ImportError:
            continue
        if part and hasattr(mod, part):
            if hasattr(mod, 'replay') and m not in ('parts_core', 'parts_queries'):
                return mod.replay(v)
            res = getattr(mod, part)('replay', 0, only=v) if False else None
    # generic: re-run the part in quick tier and look for the same check on the same history
    if part:
        fn = __getattr__(part)
        res = fn('quick', v.get('seed', 0))
        for w in res['violations']:
            if w['check'] == v['check'] and w.get('history') == v.get('history'):
                print('still fails:', w['check'], w['detail'][:300])
                return 1
        same = [w for w in res['violations'] if w['check'] == v['check']]
        if same:
            print('the same check still fails (on %r): %s' % (same[0].get('history'), same[0]['detail'][:300]))
            return 1
        print('no longer fails:', v['check'])
        return 0
    print('record has no part name; cannot replay')
    return 0
