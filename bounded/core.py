"""Bounded stand-in (DESIGN section 5): shared machinery.

An *oracle model* written from the property texts (not from the code) is run next to the real library
over an enumerated small scope of histories; every part (bounded/parts_*.py) compares what the real code
returns in each reached state with what the model says.  Results are labelled *bounded* in the evidence and
are never counted as proved.

Interface of a part:  part(tier, seed) -> {'coverage': {...}, 'violations': [violation, ...]}
violation = {'check': 'C02.degree', 'class': 'DynGraph', 'edge_removal': True, 'history': [...calls...],
             'detail': '...', ...}           (JSON-able; `history` replays through the public API)
"""
import itertools
import random

import dynetx as dn

NODES = (1, 2, 3)

_builtin_sorted = sorted


def sorted(x, key=None, reverse=False):      # noqa: A001  (deliberate shadow, imported by the parts)
    """sorted() that also orders values of mixed types (node ids may be ints, strings and tuples at once): falls back to
    ordering by repr; used on both sides of every comparison"""
    x = list(x)
    try:
        return _builtin_sorted(x, key=key, reverse=reverse)
    except TypeError:
        return _builtin_sorted(x, key=(repr if key is None else (lambda z: repr(key(z)))), reverse=reverse)


# legal but unusual node ids: mixed types in one graph, an id that is another id followed by digits, tuples
RELABELLINGS = ({1: 'a', 2: 'x1', 3: 11}, {1: 1, 2: 11, 3: 'A1'}, {1: 'A', 2: 'A1', 3: 'A11'})   # (tuple ids would not survive the JSON replay records)


def relabel(h, m):
    f = lambda n: m.get(n, n)
    out = []
    for c in h:
        if c[0] == 'add':
            out.append(('add', f(c[1]), f(c[2]), c[3], c[4]))
        elif c[0] == 'from':
            out.append(('from', tuple((f(a), f(b)) for a, b in c[1]), c[2], c[3]))
        else:
            out.append((c[0], tuple(f(n) for n in c[1]), c[2]))
    return out
T_LO, T_HI = 0, 4            # instants used by generated calls; queries look at T_LO-1 .. T_HI+2


def qs_of(M, base=None):
    """query instants: the fixed window plus a margin around every instant the model knows"""
    out = set(base if base is not None else range(T_LO - 2, T_HI + 4))
    inst = M.instants()
    if not M.removal:
        inst = sorted(set(inst) | set(M.first.values()))
    for q in inst:
        if q < T_LO - 2 or q > T_HI + 3:
            out.update((q - 1, q, q + 1))
    if inst:
        out.update(range(min(inst) - 2, min(inst) + 1))
        out.update(range(max(inst), max(inst) + 3))
    return sorted(out)


class Model(object):
    """presence relation as the properties define it (C01 / C08), built from the accepted calls"""

    def __init__(self, directed, removal=True):
        self.directed, self.removal = directed, removal
        self.pres = {}        # key -> set of instants            (removal mode)
        self.first = {}       # key -> first accepted start        (accumulative mode)
        self.snaps = set()    # instants of accepted adds          (accumulative mode)
        self.nodes = set()
        self.order = {}       # key -> orientation of the first call (u,v)

    def key(self, u, v):
        return (u, v) if self.directed else tuple(sorted((u, v)))

    def keys(self):
        return list(self.pres if self.removal else self.first)

    def last_start(self, k):
        """start of the pair's latest run"""
        if self.removal:
            S = self.pres.get(k)
            if not S:
                return None
            q = max(S)
            while q - 1 in S:
                q -= 1
            return q
        return self.hist_last.get(k) if hasattr(self, 'hist_last') else None

    def rejects(self, u, v, t, e):
        k = self.key(u, v)
        if self.removal:
            ls = self.last_start(k)
            return ls is not None and t < ls
        # accumulative mode keeps the same documented rule on the stored timeline
        return k in self.acc_runs and t < self.acc_last_start(k)

    # accumulative bookkeeping of the stored timeline (needed only to predict the documented rejection)
    @property
    def acc_runs(self):
        if not hasattr(self, '_acc'):
            self._acc = {}
        return self._acc

    def acc_last_start(self, k):
        S = self._acc[k]
        q = max(S)
        while q - 1 in S:
            q -= 1
        return q

    def add(self, u, v, t, e=None):
        k = self.key(u, v)
        self.nodes.update((u, v))
        self.order.setdefault(k, (u, v))
        if self.removal:
            span = {t} if e is None else set(range(t, e))
            self.pres.setdefault(k, set()).update(span)
        else:
            self.first.setdefault(k, t)
            self.snaps.add(t)
            self.acc_runs.setdefault(k, set()).add(t)

    def ever(self, u, v):
        k = self.key(u, v)
        return k in (self.pres if self.removal else self.first)

    def present(self, u, v, q):
        k = self.key(u, v)
        if self.removal:
            return q in self.pres.get(k, ())
        return k in self.first and self.snaps and self.first[k] <= q <= max(self.snaps)

    def instants(self):
        if self.removal:
            out = set()
            for S in self.pres.values():
                out |= S
            return sorted(out)
        return sorted(self.snaps)

    def edges_at(self, q):
        """list of keys present at q (q None: ever)"""
        if q is None:
            return self.keys()
        return [k for k in self.keys() if self.present(k[0], k[1], q)]


def new_graph(cls, removal=True):
    return getattr(dn, cls)(edge_removal=removal)


def apply_call(G, M, call):
    """one mutator call on the real graph and on the model.
    call = ('add', u, v, t, e) | ('from', [(u,v),..], t, e) | ('path'|'star'|'cycle', [nodes], t)
    returns (outcome, expected): outcome 'ok' | 'ValueError' | other exception class name"""
    kind = call[0]
    if kind == 'node':              # ('node', n): an isolated node (networkx add_node is not blocked: nodes may carry attributes)
        G.add_node(call[1])
        M.nodes.add(call[1])
        return ('ok', 'ok')
    if kind == 'add':
        _, u, v, t, e = call
        pairs, rest = [(u, v)], (t, e)
    elif kind == 'from':
        _, pairs, t, e = call
        rest = (t, e)
    else:
        _, nl, t = call
        nl = list(nl)
        if kind == 'path':
            pairs = list(zip(nl[:-1], nl[1:]))
        elif kind == 'star':
            pairs = [(nl[0], n) for n in nl[1:]]
        else:
            pairs = list(zip(nl, nl[1:] + [nl[0]]))
        rest = (t, None)
    t, e = rest
    # expectation: elements are applied in order, the first rejected one stops the bulk call
    expected = 'ok'
    acc = []
    for (u, v) in pairs:
        if t is None:
            expected = 'NetworkXError'
            break
        if M.rejects(u, v, t, e):
            expected = 'ValueError'
            break
        M.add(u, v, t, e)
        acc.append((u, v))
    try:
        if kind == 'add':
            if e is None:
                G.add_interaction(pairs[0][0], pairs[0][1], t)
            else:
                G.add_interaction(pairs[0][0], pairs[0][1], t, e)
        elif kind == 'from':
            G.add_interactions_from(list(pairs), t, e) if e is not None else G.add_interactions_from(list(pairs), t)
        elif kind == 'path':
            G.add_path(list(call[1]), t)
        elif kind == 'star':
            # DynDiGraph defines add_path only; the star / cycle helpers exist as module-level functions for both classes
            G.add_star(list(call[1]), t) if hasattr(G, 'add_star') else dn.add_star(G, list(call[1]), t)
        elif kind == 'cycle':
            G.add_cycle(list(call[1]), t) if hasattr(G, 'add_cycle') else dn.add_cycle(G, list(call[1]), t)
        outcome = 'ok'
    except Exception as ex:     # the class is what is compared
        outcome = ex.__class__.__name__
    return outcome, expected


def call_alphabet(pairs=None, t_lo=T_LO, t_hi=T_HI, max_len=3):
    pairs = pairs or [(1, 2), (2, 1), (1, 3), (1, 1), (2, 3)]
    out = []
    for (u, v) in pairs:
        for t in range(t_lo, t_hi):
            out.append(('add', u, v, t, None))
            for e in range(t + 1, min(t + 1 + max_len, t_hi + 2)):
                out.append(('add', u, v, t, e))
    return out


def histories(tier, seed, classes=('DynGraph', 'DynDiGraph'), modes=(True,), extra_calls=(), n_random=None,
              max_len=3, pairs=None, odd_ids=False):
    """round-robin over the classes/modes (so that a budgeted consumer sees all of them); odd_ids adds histories whose node
    ids are of mixed types / prefixes of one another (RELABELLINGS)"""
    gens = [_histories(tier, seed, (c,), (m,), extra_calls, n_random, max_len, pairs, odd_ids) for c in classes for m in modes]
    _end = object()
    for tup in itertools.zip_longest(*gens, fillvalue=_end):
        for x in tup:
            if x is not _end:
                yield x


def _histories(tier, seed, classes, modes, extra_calls, n_random, max_len, pairs, odd_ids=False):
    """yield (cls, removal, history).  Exhaustive for length <= 2 over the call alphabet, seeded random
    samples of length 3..max_len+1 beyond; plus a fixed list of structured histories that the property texts
    single out (re-adds, containment, adjacency, reversed endpoint order, shared instants, self-loops)."""
    rng = random.Random(seed * 7919 + 13)
    alpha = call_alphabet(pairs) + list(extra_calls)
    small = call_alphabet(pairs=[(1, 2), (2, 1), (1, 1)] if pairs is None else pairs[:3], t_hi=3, max_len=2)
    n_random = n_random if n_random is not None else (1500 if tier == 'quick' else 12000)
    structured = [
        [('add', 1, 2, 0, 5), ('add', 1, 2, 2, None)],
        [('add', 1, 2, 0, None), ('add', 1, 2, 0, None)],
        [('add', 1, 2, 0, None), ('add', 3, 1, 1, None), ('add', 1, 2, 0, 5)],
        [('add', 1, 2, 0, 3), ('add', 2, 1, 1, 5)],
        [('add', 1, 2, 3, 5), ('add', 1, 2, 1, None)],
        [('add', 1, 2, 0, 3), ('add', 1, 2, 0, 6)],
        [('add', 1, 2, 0, 5), ('add', 1, 2, 2, 4)],
        [('add', 1, 2, 0, None), ('add', 1, 2, 1, None), ('add', 1, 2, 2, None)],
        [('add', 1, 2, 0, None), ('add', 1, 2, 1, None), ('add', 1, 2, 3, None)],
        [('add', 1, 2, 0, 2), ('add', 2, 3, 1, 4), ('add', 1, 3, 3, None), ('add', 1, 1, 2, 4)],
        [('add', 1, 2, 0, 2), ('add', 2, 1, 1, 3), ('add', 2, 1, 5, None), ('add', 1, 2, 4, 7)],
        [('path', (1, 2, 3), 0), ('star', (1, 2, 3), 1), ('cycle', (1, 2, 3), 2)],
        [('from', ((1, 2), (2, 3)), 1, 3), ('from', ((1, 2), (1, 3)), 0, None)],
        [('add', 1, 2, -3, -1), ('add', 1, 2, -1, None), ('add', 2, 3, -2, 2)],
        [('add', 1, 2, 10, 12), ('add', 1, 2, 100, 103), ('add', 2, 3, 11, 101)],
    ]
    def shift(h, d):
        out = []
        for c in h:
            if c[0] == 'add':
                out.append(('add', c[1], c[2], c[3] + d, None if c[4] is None else c[4] + d))
            elif c[0] == 'from':
                out.append(('from', c[1], c[2] + d, None if c[3] is None else c[3] + d))
            else:
                out.append((c[0], c[1], c[2] + d))
        return out

    # multi-run timelines in both directions of a pair (what conversions and readers have to merge)
    long_alpha = [('add', u, v, t, e) for (u, v) in ((1, 2), (2, 1)) for t in range(0, 13) for e in (None, t + 1, t + 2, t + 4, t + 9)]
    for cls in classes:
        for removal in modes:
            for h in structured:
                yield cls, removal, h
            for _ in range(120 if tier == 'quick' else 1200):
                hh = sorted((rng.choice(long_alpha) for _ in range(rng.randint(4, 7))), key=lambda c: c[3])
                yield cls, removal, hh
            for h in structured[:11]:
                yield cls, removal, shift(h, -3)       # runs that start below and end at / around instant 0
                yield cls, removal, shift(h, 1000)
            for i_, h in enumerate(structured if odd_ids else ()):
                yield cls, removal, relabel(h, RELABELLINGS[i_ % len(RELABELLINGS)])
            for c in alpha:
                yield cls, removal, [c]
            for h in itertools.product(small, repeat=2):
                yield cls, removal, list(h)
            for a in alpha:
                if a[1:3] in ((1, 2), (2, 1)):
                    for b in alpha:
                        if b[1:3] in ((1, 2), (2, 1), (1, 1)) and rng.random() < (0.25 if tier == 'quick' else 1.0):
                            yield cls, removal, [a, b]
            for k in range(n_random):
                n = rng.randint(3, max_len + 1)
                h = [rng.choice(alpha) for _ in range(n)]
                if odd_ids and k % 7 == 3:
                    h = relabel(h, RELABELLINGS[k % len(RELABELLINGS)])
                yield cls, removal, (shift(h, -3) if k % 5 == 0 else h)


def probe(G):
    """read-only queries issued BETWEEN the calls of a history: they must not change anything, and whatever they
    memoise must be invalidated by the next mutator (a stale cache shows up in the checks made at the end)"""
    for f in (lambda: G.temporal_snapshots_ids(), lambda: G.interactions_per_snapshots(), lambda: list(G.stream_interactions()),
              lambda: G.interactions(), lambda: G.nodes(), lambda: G.number_of_interactions(), lambda: G.degree(),
              lambda: G.interactions_per_snapshots(T_LO - 7), lambda: G.has_interaction(1, 2, T_LO - 7), lambda: G.number_of_nodes(t=1),
              lambda: G.avg_number_of_nodes(), lambda: G.size(),
              # neighbourhood / degree / per-node queries and the statistics (anything they memoise must be invalidated by the next mutator)
              lambda: G.has_node(1, 1), lambda: G.degree(1, 1), lambda: G.degree([1, 2], 0), lambda: G.nodes(t=1),
              lambda: list(G.neighbors(1, 1)) if not G.is_directed() else (list(G.successors(1, 1)), list(G.predecessors(1, 1)), G.in_degree(1, 1), G.out_degree(1, 1)),
              lambda: G.get_node_snapshots(1), lambda: G.number_of_interactions(1, 2, 1), lambda: G.interactions(t=1),
              lambda: G.time_slice(0, 2), lambda: G.inter_event_time_distribution(), lambda: G.inter_event_time_distribution(1),
              lambda: (G.node_presence(1), G.node_contribution(1), G.edge_contribution(1, 2), G.coverage(), G.pair_density(1, 2), G.node_density(1),
                       G.density(), G.uniformity(), G.node_pair_uniformity(1, 2)) if not G.is_directed() else None,
              lambda: _probe_algorithms(G)):
        try:
            f()
        except Exception:
            pass


def _probe_algorithms(G):
    import dynetx.algorithms as al
    if len(G.snapshots) > 12:
        return                  # (the path algorithms enumerate walks: only on short timelines)
    for u in list(G.nodes())[:2]:
        try:
            al.temporal_dag(G, u)
        except Exception:
            pass


CURRENT = None        # (class, edge_removal, history) being examined (for reports of unexpected exceptions)


def run_history(cls, removal, history, on_call=None, probing=True):
    """(G, M, outcomes): the graph and model after the history; outcomes[i] = (outcome, expected)"""
    global CURRENT
    CURRENT = (cls, removal, history)
    G = new_graph(cls, removal)
    M = Model(cls == 'DynDiGraph', removal)
    outs = []
    for i, c in enumerate(history):
        if on_call:
            on_call(G, M, c)
        outs.append(apply_call(G, M, c))
        if probing and i + 1 < len(history):
            probe(G)
    return G, M, outs


def state_key(G):
    rep = G._succ if G.is_directed() else G._adj
    cells = tuple(sorted((repr(a), repr(b), repr(dd.get('t'))) for a, nb in rep.items() for b, dd in nb.items()))
    tte = tuple(sorted((q, tuple(sorted(map(repr, v))) if isinstance(v, dict) else v) for q, v in G.time_to_edge.items()))
    return (G.__class__.__name__, bool(G.edge_removal), tuple(sorted(map(repr, G._node))), cells, tte,
            tuple(sorted(G.snapshots.items())))


def jsonable(h):
    return [list(c) if not isinstance(c, list) else c for c in _j(h)]


def _j(x):
    if isinstance(x, (list, tuple)):
        return [_j(y) for y in x]
    return x


class Collector(object):
    """gathers coverage counters and violations for one part"""

    def __init__(self, rule, max_violations=8):
        self.rule = rule
        self.evaluations = 0
        self.distinct = set()
        self.samples = []
        self.violations = []
        self.max_violations = max_violations
        self.kinds = set()

    def seen(self, key, nontrivial=True, sample=None):
        self.evaluations += 1
        if nontrivial and key not in self.distinct:
            self.distinct.add(key)
            if sample is not None and len(self.samples) < 3:
                self.samples.append(sample)
            return True
        return False

    def violation(self, check, cls, removal, history, detail, **extra):
        sig = (check, cls) + tuple(sorted((k, bool(v_)) for k, v_ in extra.items() if k.startswith('d') and k[1:].isdigit()))
        if len(self.violations) >= self.max_violations and sig in self.kinds:
            return
        self.kinds.add(sig)
        v = {'check': check, 'class': cls, 'edge_removal': removal, 'history': _j(history), 'detail': detail}
        v.update(extra)
        self.violations.append(v)

    def full(self):
        return len(self.violations) >= 4 * self.max_violations

    def result(self, exhaustive=False, bound=''):
        return {'coverage': {'evaluations': self.evaluations, 'distinct_nontrivial': len(self.distinct),
                             'rule': self.rule, 'samples': self.samples or [{}], 'exhaustive': exhaustive,
                             'bound': bound, 'label': 'bounded stand-in (never counted as proved)'},
                'violations': self.violations}
