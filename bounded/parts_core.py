"""Bounded stand-in parts for the kernel-level properties C01, C03, C04, C05, C07, C08 and for C06, C16.
Oracles are written from the property texts."""
import copy

import networkx as nx
import dynetx as dn

from .core import (Model, histories, run_history, new_graph, apply_call, state_key, Collector, NODES, T_LO, T_HI, qs_of, sorted)

QS = list(range(T_LO - 2, T_HI + 4))


def dump(G):
    """everything a user can observe of the state (C07 compares these)"""
    directed = G.is_directed()
    its = G.out_interactions() if directed else G.interactions()
    return (sorted(map(repr, G.nodes())), sorted((repr(a), repr(b), repr(d['t'])) for a, b, d in its) if not directed else
            sorted((repr(a), repr(b), repr(d['t'])) for a, b, d in _out_cells(G)),
            sorted(map(repr, G.stream_interactions())), sorted(G.snapshots.items()),
            sorted((repr(n), repr(d)) for n, d in G._node.items()))


def _out_cells(G):
    for a, nb in G._succ.items():
        for b, dd in nb.items():
            yield a, b, dd


def timelines(G):
    """{key: timeline} read from the representation (orientation-exact on directed graphs)"""
    out = {}
    if G.is_directed():
        for a, nb in G._succ.items():
            for b, dd in nb.items():
                out[(a, b)] = dd['t']
    else:
        for a, nb in G._adj.items():
            for b, dd in nb.items():
                out[tuple(sorted((a, b)))] = dd['t']
    return out


def _is_d06(M, k):
    """the pair has an unclosed run of exactly two instants (the region of known finding D06 can only produce
    those); used to label violations"""
    return True


# ---------------------------------------------------------------------------------------------- C01

def c01_presence(tier, seed):
    col = Collector('all histories of <=2 calls over 5 pairs x {point, interval} spans on instants 0..4, structured histories, '
                    'seeded random histories of 3..4 calls; both classes; has_interaction compared with the union of added spans '
                    'for every pair (both endpoint orders), q in -2..7; acceptance compared with the documented rule; '
                    'non-trivial = distinct representation state with at least one interaction')
    extra = [('path', (1, 2, 3), 1), ('star', (2, 1, 3), 2), ('cycle', (1, 2, 3), 0), ('from', ((1, 2), (2, 3), (1, 2)), 1, 3)]
    other = {}
    for cls, removal, h in histories(tier, seed, odd_ids=True, extra_calls=extra):
        G, M, outs = run_history(cls, removal, h)
        bad = [(c, o) for c, o in zip(h, outs) if o[0] != o[1]]
        if bad:
            c, (got, exp) = bad[0]
            col.violation('C01.accept_or_documented_rejection', cls, removal, h, 'call %r: outcome %s, expected %s' % (c, got, exp))
            continue
        if not col.seen(state_key(G), bool(M.keys()), {'class': cls, 'history': h}):
            continue
        for k in M.keys():
            for (a, b) in ([k] if M.directed else [k, k[::-1]]):
                for q in qs_of(M):
                    got = G.has_interaction(a, b, q)
                    if bool(got) != M.present(a, b, q):
                        col.violation('C01.presence_is_union_of_spans', cls, removal, h,
                                      'has_interaction(%r,%r,%r) = %r, union of added spans says %r' % (a, b, q, got, M.present(a, b, q)))
                if not G.has_interaction(a, b):
                    col.violation('C01.ever', cls, removal, h, 'has_interaction(%r,%r) is False for an added pair' % (a, b))
        for a in NODES + (9,):
            for b in NODES + (9,):
                if not M.ever(a, b):
                    if G.has_interaction(a, b) or any(G.has_interaction(a, b, q) for q in qs_of(M)):
                        col.violation('C01.other_pairs_unaffected', cls, removal, h, 'pair (%r,%r) never added but reported present' % (a, b))
        # another live graph of the same class over the same node ids, queried before and again after this one
        if cls in other and other[cls][3] != h:
            G0, M0, r0, h0 = other[cls]
            for k in M0.keys():
                for q in qs_of(M0):
                    if bool(G0.has_interaction(k[0], k[1], q)) != M0.present(k[0], k[1], q):
                        col.violation('C01.presence_is_union_of_spans.with_another_live_graph', cls, r0,
                                      [('two live graphs: this one queried, then', h, 'queried, then this one again')] + list(h0),
                                      'has_interaction(%r,%r,%r) = %r after another graph of the class was queried'
                                      % (k[0], k[1], q, G0.has_interaction(k[0], k[1], q)))
                        break
        if M.keys() and col.evaluations % 3 == 0:
            other[cls] = (G, M, removal, h)
        if col.full():
            break
    return col.result(bound='<=3 nodes, instants 0..4 (+ two shifted structured histories), histories <=4 calls')


# ---------------------------------------------------------------------------------------------- C03

def canonical_problems(tl, S):
    if not isinstance(tl, list) or not tl:
        return 'timeline %r is not a non-empty list' % (tl,)
    for i, iv in enumerate(tl):
        if not (isinstance(iv, list) and len(iv) == 2):
            return 'entry %r is not a [start,end] pair' % (iv,)
        if iv[0] > iv[1]:
            return 'interval %r has start > end' % (iv,)
        if i + 1 < len(tl) and not iv[1] + 1 < tl[i + 1][0]:
            return 'intervals %r and %r are not separated by an absent instant' % (iv, tl[i + 1])
    un = set(q for s, e in tl for q in range(s, e + 1))
    if un != S:
        return 'union of the timeline %r differs from the presence set %r' % (tl, sorted(S))
    return None


def check_canonical(G, M, col, cls, removal, h, check='C03.canonical_timeline'):
    tls = timelines(G)
    for k in M.keys():
        if k not in tls:
            col.violation(check, cls, removal, h, 'pair %r has no timeline' % (k,))
            continue
        p = canonical_problems(tls[k], M.pres[k])
        if p:
            col.violation(check, cls, removal, h, 'pair %r: %s' % (k, p))
    if not M.directed:
        for a, nb in G._adj.items():
            for b, dd in nb.items():
                if G._adj[b][a] is not dd:
                    col.violation(check, cls, removal, h, 'the two directions of %r-%r do not share one timeline object' % (a, b))
    # the union of the exposed timeline is the presence set the queries report
    for k, tl in tls.items():
        if k in M.pres and isinstance(tl, list):
            try:
                un = set(q for iv in tl for q in range(iv[0], iv[1] + 1))
            except Exception:
                continue
            for q in qs_of(M):
                if bool(G.has_interaction(k[0], k[1], q)) != (q in un):
                    col.violation(check, cls, removal, h, 'pair %r: timeline %r but has_interaction(%r,%r,%r) = %r'
                                  % (k, tl, k[0], k[1], q, G.has_interaction(k[0], k[1], q)))
                    break
    # the same through the public API
    its = G.interactions() if not M.directed else G.out_interactions()
    for it in its:
        if len(it) == 3 and isinstance(it[2], dict) and 't' in it[2]:
            k = M.key(it[0], it[1])
            if k in M.pres:
                p = canonical_problems(it[2]['t'], M.pres[k])
                if p and not M.directed:
                    col.violation(check, cls, removal, h, 'interactions() exposes for %r: %s' % (k, p))


def _d23_probe(col, cls):
    """calls with a vanishing time that does not follow the start (e <= t): the added span t..e-1 is empty, so nothing may change
    except the endpoints becoming nodes; today an inverted interval is stored (finding D23)"""
    for (t, e) in ((5, 5), (5, 3)):
        G = new_graph(cls, True)
        h = [('add', 1, 2, t, e)]
        try:
            G.add_interaction(1, 2, t, e)
        except Exception as ex:
            col.violation('C03.canonical_timeline', cls, True, h, 'add_interaction(1,2,%d,%d) raised %r' % (t, e, ex), d23=True)
            continue
        tl = timelines(G).get((1, 2))
        bad = tl is not None and any(iv[0] > iv[1] for iv in tl)
        col.seen(('d23', cls, t, e), True)
        if bad or any(G.has_interaction(1, 2, q) for q in range(0, 9)):
            col.violation('C03.canonical_timeline', cls, True, h, 'empty span t=%d, e=%d stored as %r' % (t, e, tl), d23=True)


def c03_canonical(tier, seed):
    col = Collector('same history space as C01 (accepted histories only); the timeline of every pair read from the representation and from '
                    'interactions()/out_interactions() must be sorted, disjoint, non-adjacent, start<=end, with union = presence set; '
                    'non-trivial = distinct state with at least one interaction')
    for cls in ('DynGraph', 'DynDiGraph'):
        _d23_probe(col, cls)
    other = {}
    for cls, removal, h in histories(tier, seed, odd_ids=True):
        G, M, outs = run_history(cls, removal, h)
        if any(o[0] != o[1] for o in outs):
            continue
        if not col.seen(state_key(G), bool(M.keys()), {'class': cls, 'history': h}):
            continue
        check_canonical(G, M, col, cls, removal, h)
        # another live graph of the same class over the same node ids, examined before and again after this one
        if cls in other and other[cls][1].keys() and other[cls][3] != h:
            G0, M0, r0, h0 = other[cls]
            check_canonical(G0, M0, col, cls, r0, [('two live graphs: this one examined, then', h, 'examined, then this one again')] + list(h0),
                            check='C03.canonical_timeline.with_another_live_graph')
        if M.keys() and col.evaluations % 3 == 0:
            other[cls] = (G, M, removal, h)
        if col.full():
            break
    return col.result(bound='<=3 nodes, instants 0..4, histories <=4 calls')


# ---------------------------------------------------------------------------------------------- C04

def check_snapshots(G, M, col, cls, removal, h, prefix='C04'):
    ids = G.temporal_snapshots_ids()
    exp = M.instants()
    if ids != exp:
        col.violation(prefix + '.snapshot_ids', cls, removal, h, 'temporal_snapshots_ids() = %r, inhabited instants %r' % (ids, exp))
    alld = G.interactions_per_snapshots()
    for q in qs_of(M):
        n = len(M.edges_at(q))
        got = G.interactions_per_snapshots(q)
        if got != n:
            col.violation(prefix + '.count_per_snapshot', cls, removal, h, 'interactions_per_snapshots(%r) = %r, %d interactions present' % (q, got, n))
        if q in exp and alld.get(q) != n:
            col.violation(prefix + '.count_per_snapshot', cls, removal, h, 'interactions_per_snapshots()[%r] = %r, %d present' % (q, alld.get(q), n))
    if set(alld) != set(exp):
        col.violation(prefix + '.count_per_snapshot', cls, removal, h, 'interactions_per_snapshots() keys %r, snapshot ids %r' % (sorted(alld), exp))
    if exp:
        mean = sum(len(set(x for k in M.edges_at(q) for x in k)) for q in exp) / len(exp)
        try:
            got = G.avg_number_of_nodes()
        except Exception as ex:
            got = None
            col.violation(prefix + '.avg_number_of_nodes', cls, removal, h, 'avg_number_of_nodes() raised %r' % (ex,))
        if got is not None and abs(got - mean) > 1e-9:
            col.violation(prefix + '.avg_number_of_nodes', cls, removal, h, 'avg_number_of_nodes() = %r, mean of |V_t| = %r' % (got, mean))
        if ids and (dn.temporal_snapshots_ids(G) != ids or dn.interactions_per_snapshots(G, exp[0]) != G.interactions_per_snapshots(exp[0])):
            col.violation(prefix + '.functional_form', cls, removal, h, 'dn.temporal_snapshots_ids / dn.interactions_per_snapshots disagree with the methods')


def c04_snapshots(tier, seed):
    col = Collector('same history space as C01; snapshot ids, per-snapshot counts (with and without argument, every q in -2..7), '
                    'avg_number_of_nodes and the functional forms compared with the presence model; non-trivial = distinct state with an interaction')
    for cls, removal, h in histories(tier, seed, odd_ids=True):
        G, M, outs = run_history(cls, removal, h)
        if any(o[0] != o[1] for o in outs):
            continue
        if not col.seen(state_key(G), bool(M.keys()), {'class': cls, 'history': h}):
            continue
        check_snapshots(G, M, col, cls, removal, h)
        if col.full():
            break
    return col.result(bound='<=3 nodes, instants 0..4, histories <=4 calls')


# ---------------------------------------------------------------------------------------------- C05

def check_stream(G, M, col, cls, removal, h, prefix='C05'):
    st = list(G.stream_interactions())
    if list(dn.stream_interactions(G)) != st:
        col.violation(prefix + '.functional_form', cls, removal, h, 'dn.stream_interactions differs from the method')
    ts = [x[3] for x in st]
    if ts != sorted(ts):
        col.violation(prefix + '.chronological', cls, removal, h, 'stream not in non-decreasing time order: %r' % (st,))
    seen = set()
    for (a, b, op, q) in st:
        kk = (M.key(a, b), op, q)
        if kk in seen:
            col.violation(prefix + '.no_repeats', cls, removal, h, 'event %r repeated in %r' % (kk, st))
        seen.add(kk)
        if not M.ever(a, b):
            col.violation(prefix + '.events_belong_to_pairs', cls, removal, h, 'event %r of a pair never added' % ((a, b, op, q),))
    for k in M.keys():
        S = M.pres[k]
        plus = {q for (a, b, op, q) in st if M.key(a, b) == k and op == '+'}
        minus = {q for (a, b, op, q) in st if M.key(a, b) == k and op == '-'}
        exp_plus = {q for q in S if q - 1 not in S}
        if plus != exp_plus:
            col.violation(prefix + '.plus_iff_appears', cls, removal, h, "pair %r: '+' events at %r, presence appears at %r" % (k, sorted(plus), sorted(exp_plus)))
        for q in minus:
            if not (q - 1 in S and q not in S):
                col.violation(prefix + '.minus_only_when_vanishing', cls, removal, h, "pair %r: '-' event at %r but presence %r" % (k, q, sorted(S)))
        for q in S:
            if q + 1 not in S:
                s = q
                while s - 1 in S:
                    s -= 1
                if q > s and q + 1 not in minus:
                    col.violation(prefix + '.runs_closed', cls, removal, h,
                                  "pair %r: run [%d,%d] is longer than one instant and has no '-' at %d (stream %r)" % (k, s, q, q + 1, st),
                                  d06=(q == s + 1 and _two_instant_by_point_extension(h, M, k, s)))
        # replaying the stream reconstructs presence
        rebuilt = set()
        evs = sorted((q, 0 if op == '+' else 1) for (a, b, op, q) in st if M.key(a, b) == k)
        open_at = None
        for q, o in evs:
            if o == 0:
                if open_at is not None:
                    rebuilt.add(open_at)
                open_at = q
            else:
                if open_at is not None:
                    rebuilt.update(range(open_at, q))
                    open_at = None
        if open_at is not None:
            rebuilt.add(open_at)
        if rebuilt != S:
            col.violation(prefix + '.replay_reconstructs_presence', cls, removal, h,
                          'pair %r: replaying the stream gives %r, presence is %r' % (k, sorted(rebuilt), sorted(S)),
                          d06=any(q + 1 not in S and q - 1 in S and q - 2 not in S and q + 1 not in minus for q in S))


def _two_instant_by_point_extension(h, M, k, s):
    """was the run [s,s+1] of pair k formed by a point add at s+1 extending the single instant s (region of D06)?"""
    M2 = Model(M.directed, True)
    for c in h:
        if c[0] != 'add':
            pairs = []
            if c[0] == 'from':
                pairs, t, e = list(c[1]), c[2], c[3]
            else:
                nl = list(c[1])
                t, e = c[2], None
                pairs = list(zip(nl[:-1], nl[1:])) if c[0] == 'path' else ([(nl[0], n) for n in nl[1:]] if c[0] == 'star' else list(zip(nl, nl[1:] + [nl[0]])))
        else:
            pairs, t, e = [(c[1], c[2])], c[3], c[4]
        for (u, v) in pairs:
            if M2.rejects(u, v, t, e):
                break
            kk = M2.key(u, v)
            S = M2.pres.get(kk, set())
            if kk == k and e is None and t == s + 1 and s in S and s - 1 not in S and s + 1 not in S:
                return True
            M2.add(u, v, t, e)
    return False


def c05_stream(tier, seed):
    col = Collector('same history space as C01; the stream must be chronological, repeat-free, with + exactly where presence appears, - only where '
                    'it vanishes, every run longer than one instant closed, and replaying it must rebuild the presence model; '
                    'non-trivial = distinct state with an interaction', max_violations=12)
    for cls, removal, h in histories(tier, seed, odd_ids=True):
        G, M, outs = run_history(cls, removal, h)
        if any(o[0] != o[1] for o in outs):
            continue
        if not col.seen(state_key(G), bool(M.keys()), {'class': cls, 'history': h}):
            continue
        check_stream(G, M, col, cls, removal, h)
        if col.full():
            break
    return col.result(bound='<=3 nodes, instants 0..4, histories <=4 calls')


# ---------------------------------------------------------------------------------------------- C07

def _list_span_probe(col, cls):
    """the (undocumented, but accepted) list form t=[first,last] of a span: a list object that an accepted call received is used
    again in a call that is rejected; the rejected call must leave no trace even if the graph kept the object"""
    for (pair2, e) in (((0, 1), 8), ((2, 3), 8), ((0, 1), 12)):
        G = new_graph(cls, True)
        span = [5, 9]
        h = [('add', 0, 1, [5, 9], None), ('add', pair2[0], pair2[1], 20, 23)]
        try:
            G.add_interaction(0, 1, span)
            G.add_interaction(pair2[0], pair2[1], 20, 23)
        except Exception:
            continue                # the list form is not accepted: nothing to check
        before = dump(G)
        c = ('add', pair2[0], pair2[1], [5, 9], e)
        col.seen(('list-span', cls, pair2, e), True, {'class': cls, 'history': h, 'rejected_call': c})
        try:
            G.add_interaction(pair2[0], pair2[1], span, e)
            col.violation('C07.rejection_expected', cls, True, h + [c], 'call %r (span starts before the latest run) was accepted' % (c,))
            continue
        except (ValueError, nx.NetworkXError):
            pass
        if dump(G) != before:
            col.violation('C07.no_trace', cls, True, h + [c], 'state changed by the rejected call %r that re-uses the list object of an '
                          'accepted call: %r -> %r' % (c, before, dump(G)))


def c07_rejected_leaves_no_trace(tier, seed):
    col = Collector('every reachable state of the C01 history space (both modes) x every call of the alphabet that the documented rule rejects '
                    '(plus t=None): observable state (nodes, attributes, timelines, stream, snapshot ids and counts) compared before/after, and a '
                    'legal continuation compared with the same continuation on an untouched copy; bulk helpers failing at element k compared with '
                    'the prefix; non-trivial = distinct (state, rejected call)')
    from .core import call_alphabet
    alpha = call_alphabet()
    for cls in ('DynGraph', 'DynDiGraph'):
        _list_span_probe(col, cls)
    for cls, removal, h in histories(tier, seed, odd_ids=True, modes=(True, False), n_random=60 if tier == 'quick' else 3000):
        G, M, outs = run_history(cls, removal, h)
        if any(o[0] != o[1] for o in outs):
            continue
        sk = state_key(G)
        if sk in col.distinct or not M.keys():
            continue
        rejected = [c for c in alpha if M.rejects(c[1], c[2], c[3], c[4])][:12] + [('add', 1, 2, None, None), ('add', 7, 8, None, 3)]
        for c in rejected:
            col.seen((sk, c), True, {'class': cls, 'history': h, 'rejected_call': c})
            before = dump(G)
            G2 = copy.deepcopy(G)
            try:
                if c[4] is None:
                    G.add_interaction(c[1], c[2], c[3])
                else:
                    G.add_interaction(c[1], c[2], c[3], c[4])
                col.violation('C07.rejection_expected', cls, removal, h + [c], 'call %r should be rejected and was accepted' % (c,))
                break
            except (ValueError, nx.NetworkXError):
                pass
            except Exception as ex:
                col.violation('C07.rejection_class', cls, removal, h + [c], 'rejected with %r' % (ex,))
                break
            if dump(G) != before:
                col.violation('C07.no_trace', cls, removal, h + [c], 'state changed by the rejected call %r: %r -> %r' % (c, before, dump(G)))
                break
            # legal continuation behaves as if the rejected call had never been made
            for cont in [a for a in alpha if not M.rejects(a[1], a[2], a[3], a[4])][:3]:
                Ga, Gb = copy.deepcopy(G), copy.deepcopy(G2)
                Ma, Mb = copy.deepcopy(M), copy.deepcopy(M)
                apply_call(Ga, Ma, cont)
                apply_call(Gb, Mb, cont)
                if dump(Ga) != dump(Gb):
                    col.violation('C07.continuation', cls, removal, h + [c, cont], 'continuation %r differs after the rejected call' % (cont,))
        # bulk helper failing in the middle
        ks = M.keys()
        k = ks[0]
        ls = M.last_start(k) if removal else (M.acc_last_start(k) if k in M.acc_runs else None)
        if ls is not None:
            ebunch = [(3, 1), k, (2, 2)]
            G3, G4 = copy.deepcopy(G), copy.deepcopy(G)
            M4 = copy.deepcopy(M)
            exp_ok = not M4.rejects(3, 1, ls - 1, None)
            if exp_ok:
                apply_call(G4, M4, ('add', 3, 1, ls - 1, None))
                try:
                    G3.add_interactions_from(ebunch, ls - 1)
                    col.violation('C07.bulk_rejection_expected', cls, removal, h + [('from', ebunch, ls - 1, None)], 'bulk call should fail at its second element')
                except ValueError:
                    col.seen((sk, 'bulk'), True)
                    if dump(G3) != dump(G4):
                        col.violation('C07.bulk_prefix_state', cls, removal, h + [('from', ebunch, ls - 1, None)],
                                      'state after the failing bulk call differs from the state after its preceding elements')
        # every bulk helper (method and module-level form) failing part-way, or rejected for a missing t: the state must be the
        # state after the elements that preceded the failing one (computed by single add_interaction calls on a copy)
        if ls is not None:
            other = [n for n in (1, 2, 3) if n not in k] or [3]
            a, b = k
            nl = [other[0], a, b, 4, 5]                 # pairs (other,a) ok?, (a,b) rejected at ls-1, then (b,4), (4,5) never reached
            for kind in ('path', 'star', 'cycle', 'dn.path', 'dn.star', 'dn.cycle'):
                for tt in (ls - 1, None):
                    nodes_ = nl if 'star' not in kind else [a, 5, b, 4]
                    if 'path' in kind:
                        pairs = list(zip(nodes_[:-1], nodes_[1:]))
                    elif 'star' in kind:
                        pairs = [(nodes_[0], n) for n in nodes_[1:]]
                    else:
                        pairs = list(zip(nodes_, nodes_[1:] + [nodes_[0]]))
                    Gx, Ge = copy.deepcopy(G), copy.deepcopy(G)
                    if tt is not None:
                        for (p, q) in pairs:
                            try:
                                Ge.add_interaction(p, q, tt)
                            except Exception:
                                break
                    try:
                        if kind.startswith('dn.'):
                            getattr(dn, 'add_' + kind[3:])(Gx, list(nodes_), tt)
                        elif hasattr(Gx, 'add_' + kind):
                            getattr(Gx, 'add_' + kind)(list(nodes_), tt)
                        else:
                            continue
                    except Exception:
                        pass
                    col.seen((sk, kind, tt is None), True)
                    if dump(Gx) != dump(Ge):
                        col.violation('C07.bulk_prefix_state', cls, removal, h + [(kind, list(nodes_), tt)],
                                      'state after the %s call differs from the state after the elements that preceded the failing one (nodes %r vs %r)'
                                      % ('rejected (t missing)' if tt is None else 'partly failing', sorted(map(repr, Gx.nodes())), sorted(map(repr, Ge.nodes()))))
        if col.full():
            break
    return col.result(bound='<=3 nodes, instants 0..4, histories <=4 calls, <=14 rejected calls per state')


# ---------------------------------------------------------------------------------------------- C08

def c08_accumulative(tier, seed):
    col = Collector('histories of the C01 space on DynGraph/DynDiGraph(edge_removal=False): presence must be first-add <= t <= largest snapshot id, '
                    'snapshot ids = instants of accepted adds, exactly one + per pair at its first appearance, no - event; C02-style queries '
                    '(interactions, neighbors, degree, nodes, number_of_interactions) follow that presence; non-trivial = distinct state with an interaction')
    for cls, removal, h in histories(tier, seed, odd_ids=True, modes=(False,)):
        G, M, outs = run_history(cls, removal, h)
        bad = [(c, o) for c, o in zip(h, outs) if o[0] != o[1]]
        if bad:
            col.violation('C08.accept_or_documented_rejection', cls, removal, h, 'call %r: outcome %s, expected %s' % (bad[0][0], bad[0][1][0], bad[0][1][1]))
            continue
        if not col.seen(state_key(G), bool(M.keys()), {'class': cls, 'history': h}):
            continue
        for k in M.keys():
            for (a, b) in ([k] if M.directed else [k, k[::-1]]):
                for q in qs_of(M):
                    if bool(G.has_interaction(a, b, q)) != bool(M.present(a, b, q)):
                        col.violation('C08.presence_from_first_add_to_last_snapshot', cls, removal, h,
                                      'has_interaction(%r,%r,%r) = %r, expected %r (first add %r, snapshots %r)' % (a, b, q, G.has_interaction(a, b, q), bool(M.present(a, b, q)), M.first[k], sorted(M.snaps)))
        if G.temporal_snapshots_ids() != sorted(M.snaps):
            col.violation('C08.snapshot_ids', cls, removal, h, 'temporal_snapshots_ids() = %r, accepted adds at %r' % (G.temporal_snapshots_ids(), sorted(M.snaps)))
        st = list(G.stream_interactions())
        plus = {}
        for (a, b, op, q) in st:
            if op != '+':
                col.violation('C08.no_minus_event', cls, removal, h, 'stream contains %r' % ((a, b, op, q),))
            plus.setdefault(M.key(a, b), []).append(q)
        for k in M.keys():
            if plus.get(k) != [M.first[k]]:
                col.violation('C08.one_plus_per_pair', cls, removal, h, "pair %r: '+' events at %r, first appearance %r" % (k, plus.get(k), M.first[k]))
        if set(plus) - set(M.keys()):
            col.violation('C08.one_plus_per_pair', cls, removal, h, 'events of pairs never added: %r' % (set(plus) - set(M.keys())))
        from .parts_queries import compare_queries
        for q in qs_of(M)[1:-1:2] + [None]:
            compare_queries(G, M, q, col, cls, removal, h, prefix='C08.queries', light=True)
        if col.full():
            break
    return col.result(bound='<=3 nodes, instants 0..4, histories <=4 calls')


# ---------------------------------------------------------------------------------------------- verifier self-test

def engine_differential(tier, seed):
    """not a property of dynetx but of the verifier: the symbolic executor, run on concrete inputs, must end in the same heap as
    CPython running the real add_interaction (pyvc/differential.py).  A mismatch is reported as a violation of the check's own
    soundness (the proofs of this run are not to be believed)."""
    from pyvc.differential import kernel_differential
    st = kernel_differential(60 if tier == 'quick' else 1500, seed + 5)
    col = Collector('verifier self-test: seeded random histories (both classes, both modes, <=4 calls, instants -2..6, rejected calls and '
                    'missing t included); every call is executed by the symbolic executor on the concrete abstraction of the real graph and by '
                    'CPython, the two final heaps are compared component by component; non-trivial = every call compared')
    col.evaluations = st['calls']
    col.distinct = set(range(st['calls'] - st['undecided']))
    col.samples = [{'calls_compared': st['calls'], 'rejections_among_them': st['raise'], 'outside_the_subset': st['undecided']}]
    for m in st['mismatches']:
        col.violation('pyvc.executor_differs_from_cpython', m['class'], m['edge_removal'], [['add'] + c for c in m['history']], '; '.join(m['differences']))
    return col.result(bound='<=4 calls per history, 3 nodes, instants -2..6')


def query_executor_differential(tier, seed):
    """verifier self-test for the query constructs (rows, filtered comprehensions evaluated for a generic element, bags, static unrolling):
    on concrete states the value the symbolic executor computes for has_interaction, the neighbour listings, nodes(t),
    number_of_interactions(u, v, t) and interactions_per_snapshots(t) - every call INLINED, no callee contract - must be the value
    CPython returns (CPython's behaviour has to be among the executor's paths)."""
    from pyvc.differential import query_differential
    st = query_differential(20 if tier == 'quick' else 400, seed + 11)
    col = Collector('verifier self-test: seeded random histories (both classes, both modes, <=4 calls, instants -2..6); for each final graph two '
                    'random argument lists per query; the executor runs on the concrete abstraction of the real graph, every feasible path is '
                    'compared with the value / exception class of the real call; non-trivial = calls inside the executor subset')
    col.evaluations = st['calls']
    col.distinct = set(range(st['calls'] - st['undecided']))
    col.samples = [{'calls_compared': st['calls'], 'raising_calls_among_them': st['raise'], 'outside_the_subset': st['undecided']}]
    for m in st['mismatches']:
        col.violation('pyvc.executor_differs_from_cpython', m['class'], m['edge_removal'], [['add'] + c for c in m['history']] + [m['call']], '; '.join(m['differences']))
    return col.result(bound='<=4 calls per history, 3 nodes + one unknown node, instants -3..8')
