# -*- coding: utf-8 -*-
"""Bounded stand-in parts for the reader / writer properties C09, C10, C11, C18.

Every oracle below is written from the property text (properties.jsonl), not from the code: the presence model of
core.Model says which rows / links / events a conforming writer must emit and which graph a conforming reader must
build; the real functions are run next to it over an enumerated small scope.

Every check is a function `_xxx(col, **args)` whose arguments are JSON-able; a violation carries
`repro = {'fn': '_xxx', 'args': {...}}`, so that `replay(v)` re-runs exactly that check on the real code.
"""
import bz2
import gzip
import io
import itertools
import json
import os
import random
import shutil
import tempfile
from collections import Counter

import dynetx as dn
from dynetx.utils.transform import compact_timeslot

from .core import Model, histories, run_history, state_key, Collector, _j
from .core import sorted          # tolerant of mixed-type node ids (ordered by repr)

STR_NODES = {1: 'a', 2: u'\xe9', 3: 'B', 7: 'iso7', 8: u'\xfc8', 9: 'z'}     # non-ascii ids make the encoding observable
TARGETS = ('plain', 'gz', 'bz2', 'fileobj', 'bytesio')
DELIMS = (' ', ',', '\t')
ENCODINGS = ('utf-8', 'latin-1')
CONFIGS = list(itertools.product(TARGETS, DELIMS, ENCODINGS))
def _label_lookup(x):
    # a converter that fails with KeyError (a label -> id table), as users pass for nodetype
    return {'1': 1, '2': 2, '3': 3}[x]


def _positive_int(x):
    v = int(x)
    if v < 0:
        raise ArithmeticError('negative')
    return v


NODETYPES = {'int': int, 'str': str, 'lookup': _label_lookup, 'positive': _positive_int}


# ------------------------------------------------------------------------------------------- shared helpers

class KindCollector(Collector):
    """Collector that never saturates: per distinct kind of violation (check, kind, class, d06) it keeps the
    smallest reproduction seen and counts the occurrences"""

    def __init__(self, rule, by_class=True):
        Collector.__init__(self, rule, max_violations=10 ** 9)
        self.by_class = by_class
        self.best = {}
        self.count = Counter()

    def violation(self, check, cls, removal, history, detail, **extra):
        sig = (check, extra.get('kind'), cls if self.by_class else None, extra.get('d06'))
        self.count[sig] += 1
        cost = (len(history), len(repr(history)) + len(repr(extra.get('lines', ''))) + len(extra.get('file_text', '')) + len(repr(extra.get('values', ''))),
                _magnitude(history))
        if sig in self.best and self.best[sig][0] <= cost:
            return
        v = {'check': check, 'class': cls, 'edge_removal': removal, 'history': _j(history), 'detail': detail}
        v.update(extra)
        self.best[sig] = (cost, v)
        self.violations = [self.best[s][1] for s in sorted(self.best, key=repr)]

    def full(self):
        return False

    def result(self, exhaustive=False, bound=''):
        for s, (_, v) in self.best.items():
            v['occurrences'] = self.count[s]
        return Collector.result(self, exhaustive, bound)


def _magnitude(x):
    if isinstance(x, (list, tuple)):
        return sum(_magnitude(y) for y in x)
    return abs(x) if isinstance(x, int) else 0


def _cls(directed):
    return 'DynDiGraph' if directed else 'DynGraph'


def map_history(h, m):
    """the same history over other node ids"""
    if m is None:
        return h
    out = []
    for c in h:
        if c[0] == 'add':
            out.append(('add', m[c[1]], m[c[2]], c[3], c[4]))
        elif c[0] == 'from':
            out.append(('from', tuple((m[a], m[b]) for a, b in c[1]), c[2], c[3]))
        else:
            out.append((c[0], tuple(m[n] for n in c[1]), c[2]))
    return out


EXTRA_HISTORIES = [          # directed shapes the generic alphabet reaches only with >=3 calls: an edge into a node that already has out-edges
    [('add', 1, 2, 0, None), ('add', 3, 1, 0, None)],
    [('add', 1, 1, 0, None), ('add', 2, 1, 0, None)],
    [('add', 1, 2, 0, None), ('add', 2, 3, 0, None), ('add', 3, 1, 0, None)],
    [('add', 1, 2, 0, 2), ('add', 3, 1, 1, None), ('add', 3, 2, 4, 6), ('add', 2, 1, 5, None)],
]


def _graph_histories(tier, seed):
    """the history space shared by C09, C10, C11: EXTRA_HISTORIES, then core.histories"""
    for cls in ('DynGraph', 'DynDiGraph'):
        for h in EXTRA_HISTORIES:
            yield cls, True, h
    for x in histories(tier, seed, n_random=700 if tier == 'quick' else 6000):
        yield x


def _build(cls, history):
    """(G, M) or None when the history is not accepted as the documented rule predicts (C01's business)"""
    G, M, outs = run_history(cls, True, [tuple(c) for c in history])
    if any(o[0] != o[1] for o in outs):
        return None
    return G, M


def _window(M, extra=()):
    ins = list(M.instants()) + list(extra)
    if not ins:
        return list(range(-1, 3))
    return list(range(min(ins) - 2, max(ins) + 4))


def _universe(M, H=None, extra=()):
    nodes = set(M.nodes) | set(extra)
    if H is not None:
        try:
            nodes |= set(H.nodes())
        except Exception:
            pass
    return sorted(nodes, key=repr)


def own_index_problem(H):
    """the snapshot index of a graph that was read back / rebuilt must describe that graph's OWN timelines (ids = inhabited instants,
    count = number of interactions present); None when it does, else a description"""
    directed = H.is_directed()
    ids2 = list(H.temporal_snapshots_ids())
    cnt2 = dict(H.interactions_per_snapshots())
    own = {}
    for it in (H.out_interactions() if directed else H.interactions()):
        for (s0, e0) in it[2]['t']:
            for q in range(s0, e0 + 1):
                own[q] = own.get(q, 0) + 1
    if ids2 != sorted(own) or any(cnt2.get(q) != n_ for q, n_ in own.items()):
        return 'snapshot ids %r / counts %r, its own timelines give %r' % (ids2, cnt2, sorted(own.items()))
    return None


def presence_diff(H, M, nodes, qs, limit=4):
    """[(u, v, q, got, expected)] where has_interaction disagrees with the model (both endpoint orders are queried)"""
    out = []
    for a in nodes:
        for b in nodes:
            for q in qs:
                try:
                    got = bool(H.has_interaction(a, b, q))
                except Exception as ex:
                    got = 'raises ' + ex.__class__.__name__
                exp = bool(M.present(a, b, q))
                if got != exp:
                    out.append((a, b, q, got, exp))
                    if len(out) >= limit:
                        return out
    return out


def _norm_events(M, stream):
    return sorted(((M.key(a, b), op, q) for (a, b, op, q) in stream), key=repr)


def expected_rows(M):
    """Counter of the (u, v, t) triples (as text) a conforming writer emits; undirected pairs are normalised"""
    c = Counter()
    for q in M.instants():
        for k in M.edges_at(q):
            c[_norm_row(M.directed, str(k[0]), str(k[1]), str(q))] += 1
    return c


def _norm_row(directed, a, b, t):
    return (a, b, t) if directed else tuple(sorted((a, b))) + (t,)


def _rows_kind(directed, got, exp):
    if got == exp:
        return None
    if directed and Counter({(b, a, t): n for (a, b, t), n in got.items()}) == exp:
        return 'orientation_reversed'
    missing, extra = exp - got, got - exp
    if directed and missing and not extra:
        pairs = set(r[:2] for r in exp)
        if all((r[1], r[0]) in pairs and r[0] != r[1] for r in missing):
            return 'rows_missing_for_one_direction_of_a_reciprocal_pair'
    if missing and extra:
        return 'rows_missing_and_extra'
    return 'rows_missing' if missing else 'rows_extra'


class _Tmp(object):
    """temporary directory that is removed on exit; `path(ext)` gives fresh file names"""

    def __enter__(self):
        self.dir = tempfile.mkdtemp(prefix='dynetx_io_')
        self.n = 0
        return self

    def path(self, ext=''):
        self.n += 1
        return os.path.join(self.dir, 'f%d.txt%s' % (self.n, ext))

    def __exit__(self, *a):
        shutil.rmtree(self.dir, ignore_errors=True)


_TMP = None          # the part in progress shares one directory; replay() opens its own


def _tmp():
    return _TMP


def _needs_tmp(fn):
    """checks that touch the file system work inside the directory of the running part, or make (and remove) their own"""
    def wrapped(*a, **k):
        global _TMP
        if _TMP is not None:
            return fn(*a, **k)
        with _Tmp() as tmp:
            _TMP = tmp
            try:
                return fn(*a, **k)
            finally:
                _TMP = None
    wrapped.__name__, wrapped.__doc__ = fn.__name__, fn.__doc__
    return wrapped


def _write_target(writer, G, target, delim, enc):
    """run the writer on the requested kind of target; returns (raw bytes written, source()) where source() gives a
    fresh argument for the reader (a path or an open binary file) and cleanup()"""
    tmp = _tmp()
    if target == 'bytesio':
        b = io.BytesIO()
        writer(G, b, delimiter=delim, encoding=enc)
        raw = b.getvalue()
        return raw, (lambda: io.BytesIO(raw)), (lambda: None)
    ext = {'gz': '.gz', 'bz2': '.bz2'}.get(target, '')
    path = tmp.path(ext)
    if target == 'fileobj':
        with open(path, 'wb') as f:
            writer(G, f, delimiter=delim, encoding=enc)
    else:
        writer(G, path, delimiter=delim, encoding=enc)
    if target == 'gz':
        with gzip.open(path, 'rb') as f:
            raw = f.read()
    elif target == 'bz2':
        with bz2.BZ2File(path, 'rb') as f:
            raw = f.read()
    else:
        with open(path, 'rb') as f:
            raw = f.read()
    opened = []

    def source():
        if target == 'fileobj':
            opened.append(open(path, 'rb'))
            return opened[-1]
        return path

    def cleanup():
        for f in opened:
            f.close()
        if os.path.exists(path):
            os.remove(path)
    return raw, source, cleanup


def _split_rows(raw, enc):
    text = raw.decode(enc)
    rows = text.split('\n')
    terminated = rows[-1] == ''
    return rows[:-1] if terminated else rows, terminated or not text


# =============================================================================================== C09

@_needs_tmp
def _c09_case(col, cls, history, nodetype, target, delim, enc):
    """write_snapshots / read_snapshots on the graph built by `history`"""
    built = _build(cls, history)
    if built is None:
        return None
    G, M = built
    directed = M.directed
    args = {'cls': cls, 'history': _j(history), 'nodetype': nodetype, 'target': target, 'delim': delim, 'enc': enc}
    ex = dict(repro={'fn': '_c09_case', 'args': args}, target=target, delimiter=delim, encoding=enc, nodetype=nodetype)
    exp = expected_rows(M)
    nodes, qs = _universe(M, extra=[STR_NODES[9] if nodetype == 'str' else 9]), _window(M)
    read_kw = dict(directed=directed, delimiter=delim, nodetype=NODETYPES[nodetype], timestamptype=int, encoding=enc)

    # --- the writer
    cleanup = lambda: None
    try:
        raw, source, cleanup = _write_target(dn.write_snapshots, G, target, delim, enc)
    except Exception as e:
        col.violation('C09.rows', cls, True, history, 'write_snapshots raised %r' % (e,), kind='exception:' + e.__class__.__name__, **ex)
        raw = None
    try:
        if raw is not None:
            try:
                rows, terminated = _split_rows(raw, enc)
            except UnicodeDecodeError as e:
                col.violation('C09.rows', cls, True, history, 'output is not %s text: %r' % (enc, e), kind='encoding', **ex)
                rows = None
            if rows is not None:
                got, malformed = Counter(), [r for r in rows if len(r.split(delim)) != 3]
                if malformed or not terminated:
                    col.violation('C09.rows', cls, True, history, 'rows not of the form u%sv%st, one per line: %r' % (delim, delim, (malformed or rows)[:3]),
                                  kind='format', file_text=raw.decode(enc), **ex)
                for r in rows:
                    f = r.split(delim)
                    if len(f) == 3:
                        got[_norm_row(directed, *f)] += 1
                kind = _rows_kind(directed, got, exp)
                if kind:
                    col.violation('C09.rows', cls, True, history,
                                  'rows written %r; one row per interaction and instant of presence would be %r (missing %r, extra %r)'
                                  % (sorted(got.elements()), sorted(exp.elements()), sorted((exp - got).elements()), sorted((got - exp).elements())),
                                  kind=kind, file_text=raw.decode(enc), **ex)
                # --- reading back what was written
                try:
                    H = dn.read_snapshots(source(), **read_kw)
                except Exception as e:
                    col.violation('C09.roundtrip', cls, True, history, 'read_snapshots of the written file raised %r' % (e,),
                                  kind='exception:' + e.__class__.__name__, file_text=raw.decode(enc), **ex)
                    H = None
                if H is not None:
                    if H.__class__.__name__ != cls:
                        col.violation('C09.roundtrip', cls, True, history, 'read_snapshots(directed=%r) returned a %s' % (directed, H.__class__.__name__), kind='class', **ex)
                    d = presence_diff(H, M, _universe(M, H, nodes), qs)
                    if d:
                        col.violation('C09.roundtrip', cls, True, history,
                                      'after write_snapshots/read_snapshots has_interaction%r is %r, in the written graph it is %r (%d+ differences: %r)'
                                      % (d[0][:3], d[0][3], d[0][4], len(d), d), kind='presence', file_text=raw.decode(enc), **ex)
                    else:
                        pb = own_index_problem(H)
                        if pb:
                            col.violation('C09.roundtrip', cls, True, history, 'the graph read back has ' + pb, kind='snapshot_index_of_the_copy', file_text=raw.decode(enc), **ex)
    finally:
        cleanup()

    # --- the reader alone, on a file that conforms to the property text (isolates reader defects from writer defects)
    text = ''.join(delim.join((str(k[0]), str(k[1]), str(q))) + '\n' for k in sorted(M.keys(), key=repr) for q in sorted(M.pres[k]))
    try:
        H = dn.read_snapshots(io.BytesIO(text.encode(enc)), **read_kw)
        d = presence_diff(H, M, _universe(M, H, nodes), qs)
        if d or H.__class__.__name__ != cls:
            col.violation('C09.reader', cls, True, history, 'reading the conforming file %r gives a %s with has_interaction%r = %r, expected %r'
                          % (text, H.__class__.__name__, d[0][:3] if d else '', d[0][3] if d else '', d[0][4] if d else ''), kind='presence' if d else 'class', file_text=text, **ex)
    except Exception as e:
        col.violation('C09.reader', cls, True, history, 'reading the conforming file %r raised %r' % (text, e), kind='exception:' + e.__class__.__name__, file_text=text, **ex)
    return G, M


def _c09_four_columns(col, directed, rows, via, delim):
    """rows 'u v t' / 'u v t e' fed to the reader; a four-column row means the span t..e-1"""
    cls = _cls(directed)
    M = Model(directed, True)
    for r in rows:
        M.add(r[0], r[1], r[2], r[3] if len(r) > 3 else None)
    lines = [delim.join(map(str, [x for x in r if x is not None])) + '\n' for r in rows]
    ex = dict(repro={'fn': '_c09_four_columns', 'args': {'directed': directed, 'rows': _j(rows), 'via': via, 'delim': delim}}, lines=lines, via=via, delimiter=delim)
    kw = dict(directed=directed, delimiter=delim, nodetype=int, timestamptype=int)
    try:
        if via == 'parse':
            H = dn.parse_snapshots(lines, **kw)
        else:
            H = dn.read_snapshots(io.BytesIO(''.join(lines).encode('utf-8')), **kw)
    except Exception as e:
        col.violation('C09.four_columns', cls, True, [], '%s_snapshots(%r) raised %r' % (via, lines, e), kind='exception:' + e.__class__.__name__, **ex)
        return
    d = presence_diff(H, M, _universe(M, H), _window(M))
    if d:
        col.violation('C09.four_columns', cls, True, [], "rows %r: has_interaction%r = %r, the spans t..e-1 say %r (%r)" % (lines, d[0][:3], d[0][3], d[0][4], d), kind='presence', **ex)
    if H.__class__.__name__ != cls:
        col.violation('C09.four_columns', cls, True, [], 'directed=%r gave a %s' % (directed, H.__class__.__name__), kind='class', **ex)


def _row_sequences(tier, seed, directed):
    """accepted sequences of 3/4-column rows: exhaustive for <=2 rows, seeded random for 3..4 rows"""
    rng = random.Random(seed * 31 + 5 + directed)
    alpha = [(u, v, t, e) for (u, v) in ((1, 2), (2, 1), (1, 1), (2, 3)) for t in range(0, 4) for e in (None, t + 1, t + 2, t + 3)]

    def ok(rows):
        M = Model(directed, True)
        for (u, v, t, e) in rows:
            if M.rejects(u, v, t, e):
                return False
            M.add(u, v, t, e)
        return True
    for a in alpha:
        if a[3] is not None:
            yield [a]
    for a in alpha:
        for b in alpha:
            if (a[3] is not None or b[3] is not None) and ok([a, b]):
                if tier != 'quick' or rng.random() < 0.5:
                    yield [a, b]
    for _ in range(600 if tier == 'quick' else 6000):
        rows = [rng.choice(alpha) for _ in range(rng.randint(3, 4))]
        if ok(rows) and any(r[3] is not None for r in rows):
            yield rows


def c09_snapshot_roundtrip(tier, seed):
    global _TMP
    col = KindCollector(
        'histories of core.histories plus 4 directed fan-in shapes (all <=2 calls over 5 pairs incl. reciprocal and self-loop x point/interval spans on instants 0..4, '
        'structured multi-run histories, seeded random histories of 3..4 calls) on both classes, each with int node ids and with str node ids '
        '(non-ascii, so the encoding is observable); every distinct reached state is written with write_snapshots to one of 30 configurations '
        '{plain path,.gz,.bz2,open binary file,BytesIO} x delimiter {space,comma,tab} x {utf-8,latin-1} taken in rotation (all 30 for the states '
        'of <=1 call and the structured histories%s); checked: the decoded file is exactly one row u<d>v<d>t per model pair and instant of presence '
        '(multiset; orientation exact on DynDiGraph, free on DynGraph), read_snapshots(directed,nodetype,timestamptype=int,delimiter,encoding) of '
        'it has has_interaction == model for all node pairs (both orders, one foreign node) and q in [min-2,max+3], and is of the right class; the '
        'reader is also run alone on a conforming file produced from the model; plus 3/4-column row sequences (exhaustive <=2 rows, random 3..4) fed '
        'to parse_snapshots/read_snapshots and compared with the spans t..e-1.  evaluation = one (state, configuration) or one row sequence; '
        'distinct non-trivial = distinct (representation state with >=1 interaction, node id type) resp. distinct (class, row sequence with a '
        '4-column row)' % ('' if tier == 'quick' else '; 3 configurations per state'))
    per_state = 1 if tier == 'quick' else 3
    rot = 0
    with _Tmp() as tmp:
        _TMP = tmp
        try:
            for nodetype in ('int', 'str'):
                m = None if nodetype == 'int' else STR_NODES
                n_struct = {}
                for cls, removal, h0 in _graph_histories(tier, seed):
                    h = map_history(h0, m)
                    built = _build(cls, h)
                    if built is None:
                        continue
                    G, M = built
                    key = (state_key(G), nodetype)
                    n_struct[cls] = n_struct.get(cls, 0) + 1
                    small = len(h) <= 1 or n_struct[cls] <= 15 or h0 in EXTRA_HISTORIES
                    if key in col.distinct or not M.keys():
                        continue
                    if small:
                        cfgs = CONFIGS
                    else:
                        cfgs = [CONFIGS[(rot + i * 11) % len(CONFIGS)] for i in range(per_state)]
                        rot += 1
                    for (target, delim, enc) in cfgs:
                        col.seen(key, True, {'class': cls, 'history': h, 'nodetype': nodetype, 'config': [target, delim, enc]})
                        _c09_case(col, cls, h, nodetype, target, delim, enc)
            for directed in (False, True):
                for i, rows in enumerate(_row_sequences(tier, seed, directed)):
                    via, delim = ('parse', 'read')[i % 2], DELIMS[i % 3]
                    col.seen((directed, repr(rows)), True, {'rows': rows, 'directed': directed})
                    _c09_four_columns(col, directed, [list(r) for r in rows], via, delim)
        finally:
            _TMP = None
    return col.result(bound='<=3 nodes, instants 0..4 (+ shifted/negative structured histories), histories <=4 calls, one of 30 I/O configurations per state; row files <=4 rows')


# =============================================================================================== C10

def log_model(directed, log):
    """presence described by an event log, from the property text: '+' = appearance at t; '-' = vanishing at t, the
    pair being present from its latest appearance through t-1"""
    M = Model(directed, True)
    last = {}
    for (u, v, op, t) in log:
        k = M.key(u, v)
        if op == '+':
            M.add(u, v, t)
            last[k] = t
        else:
            M.add(u, v, last[k], t)
    return M


def _unclosed_two_instant_runs(M, stream):
    """pairs having a maximal presence run of exactly two instants [s,s+1] without a '-' event at s+2 in the stream (D06).
    Violations of C10.roundtrip carry d06=True when every mismatching pair is one of these (the written stream itself is
    deficient); the informational d06_on_read=True marks stream mismatches where the written stream was complete and only
    the closing '-' of two-instant runs is missing from the graph read back (the reader replays '-' with point adds and so
    re-enters D06's region in the kernel)"""
    minus = set((M.key(a, b), q) for (a, b, op, q) in stream if op == '-')
    out = set()
    for k, S in M.pres.items():
        for s in S:
            if s - 1 not in S and s + 1 in S and s + 2 not in S and (k, s + 2) not in minus:
                out.add(k)
    return out


@_needs_tmp
def _c10_case(col, cls, history, nodetype, target, delim, enc):
    built = _build(cls, history)
    if built is None:
        return None
    G, M = built
    directed = M.directed
    args = {'cls': cls, 'history': _j(history), 'nodetype': nodetype, 'target': target, 'delim': delim, 'enc': enc}
    ex = dict(repro={'fn': '_c10_case', 'args': args}, target=target, delimiter=delim, encoding=enc, nodetype=nodetype)
    stream = list(G.stream_interactions())
    cleanup = lambda: None
    try:
        try:
            raw, source, cleanup = _write_target(dn.write_interactions, G, target, delim, enc)
            rows, terminated = _split_rows(raw, enc)
        except Exception as e:
            col.violation('C10.rows_are_stream_events', cls, True, history, 'write_interactions raised / wrote undecodable text: %r' % (e,), kind='exception:' + e.__class__.__name__, **ex)
            return G, M
        text = raw.decode(enc)
        exp_rows = [delim.join(map(str, e)) for e in stream]
        if rows != exp_rows or not terminated:
            col.violation('C10.rows_are_stream_events', cls, True, history, 'rows %r, stream_interactions() %r' % (rows, stream), kind='rows', file_text=text, **ex)
        try:
            ts = [int(r.split(delim)[3]) for r in rows]
            if ts != sorted(ts):
                col.violation('C10.chronological', cls, True, history, 'rows not in chronological order: %r' % (rows,), kind='order', file_text=text, **ex)
        except (IndexError, ValueError):
            col.violation('C10.rows_are_stream_events', cls, True, history, "rows not of the form 'u v op t': %r" % (rows,), kind='format', file_text=text, **ex)
        unclosed = _unclosed_two_instant_runs(M, stream)
        try:
            H = dn.read_interactions(source(), directed=directed, delimiter=delim, nodetype=NODETYPES[nodetype], timestamptype=int, encoding=enc)
        except Exception as e:
            col.violation('C10.roundtrip', cls, True, history, 'read_interactions of the written file %r raised %r' % (text, e),
                          kind='exception:' + e.__class__.__name__, d06=False, file_text=text, **ex)
            return G, M
        if H.__class__.__name__ != cls:
            col.violation('C10.roundtrip', cls, True, history, 'read_interactions(directed=%r) returned a %s' % (directed, H.__class__.__name__), kind='class', d06=False, **ex)
        d = presence_diff(H, M, _universe(M, H, [STR_NODES[9] if nodetype == 'str' else 9]), _window(M), limit=50)
        if d:
            bad = set(M.key(a, b) for (a, b, _, _, _) in d)
            col.violation('C10.roundtrip', cls, True, history,
                          'file %r: after write_interactions/read_interactions has_interaction%r is %r, in the written graph it is %r (differences %r)'
                          % (text, d[0][:3], d[0][3], d[0][4], d[:6]), kind='presence', d06=bool(unclosed) and bad <= unclosed, file_text=text, **ex)
        st2 = list(H.stream_interactions())
        a, b = _norm_events(M, stream), _norm_events(M, st2)
        if a != b:
            diff = [e for e in a if e not in b] + [e for e in b if e not in a]
            bad = set(e[0] for e in diff)
            causes = set()
            for (k, op, q) in diff:
                S = M.pres.get(k, set())
                if op == '-' and (k, op, q) in a and q - 1 in S and q not in S:
                    n = 1
                    while q - 1 - n in S:
                        n += 1
                    causes.add("closing_minus_of_%s_lost" % ({1: 'single_instant_run', 2: 'two_instant_run'}.get(n, 'longer_run')))
                else:
                    causes.add('other_events_differ')
            col.violation('C10.roundtrip', cls, True, history, 'file %r: stream written %r, stream of the graph read back %r' % (text, stream, st2),
                          kind='stream:' + '+'.join(sorted(causes)), d06=bool(unclosed) and bad <= unclosed,
                          d06_on_read=(causes == {'closing_minus_of_two_instant_run_lost'}), file_text=text, **ex)
        ts2 = [e[3] for e in st2]
        if ts2 != sorted(ts2):
            col.violation('C10.roundtrip', cls, True, history, 'stream of the graph read back is not chronological: %r' % (st2,), kind='stream_order', d06=False, **ex)
        # the graph read back is a graph like any other: its snapshot index must describe ITS OWN presence relation (same presence +
        # same stream as the written graph then give the same ids and counts; checked on the read graph itself so that finding D06,
        # which changes the presence of the copy, does not interfere)
        if not d:
            try:
                ids2 = list(H.temporal_snapshots_ids())
                cnt2 = dict(H.interactions_per_snapshots())
                own = {}
                for it in (H.out_interactions() if directed else H.interactions()):
                    for (s0, e0) in it[2]['t']:
                        for q in range(s0, e0 + 1):
                            own[q] = own.get(q, 0) + 1
                if ids2 != sorted(own) or any(cnt2.get(q) != n_ for q, n_ in own.items()):
                    col.violation('C10.roundtrip', cls, True, history, 'file %r: the graph read back has snapshot ids %r / counts %r, its own timelines give %r'
                                  % (text, ids2, cnt2, sorted(own.items())), kind='snapshot_index_of_the_copy', d06=False, file_text=text, **ex)
            except Exception as e:
                col.violation('C10.roundtrip', cls, True, history, 'snapshot queries on the graph read back raised %r' % (e,), kind='exception:' + e.__class__.__name__, d06=False, **ex)
    finally:
        cleanup()
    return G, M


def _c10_log(col, directed, log, via, delim):
    """a well-formed chronological event log fed to the reader, compared with the meaning the property gives it"""
    cls = _cls(directed)
    log = [tuple(e) for e in log]
    M = log_model(directed, log)
    lines = [delim.join(map(str, e)) + '\n' for e in log]
    ex = dict(repro={'fn': '_c10_log', 'args': {'directed': directed, 'log': _j(log), 'via': via, 'delim': delim}}, lines=lines, via=via, delimiter=delim)
    kw = dict(directed=directed, delimiter=delim, nodetype=int, timestamptype=int)
    try:
        if via == 'parse':
            H = dn.parse_interactions(lines, **kw)
        else:
            H = dn.read_interactions(io.BytesIO(''.join(lines).encode('utf-8')), **kw)
    except Exception as e:
        col.violation('C10.log_semantics', cls, True, [], '%s_interactions(%r) raised %r' % (via, lines, e), kind='exception:' + e.__class__.__name__, **ex)
        return
    d = presence_diff(H, M, _universe(M, H), _window(M), limit=6)
    if d:
        col.violation('C10.log_semantics', cls, True, [],
                      "log %r: has_interaction%r = %r, the log means %r (presence by the log %r; differences %r)"
                      % ([' '.join(map(str, e)) for e in log], d[0][:3], d[0][3], d[0][4], dict((k, sorted(S)) for k, S in M.pres.items()), d), kind='presence', **ex)
    if H.__class__.__name__ != cls:
        col.violation('C10.log_semantics', cls, True, [], 'directed=%r gave a %s' % (directed, H.__class__.__name__), kind='class', **ex)


def _logs(directed, pairs, times, max_len):
    """all chronological well-formed logs of <= max_len events: '-' only for a pair that is open (a '+' with no later '-'),
    strictly after its latest '+'; '+' of an open pair strictly after its latest '+', of a closed pair not before its '-'"""
    def rec(log, st, cur):
        if log:
            yield list(log)
        if len(log) == max_len:
            return
        for t in times:
            if t < cur:
                continue
            for (u, v) in pairs:
                k = (u, v) if directed else tuple(sorted((u, v)))
                a, b, is_open = st.get(k, (None, None, False))
                if a is None or (is_open and t > a) or (not is_open and t >= b):
                    st2 = dict(st)
                    st2[k] = (t, b, True)
                    for x in rec(log + [(u, v, '+', t)], st2, t):
                        yield x
                if is_open and t > a:
                    st2 = dict(st)
                    st2[k] = (a, t, False)
                    for x in rec(log + [(u, v, '-', t)], st2, t):
                        yield x
    return rec([], {}, times[0])


def _random_log(rng, directed, pairs, n, t_hi):
    log, st, cur = [], {}, 0
    for _ in range(n):
        cur = min(t_hi, cur + rng.choice((0, 0, 1, 1, 2)))
        u, v = rng.choice(pairs)
        k = (u, v) if directed else tuple(sorted((u, v)))
        a, b, is_open = st.get(k, (None, None, False))
        can_plus = a is None or (is_open and cur > a) or (not is_open and cur >= b)
        can_minus = is_open and cur > a
        if can_minus and (not can_plus or rng.random() < 0.6):
            log.append((u, v, '-', cur))
            st[k] = (a, cur, False)
        elif can_plus:
            log.append((u, v, '+', cur))
            st[k] = (cur, b, True)
    return log


def c10_interaction_roundtrip(tier, seed):
    global _TMP
    col = KindCollector(
        'same history space, node id types and 30 I/O configurations (in rotation) as C09, written with write_interactions: rows must be the '
        "events of stream_interactions() as 'u<d>v<d>op<d>t' in order and chronological; read_interactions(directed,nodetype,timestamptype=int,"
        'delimiter,encoding) of the file must give has_interaction == model for all node pairs and q in [min-2,max+3] and the same multiset of '
        '(pair,op,t) events in chronological order (check C10.roundtrip; d06=True when every mismatching pair has a maximal run of exactly two '
        "instants with no closing '-' in the written stream).  Plus all chronological well-formed event logs of <=%d events over pairs "
        '(1,2),(2,1),(2,3),(1,1) and instants 0..4 (and seeded random logs of 4..7 events on instants 0..8) fed to parse_interactions / '
        "read_interactions and compared with the property's meaning of the log ('+'@t: present at t; '-'@t: present from the latest '+' "
        'through t-1).  evaluation = one (state, configuration) or one log; distinct non-trivial = distinct (state with >=1 interaction, node id '
        'type) resp. distinct (class, log with >=2 events of one pair)' % (3 if tier == 'quick' else 4))
    per_state = 1 if tier == 'quick' else 3
    rot = 7
    pairs = [(1, 2), (2, 1), (2, 3), (1, 1)]
    with _Tmp() as tmp:
        _TMP = tmp
        try:
            for nodetype in ('int', 'str'):
                m = None if nodetype == 'int' else STR_NODES
                n_struct = {}
                for cls, removal, h0 in _graph_histories(tier, seed):
                    h = map_history(h0, m)
                    built = _build(cls, h)
                    if built is None:
                        continue
                    G, M = built
                    key = (state_key(G), nodetype)
                    n_struct[cls] = n_struct.get(cls, 0) + 1
                    small = len(h) <= 1 or n_struct[cls] <= 15 or h0 in EXTRA_HISTORIES
                    if key in col.distinct or not M.keys():
                        continue
                    if small:
                        cfgs = CONFIGS
                    else:
                        cfgs = [CONFIGS[(rot + i * 11) % len(CONFIGS)] for i in range(per_state)]
                        rot += 1
                    for (target, delim, enc) in cfgs:
                        col.seen(key, True, {'class': cls, 'history': h, 'nodetype': nodetype, 'config': [target, delim, enc]})
                        _c10_case(col, cls, h, nodetype, target, delim, enc)
            rng = random.Random(seed * 101 + 3)
            for directed in (False, True):
                gens = [_logs(directed, pairs, list(range(0, 5)), 3 if tier == 'quick' else 4),
                        (_random_log(rng, directed, pairs, rng.randint(4, 7), 8) for _ in range(1500 if tier == 'quick' else 15000))]
                for i, log in enumerate(itertools.chain(*gens)):
                    if not log:
                        continue
                    keys = Counter((e[0], e[1]) if directed else tuple(sorted(e[:2])) for e in log)
                    via, delim = ('parse', 'read')[i % 2], DELIMS[i % 3]
                    col.seen((directed, tuple(log)), max(keys.values()) >= 2, {'directed': directed, 'log': log})
                    _c10_log(col, directed, [list(e) for e in log], via, delim)
        finally:
            _TMP = None
    return col.result(bound='graphs: <=3 nodes, instants 0..4, histories <=4 calls; logs: <=%d events exhaustive on instants 0..4, <=7 events random' % (3 if tier == 'quick' else 4))


# =============================================================================================== C11

DECORATIONS = [
    {'iso': [], 'nattr': [], 'gattr': {}},
    {'iso': [[7, {}]], 'nattr': [], 'gattr': {'name': 'g'}},
    {'iso': [[7, {'color': 'red', 'w': 1.5}], [8, {'tags': ['a', 'b'], 'ok': True, 'none': None}]], 'nattr': [[1, {'label': 'one', 'n': 1}]],
     'gattr': {'name': 'net', 'meta': {'k': [1, 2]}}},
    {'iso': [[7, {'id': 'shadow', 'label': u'\xe9'}]], 'nattr': [[2, {'id': 22}]], 'gattr': {'directed': 'not me'}},   # only with a custom attrs['id']
]


def _decorate(G, decor, m):
    """isolated nodes, node attributes and graph attributes through the public API; returns ({node: attrs}, graph attrs)"""
    f = (lambda n: n) if m is None else (lambda n: m[n])
    for n, a in decor['iso']:
        G.add_node(f(n), **a)
    for n, a in decor['nattr']:
        if f(n) in G._node:
            G.add_node(f(n), **a)
    for k, v in decor['gattr'].items():
        G.graph[k] = v


def _expected_nodes(M, decor, m):
    f = (lambda n: n) if m is None else (lambda n: m[n])
    exp = dict((n, {}) for n in M.nodes)
    for n, a in decor['iso']:
        exp.setdefault(f(n), {}).update(a)
    for n, a in decor['nattr']:
        if f(n) in exp:
            exp[f(n)].update(a)
    return exp


def _links_counter(directed, links, src='source', tgt='target'):
    c = Counter()
    for l in links:
        a, b, t = l.get(src), l.get(tgt), l.get('time')
        c[(a, b, t) if directed else tuple(sorted((a, b), key=repr)) + (t,)] += 1
    return c


def _check_rebuilt(col, check, cls, history, H, M, exp_nodes, gattr, ex):
    if H.__class__.__name__ != cls:
        col.violation(check, cls, True, history, 'rebuilt graph is a %s' % H.__class__.__name__, kind='class', **ex)
    got_nodes = sorted(H.nodes(), key=repr)
    if got_nodes != sorted(exp_nodes, key=repr):
        col.violation(check, cls, True, history, 'rebuilt nodes %r, expected %r' % (got_nodes, sorted(exp_nodes, key=repr)), kind='nodes', **ex)
    else:
        got = dict((n, dict(H._node[n])) for n in H.nodes())
        if got != exp_nodes:
            col.violation(check, cls, True, history, 'rebuilt node attributes %r, expected %r' % (got, exp_nodes), kind='node_attrs', **ex)
    if dict(H.graph) != gattr:
        col.violation(check, cls, True, history, 'rebuilt graph attributes %r, expected %r' % (dict(H.graph), gattr), kind='graph_attrs', **ex)
    d = presence_diff(H, M, _universe(M, H, list(exp_nodes)), _window(M))
    if d:
        col.violation(check, cls, True, history, 'rebuilt graph: has_interaction%r = %r, original %r (differences %r)' % (d[0][:3], d[0][3], d[0][4], d), kind='presence', **ex)
    else:
        pb = own_index_problem(H)
        if pb:
            col.violation(check, cls, True, history, 'the rebuilt graph has ' + pb, kind='snapshot_index_of_the_copy', **ex)


def _c11_case(col, cls, history, nodetype, decor, id_attr):
    built = _build(cls, history)
    if built is None:
        return None
    G, M = built
    directed = M.directed
    m = None if nodetype == 'int' else STR_NODES
    D = DECORATIONS[decor]
    _decorate(G, D, m)
    exp_nodes, gattr = _expected_nodes(M, D, m), json.loads(json.dumps(D['gattr']))
    exp_nodes = json.loads(json.dumps(list(exp_nodes.items())))
    exp_nodes = dict((n, a) for n, a in exp_nodes)
    attrs = dict(id=id_attr, source='source', target='target')
    ex = dict(repro={'fn': '_c11_case', 'args': {'cls': cls, 'history': _j(history), 'nodetype': nodetype, 'decor': decor, 'id_attr': id_attr}},
              nodes_added=D['iso'] + D['nattr'], graph_attrs=D['gattr'], attrs=attrs, nodetype=nodetype)
    call = (lambda f, *a, **k: f(*a, **k)) if id_attr == 'id' else (lambda f, *a, **k: f(*a, attrs=attrs, **k))
    try:
        data = call(dn.node_link_data, G)
    except Exception as e:
        col.violation('C11.data', cls, True, history, 'node_link_data raised %r' % (e,), kind='exception:' + e.__class__.__name__, **ex)
        return G, M
    try:
        text = json.dumps(data)
    except Exception as e:
        col.violation('C11.data', cls, True, history, 'node_link_data(G) is not JSON-serialisable: %r' % (e,), kind='not_serialisable', **ex)
        return G, M
    jd = json.loads(text)
    if jd.get('directed') is not directed:
        col.violation('C11.data', cls, True, history, "data['directed'] = %r" % (jd.get('directed'),), kind='directed_flag', **ex)
    got_nodes = [(d.get(id_attr), dict((k, v) for k, v in d.items() if k != id_attr)) for d in jd.get('nodes', [])]
    if sorted(got_nodes, key=repr) != sorted(exp_nodes.items(), key=repr):
        col.violation('C11.data', cls, True, history, "data['nodes'] = %r, expected every node once with its attributes: %r" % (jd.get('nodes'), exp_nodes), kind='nodes', **ex)
    if jd.get('graph') != gattr:
        col.violation('C11.data', cls, True, history, "data['graph'] = %r, graph attributes %r" % (jd.get('graph'), gattr), kind='graph_attrs', **ex)
    links = jd.get('links', [])
    if any(sorted(l) != ['source', 'target', 'time'] for l in links):
        col.violation('C11.data', cls, True, history, 'links are not {source,target,time}: %r' % (links[:3],), kind='link_keys', **ex)
    exp_links = Counter()
    for q in M.instants():
        for k in M.edges_at(q):
            exp_links[(k[0], k[1], q) if directed else tuple(sorted(k, key=repr)) + (q,)] += 1
    got_links = _links_counter(directed, links)
    kind = _rows_kind(directed, got_links, exp_links)
    if kind:
        col.violation('C11.data', cls, True, history, 'links %r; one per interaction and instant of presence would be %r (missing %r, extra %r)'
                      % (sorted(got_links.elements(), key=repr), sorted(exp_links.elements(), key=repr), sorted((exp_links - got_links).elements(), key=repr),
                         sorted((got_links - exp_links).elements(), key=repr)), kind='links_' + kind, **ex)
    # --- rebuilding from what node_link_data produced
    try:
        H = call(dn.node_link_graph, json.loads(text))
        _check_rebuilt(col, 'C11.rebuild', cls, history, H, M, exp_nodes, gattr, ex)
    except Exception as e:
        col.violation('C11.rebuild', cls, True, history, 'node_link_graph(json round trip of node_link_data(G)) raised %r' % (e,), kind='exception:' + e.__class__.__name__, **ex)
    # --- node_link_graph alone, on data that conform to the property text
    conf = {'directed': directed, 'graph': gattr,
            'nodes': [dict(list(a.items()) + [(id_attr, n)]) for n, a in sorted(exp_nodes.items(), key=repr)],
            'links': [{'source': k[0], 'target': k[1], 'time': q} for k in sorted(M.keys(), key=repr) for q in sorted(M.pres[k])]}
    try:
        H = call(dn.node_link_graph, json.loads(json.dumps(conf)))
        _check_rebuilt(col, 'C11.rebuild_from_conforming_data', cls, history, H, M, exp_nodes, gattr, ex)
    except Exception as e:
        col.violation('C11.rebuild_from_conforming_data', cls, True, history, 'node_link_graph(%r) raised %r' % (conf, e), kind='exception:' + e.__class__.__name__, **ex)
    # --- the 'directed' argument
    try:
        for arg in (True, False):
            H = call(dn.node_link_graph, json.loads(json.dumps(conf)), directed=arg)
            if H.is_directed() != directed:
                col.violation('C11.directed_argument', cls, True, history, "data say directed=%r, node_link_graph(data, directed=%r) built a %s"
                              % (directed, arg, H.__class__.__name__), kind='overrides_data', **ex)
            # the data do not say: links in chronological order, so that reading them into the other class is never a rejected add
            silent = dict((k, v) for k, v in conf.items() if k != 'directed')
            silent['links'] = sorted(conf['links'], key=lambda l: l['time'])
            H = call(dn.node_link_graph, json.loads(json.dumps(silent)), directed=arg)
            if H.is_directed() != arg or H.__class__.__name__ != _cls(arg):
                col.violation('C11.directed_argument', cls, True, history, "data without 'directed', node_link_graph(data, directed=%r) built a %s"
                              % (arg, H.__class__.__name__), kind='ignored_when_data_silent', **ex)
            if sorted(H.nodes(), key=repr) != sorted(exp_nodes, key=repr):
                col.violation('C11.directed_argument', cls, True, history, "data without 'directed', directed=%r: nodes %r" % (arg, H.nodes()), kind='nodes', **ex)
    except Exception as e:
        col.violation('C11.directed_argument', cls, True, history, 'node_link_graph raised %r' % (e,), kind='exception:' + e.__class__.__name__, **ex)
    return G, M


def c11_json_roundtrip(tier, seed):
    col = KindCollector(
        'history space of C09 plus the empty history, on both classes, with int and with str (non-ascii) node ids; each distinct state '
        'is decorated with one of 4 decorations in rotation (none / one isolated node + graph name / two attributed isolated nodes, an attributed '
        "endpoint, nested graph attributes / node attributes named 'id' with custom attrs['id']='name'), all 4 for states of <=1 call; attrs['id'] in "
        "{'id','name'}; checked on json.loads(json.dumps(node_link_data(G))): serialisable, directed flag, every node once with its attributes, graph "
        'attributes, links exactly {source,target,time} one per model pair and instant (orientation exact when directed); node_link_graph of it and of '
        "a conforming data set built from the model: class, nodes, node and graph attributes, has_interaction == model for all pairs and q in "
        "[min-2,max+3]; 'directed' argument (True/False) against data that say / do not say.  evaluation = one (state, decoration, id attr); distinct "
        'non-trivial = distinct (representation state, node id type, decoration) with >=1 interaction or >=1 isolated node')
    rot = 0
    for nodetype in ('int', 'str'):
        m = None if nodetype == 'int' else STR_NODES
        for cls in ('DynGraph', 'DynDiGraph'):
            for decor in range(len(DECORATIONS)):
                for id_attr in (('id', 'name') if decor < 3 else ('name',)):
                    col.seen((cls, nodetype, 'empty', decor), bool(DECORATIONS[decor]['iso']), {'class': cls, 'history': [], 'decor': decor})
                    _c11_case(col, cls, [], nodetype, decor, id_attr)
        seen_states = set()
        for cls, removal, h0 in _graph_histories(tier, seed):
            h = map_history(h0, m)
            built = _build(cls, h)
            if built is None:
                continue
            G, M = built
            sk = (state_key(G), nodetype)
            if sk in seen_states or not M.keys():
                continue
            seen_states.add(sk)
            if len(h) <= 1:
                todo = [(d, i) for d in range(len(DECORATIONS)) for i in (('id', 'name') if d < 3 else ('name',))]
            else:
                d = rot % len(DECORATIONS)
                todo = [(d, 'name' if d == 3 or (rot // 4) % 2 else 'id')]
                rot += 1
            for decor, id_attr in todo:
                col.seen(sk + (decor,), True, {'class': cls, 'history': h, 'nodetype': nodetype, 'decor': decor, 'id_attr': id_attr})
                _c11_case(col, cls, h, nodetype, decor, id_attr)
    return col.result(bound='<=3 interacting nodes + <=2 isolated nodes, instants 0..4, histories <=4 calls, 4 decorations')


# =============================================================================================== C18

def _jd(delim, i=0):
    """string that joins the fields of a row for the given delimiter argument (None = any whitespace)"""
    return (' ', '\t', '  ')[i % 3] if delim is None else delim


def _row_item(fields, delim, i=0, trail=None):
    """a valid row; `trail` appends a trailing comment that must be ignored"""
    clean = _jd(delim, i).join(str(x) for x in fields if x is not None)
    n = len([x for x in fields if x is not None])
    kind = 'ev' if len(fields) == 4 and fields[2] in ('+', '-') else 'row%d' % n
    if trail is None:
        return {'kind': kind, 'text': clean, 'clean': clean, 'fields': list(fields)}
    return {'kind': kind + '+trailing_comment', 'text': clean + trail, 'clean': clean, 'fields': list(fields), 'noise': 'trailing_comment'}


def _respell(fields, delim):
    """the last valid row again with its timestamp written with a leading zero / plus sign (same int value)"""
    f = list(fields)
    ti = 3 if len(f) == 4 and f[2] in ('+', '-') else 2
    v = f[ti]
    f[ti] = ('-0%d' % -v) if isinstance(v, int) and v < 0 else ('0%s' % v)
    if len(f) == 4 and f[2] in ('+', '-'):
        f[2] = '+'          # re-adding at the same instant is a no-op
    it = _row_item(f, delim)
    it['fields'] = list(fields[:ti]) + [v] + list(fields[ti + 1:])
    if len(f) == 4 and f[2] in ('+', '-'):
        it['fields'][2] = '+'
    it['kind'] = it['kind'] + '+respelled_timestamp'
    return it


def _noise_catalog(delim, fmt, marker='#'):
    j = _jd(delim)
    other = ',' if delim in (None, ' ', '\t') else ' '
    cat = [('comment', marker + ' a comment'), ('comment', marker + j.join(('1', '2', '3'))), ('comment', marker + ' ' + j.join(('1', '2', '+', '3'))),
           ('comment', '  ' + marker + ' indented comment'), ('comment', marker + ' 5 6 7 ' + marker + ' disabled'),
           ('comment', marker + marker + ' ' + j.join(('1', '2', '3'))),
           ('empty', ''), ('whitespace', '   '), ('whitespace', '\t'), ('whitespace', ' \t '),
           ('short_row', '5'), ('short_row', j.join(('5', '6'))), ('short_row_unconvertible', j.join(('x', 'y'))),
           ('short_row', other.join(('5', '6', '7'))), ('short_row', other.join(('5', '6', '+', '7'))),
           ('short_row+trailing_comment', j.join(('5', '6')) + ' ' + marker + ' ' + j.join(('7', '8')))]
    if fmt == 'interactions':
        cat += [('three_fields', j.join(('5', '6', '7'))), ('five_fields', j.join(('5', '6', '+', '7', '8'))), ('three_fields', j.join(('5', '6', '+')))]
    return [{'kind': k, 'text': t, 'clean': None, 'noise': k} for k, t in cat]


def _parse(fmt, lines, directed, delim, nodetype, comments='#'):
    f = dn.parse_snapshots if fmt == 'snapshots' else dn.parse_interactions
    return f(lines, comments=comments, directed=directed, delimiter=delim, nodetype=NODETYPES.get(nodetype), timestamptype=int)


def _observe(G):
    """what the property compares: presence relation (as the timelines / has_interaction see it), nodes, stream"""
    nodes = sorted(G.nodes(), key=repr)
    ts = sorted(set(t for e in G.stream_interactions() for t in [e[3]]) | set(G.temporal_snapshots_ids()))
    qs = range(min(ts) - 1, max(ts) + 3) if ts else range(0)
    pres = sorted((repr(a), repr(b), q) for a in nodes for b in nodes for q in qs if G.has_interaction(a, b, q))
    return {'nodes': nodes, 'presence': pres, 'stream': sorted(G.stream_interactions(), key=repr)}


def _noise_outcome(fmt, items, directed, delim, nodetype, eol, comments):
    """None when the noisy file parses to the same graph as its clean rows alone, else (kind, detail)"""
    noisy = [it['text'] + eol for it in items]
    clean = [it['clean'] + eol for it in items if it['clean'] is not None]
    try:
        ref = _observe(_parse(fmt, clean, directed, delim, nodetype, comments))
    except Exception as e:
        return ('clean_rows_raise:' + e.__class__.__name__, 'parsing the clean rows %r raised %r' % (clean, e))
    try:
        got = _observe(_parse(fmt, noisy, directed, delim, nodetype, comments))
    except Exception as e:
        return ('exception:' + e.__class__.__name__, 'parsing %r raised %r; the remaining rows alone %r parse fine' % (noisy, e, clean))
    for what in ('presence', 'nodes', 'stream'):
        if got[what] != ref[what]:
            return (what, 'lines %r: %s %r; the remaining rows alone %r give %r' % (noisy, what, got[what], clean, ref[what]))
    return None


def _c18_noise(col, fmt, directed, delim, items, nodetype, eol, comments):
    cls = _cls(directed)
    out = _noise_outcome(fmt, items, directed, delim, nodetype, eol, comments)
    if out is None:
        return
    # greedy minimisation: drop noise (and rows) that the failure does not need
    items = list(items)
    changed = True
    while changed:
        changed = False
        for i in range(len(items)):
            cand = items[:i] + items[i + 1:]
            if items[i].get('noise') == 'trailing_comment':
                cand = items[:i] + [dict(items[i], text=items[i]['clean'], noise=None, kind=items[i]['kind'].split('+')[0])] + items[i + 1:]
            o2 = _noise_outcome(fmt, cand, directed, delim, nodetype, eol, comments)
            if o2 is not None and o2[0] == out[0]:
                items, out, changed = cand, o2, True
                break
    noise = sorted(set(it['noise'] for it in items if it.get('noise')))
    args = {'fmt': fmt, 'directed': directed, 'delim': delim, 'items': items, 'nodetype': nodetype, 'eol': eol, 'comments': comments}
    col.violation('C18.noise_skipped', cls, True, [], '%s, delimiter=%r, comments=%r: %s' % ('parse_' + fmt, delim, comments, out[1]),
                  kind='%s|%s|noise=%s' % (fmt, out[0], '+'.join(noise) or 'none'), repro={'fn': '_c18_noise', 'args': args},
                  lines=[it['text'] + eol for it in items], delimiter=delim, comments=comments, nodetype=nodetype)


def _c18_delimiter(col, directed, delim, rows, nodetype, variant):
    """rows u,v,t[,e] joined by the delimiter parse to the graph the rows describe (fields may contain other separators)"""
    cls = _cls(directed)
    M = Model(directed, True)
    for r in rows:
        M.add(r[0], r[1], r[2], r[3] if len(r) > 3 else None)
    lines = [_jd(delim, variant).join(str(x) for x in r if x is not None) + '\n' for r in rows]
    ex = dict(repro={'fn': '_c18_delimiter', 'args': {'directed': directed, 'delim': delim, 'rows': _j(rows), 'nodetype': nodetype, 'variant': variant}},
              lines=lines, delimiter=delim, nodetype=nodetype)
    try:
        H = _parse('snapshots', lines, directed, delim, nodetype)
    except Exception as e:
        col.violation('C18.delimiter_honoured', cls, True, [], 'parse_snapshots(%r, delimiter=%r) raised %r' % (lines, delim, e), kind='exception:' + e.__class__.__name__, **ex)
        return
    d = presence_diff(H, M, _universe(M, H), _window(M))
    if d or sorted(H.nodes(), key=repr) != sorted(M.nodes, key=repr):
        col.violation('C18.delimiter_honoured', cls, True, [], 'lines %r, delimiter=%r: nodes %r (rows say %r), presence differences %r'
                      % (lines, delim, sorted(H.nodes(), key=repr), sorted(M.nodes, key=repr), d), kind='presence' if d else 'nodes', **ex)


def _c18_type_error(col, fmt, line, delim, nodetype, what):
    """a row with a field that cannot be converted must raise TypeError"""
    f = dn.parse_snapshots if fmt == 'snapshots' else dn.parse_interactions
    ex = dict(repro={'fn': '_c18_type_error', 'args': {'fmt': fmt, 'line': line, 'delim': delim, 'nodetype': nodetype, 'what': what}}, lines=[line], delimiter=delim)
    try:
        f([line], delimiter=delim, nodetype=NODETYPES.get(nodetype), timestamptype=int)
        got = 'no exception'
    except TypeError:
        return
    except Exception as e:
        got = e.__class__.__name__
    col.violation('C18.unconvertible_raises_TypeError', 'DynGraph', True, [], 'parse_%s([%r], nodetype=%s, timestamptype=int): %s field cannot be converted, got %s instead of TypeError'
                  % (fmt, line, nodetype, what, got), kind='%s|%s|%s' % (fmt, what, got), **ex)


def _c18_compact(col, values, container):
    vals = list(values)
    arg = {'list': vals, 'tuple': tuple(vals), 'set': set(vals), 'dict_keys': dict.fromkeys(vals).keys(), 'iterator': iter(vals)}[container]
    ex = dict(repro={'fn': '_c18_compact', 'args': {'values': vals, 'container': container}}, values=vals, container=container)
    try:
        conv = compact_timeslot(arg)
    except Exception as e:
        col.violation('C18.compact_timeslot', 'DynGraph', True, [], 'compact_timeslot(%s %r) raised %r' % (container, vals, e), kind='exception:' + e.__class__.__name__, **ex)
        return
    exp = dict((v, i) for i, v in enumerate(sorted(set(vals))))
    if conv != exp:
        col.violation('C18.compact_timeslot', 'DynGraph', True, [], 'compact_timeslot(%s %r) = %r; the ranks are %r' % (container, vals, conv, exp), kind='not_the_rank_bijection', **ex)
        return
    ks = sorted(conv)
    if sorted(conv.values()) != list(range(len(ks))) or any(conv[a] >= conv[b] for a, b in zip(ks, ks[1:])):
        col.violation('C18.compact_timeslot', 'DynGraph', True, [], 'compact_timeslot(%r) = %r is not a strictly increasing bijection onto 0..k-1' % (vals, conv), kind='not_increasing_bijection', **ex)


@_needs_tmp
def _keys_outcome(fmt, directed, delim, items, eol):
    """None when keys=True reads the graph of the rank-substituted valid rows, else (symptom, detail)"""
    valid = [it['fields'] for it in items if it.get('fields') is not None]
    if fmt == 'snapshots':
        stamps = sorted(set(x for r in valid for x in r[2:] if x is not None))
    else:
        stamps = sorted(set(r[3] for r in valid))
    rank = dict((t, i) for i, t in enumerate(stamps))
    if fmt == 'snapshots':
        M = Model(directed, True)
        for r in valid:
            M.add(r[0], r[1], rank[r[2]], rank[r[3]] if len(r) > 3 and r[3] is not None else None)
    else:
        M = log_model(directed, [(r[0], r[1], r[2], rank[r[3]]) for r in valid])
    text = ''.join(it['text'] + eol for it in items)
    path = _tmp().path()
    try:
        with open(path, 'wb') as f:
            f.write(text.encode('utf-8'))
        reader = dn.read_snapshots if fmt == 'snapshots' else dn.read_interactions
        try:
            H = reader(path, directed=directed, delimiter=delim, nodetype=int, timestamptype=int, keys=True)
        except Exception as e:
            return ('exception', 'read_%s(file %r, delimiter=%r, nodetype=int, timestamptype=int, keys=True) raised %r; expected the graph of the '
                    'valid rows with each timestamp replaced by its rank %r' % (fmt, text, delim, e, rank))
    finally:
        if os.path.exists(path):
            os.remove(path)
    d = presence_diff(H, M, _universe(M, H), list(range(-2, len(stamps) + 3)), limit=6)
    if d:
        return ('presence', 'read_%s(file %r, delimiter=%r, keys=True): has_interaction%r = %r; with ranks %r the rows say %r (presence %r; differences %r)'
                % (fmt, text, delim, d[0][:3], d[0][3], rank, d[0][4], dict((k, sorted(S)) for k, S in M.pres.items()), d))
    if sorted(H.nodes(), key=repr) != sorted(M.nodes, key=repr):
        return ('nodes', 'read_%s(file %r, keys=True): nodes %r, the rows say %r' % (fmt, text, sorted(H.nodes()), sorted(M.nodes)))
    return None


def _c18_keys(col, fmt, directed, delim, items, eol='\n'):
    """keys=True on a real file: the graph read is the one described by the valid rows with every timestamp replaced by
    its rank among the distinct timestamps of (the valid rows of) the file.  The kind of a violation names its cause: the
    noise item when the same file without noise reads correctly, else the kinds of rows in the file"""
    out = _keys_outcome(fmt, directed, delim, items, eol)
    if out is None:
        return
    noise = '+'.join(sorted(set(it['noise'] for it in items if it.get('noise'))))
    cause = None
    if noise:
        bare = [dict(it, text=it['clean'], noise=None) for it in items if it.get('clean') is not None]
        if _keys_outcome(fmt, directed, delim, bare, eol) is None:
            cause = 'noise=' + noise
    if cause is None:
        cause = 'rows=' + '+'.join(sorted(set(it['kind'].split('+')[0] for it in items if it.get('fields') is not None)))
    args = {'fmt': fmt, 'directed': directed, 'delim': delim, 'items': items, 'eol': eol}
    col.violation('C18.keys_rank_substitution', _cls(directed), True, [], out[1], kind='%s|%s' % (fmt, cause), symptom=out[0],
                  repro={'fn': '_c18_keys', 'args': args}, file_text=''.join(it['text'] + eol for it in items), delimiter=delim)


SNAP_BASES = [
    [(1, 2, 0), (2, 3, 1), (1, 2, 1)],
    [(1, 2, 0, 3), (2, 1, 5), (1, 1, 2, 4)],
    [(2, 1, -2), (1, 3, 0, 2), (2, 1, 4, 6), (3, 1, 7)],
    [(1, 2, 0, 2, 9), (2, 3, 1)],                       # a row with an extra (fifth) column stays a row in both files
]
LOG_BASES = [
    [(1, 2, '+', 0), (2, 3, '+', 1), (1, 2, '-', 3)],
    [(1, 2, '+', 0), (1, 2, '-', 2), (1, 2, '+', 4), (1, 2, '-', 7), (2, 1, '+', 7)],
    [(1, 1, '+', -1), (1, 3, '+', 0), (1, 3, '-', 3)],
]
KEY_SNAP_BASES = [
    [(1, 2, 3)],
    [(1, 2, 10), (2, 3, 20), (1, 2, 30)],
    [(1, 2, -5), (1, 2, -4), (2, 1, 7), (3, 1, 7)],
    [(1, 2, 3, 4)],
    [(1, 2, 10, 30), (2, 3, 20)],
    [(1, 2, 10, 20), (2, 3, 20), (1, 3, 30, 40)],
    [(1, 2, 0, 5), (1, 2, 5, 9), (2, 3, 2, 100)],
]
KEY_LOG_BASES = [
    [(1, 2, '+', 10)],
    [(1, 2, '+', 10), (2, 3, '+', 20), (1, 2, '-', 30)],
    [(1, 2, '+', -3), (1, 2, '-', -1), (1, 2, '+', 5), (2, 3, '+', 5), (2, 3, '-', 40)],
]


def _random_snap_rows(rng, directed, n, t_choices):
    M, rows = Model(directed, True), []
    while len(rows) < n:
        u, v = rng.choice(((1, 2), (2, 1), (1, 1), (2, 3), (3, 1)))
        t = rng.choice(t_choices)
        e = rng.choice([None, None] + [x for x in t_choices if x > t][:2])
        if M.rejects(u, v, t, e):
            continue
        M.add(u, v, t, e)
        rows.append((u, v, t) if e is None else (u, v, t, e))
    return rows


def c18_reader_noise_and_compaction(tier, seed):
    global _TMP
    col = KindCollector(by_class=False, rule=
        'row grammar: valid rows (3/4/5-column snapshot rows over accepted row sequences; event rows of well-formed logs), comment lines (incl. indented, '
        'with row-like text), empty and whitespace-only lines, rows with too few fields (1-2 fields, unconvertible short rows, rows written with another '
        'delimiter, short rows with a trailing comment; for interactions also 3- and 5-field rows), trailing comments on valid rows; delimiters '
        "{None,' ',',','\\t',';'}, line ends {'\\n','','\\r\\n'}, comment marker {'#','%'}; (a) every single noise item inserted at every position of 4 snapshot and 3 "
        'interaction base files x delimiter x line end x class, and a trailing comment on every row, (b) seeded random line sequences mixing several '
        'noise items; the noisy file must parse (parse_snapshots / parse_interactions) to the same nodes, presence relation and stream as its valid rows '
        "alone; rows joined by each delimiter (node ids containing other separators under ',' and ';') against the presence model; every unconvertible node / "
        'timestamp / end field must raise TypeError.  compact_timeslot on all subsets of -3..3 and seeded random subsets of -1000..1000 (<=12 elements) in 5 '
        'container kinds and shuffled orders against the rank map.  keys=True: read_snapshots / read_interactions on real files (7+3 base files with gaps and '
        'negative timestamps + random ones, 3- and 4-column rows, 4 delimiters, no noise / comment line / empty line / whitespace line / trailing comment / '
        'short row) against the model of the rank-substituted rows.  evaluation = one file or one set; distinct non-trivial = distinct (format, class, '
        'delimiter, line sequence) containing at least one valid row and (for noise checks) one noise item, resp. distinct timestamp set of >=2 elements')
    rng = random.Random(seed * 977 + 11)
    delims = (None, ' ', ',', '\t', ';')
    with _Tmp() as tmp:
        _TMP = tmp
        try:
            # ---- (a) single noise item at every position, trailing comment on every row
            for fmt, bases in (('snapshots', SNAP_BASES), ('interactions', LOG_BASES)):
                for bi, base in enumerate(bases):
                    for delim in delims:
                        for eol in ('\n', '', '\r\n'):
                            for directed in (False, True):
                                rows = [_row_item(r, delim, bi) for r in base]
                                cases = []
                                for nz in _noise_catalog(delim, fmt):
                                    for pos in range(len(rows) + 1):
                                        cases.append(rows[:pos] + [nz] + rows[pos:])
                                for pos in range(len(rows)):
                                    for trail in ('#c', ' # 9 9 9', ' #', '\t# x y + z', ' # see issue #12', ' ## twice', '# a # 1 2 3'):
                                        cases.append(rows[:pos] + [_row_item(base[pos], delim, bi, trail)] + rows[pos + 1:])
                                for items in cases:
                                    col.seen((fmt, directed, delim, eol, tuple(it['text'] for it in items)), True,
                                             {'format': fmt, 'delimiter': delim, 'lines': [it['text'] + eol for it in items]})
                                    _c18_noise(col, fmt, directed, delim, items, 'int', eol, '#')
            # ---- (b) random mixtures
            for i in range(1200 if tier == 'quick' else 12000):
                fmt = ('snapshots', 'interactions')[i % 2]
                directed, delim, eol = rng.random() < 0.5, rng.choice(delims), rng.choice(('\n', '\n', '', '\r\n'))
                marker = rng.choice(('#', '#', '%'))
                if fmt == 'snapshots':
                    base = _random_snap_rows(rng, directed, rng.randint(1, 4), list(range(-1, 6)))
                else:
                    base = _random_log(rng, directed, [(1, 2), (2, 1), (2, 3), (1, 1)], rng.randint(2, 6), 8) or [(1, 2, '+', 0)]
                cat = _noise_catalog(delim, fmt, marker)
                items = []
                for r in base:
                    while rng.random() < 0.45:
                        items.append(rng.choice(cat))
                    items.append(_row_item(r, delim, i, rng.choice((None, None, marker + 'c', ' ' + marker + ' 9 9 9'))))
                while rng.random() < 0.45:
                    items.append(rng.choice(cat))
                col.seen((fmt, directed, delim, eol, marker, tuple(it['text'] for it in items)), any(it.get('noise') for it in items),
                         {'format': fmt, 'delimiter': delim, 'lines': [it['text'] + eol for it in items]})
                _c18_noise(col, fmt, directed, delim, items, 'int', eol, marker)
            # ---- the delimiter is honoured
            str_rows = {',': [('a b', 'c', 0), ('c', 'a b', 2, 4), ('d;e', 'a b', 1)], ';': [('a b', 'c,d', 0, 2), ('c,d', 'e', 1)],
                        '\t': [('a b', 'c', 0), ('c', 'd,e', 1, 3)], ' ': [('a,b', 'c;d', 0), ('c;d', 'e', 1, 3)], None: [('a,b', 'c;d', 0), ('c;d', 'e', 1, 3)]}
            for delim in delims:
                for directed in (False, True):
                    for variant in range(3 if delim is None else 1):
                        for base in SNAP_BASES[:3]:
                            col.seen(('delim', directed, delim, variant, repr(base)), True)
                            _c18_delimiter(col, directed, delim, [list(r) for r in base], 'int', variant)
                        col.seen(('delim', directed, delim, variant, 'str'), True)
                        _c18_delimiter(col, directed, delim, [list(r) for r in str_rows[delim]], 'none', variant)
            # ---- unconvertible fields
            for delim in delims:
                j = _jd(delim)
                for fmt, what, fields in (('snapshots', 'node u', ('x', '2', '3')), ('snapshots', 'node v', ('1', 'y', '3')), ('snapshots', 'timestamp t', ('1', '2', 'z')),
                                          ('snapshots', 'end e', ('1', '2', '3', 'z')), ('snapshots', 'timestamp t (4 columns)', ('1', '2', 'z', '4')),
                                          ('snapshots', 'timestamp t (float text)', ('1', '2', '3.5')),
                                          ('interactions', 'node u', ('x', '2', '+', '3')), ('interactions', 'node v', ('1', 'y', '+', '3')),
                                          ('interactions', 'timestamp t', ('1', '2', '+', 'z')), ('interactions', "timestamp t of '-'", ('1', '2', '-', 'z'))):
                    col.seen(('typeerror', fmt, what, delim), True)
                    _c18_type_error(col, fmt, j.join(fields) + '\n', delim, 'int', what)
                    if what.startswith('node'):
                        # converters that fail with something other than ValueError (KeyError from a lookup table, ArithmeticError)
                        col.seen(('typeerror-lookup', fmt, what, delim), True)
                        _c18_type_error(col, fmt, j.join(fields) + '\n', delim, 'lookup', what + ' (converter raises KeyError)')
                        _c18_type_error(col, fmt, j.join(('-5' if f in ('x', 'y') else f) for f in fields) + '\n', delim, 'positive', what + ' (converter raises ArithmeticError)')
            # ---- compact_timeslot
            universe = list(range(-3, 4))
            sets = [list(c) for n in range(0, 8) for c in itertools.combinations(universe, n)]
            for _ in range(400 if tier == 'quick' else 5000):
                sets.append(rng.sample(range(-1000, 1001), rng.randint(1, 12)))
            for i, vals in enumerate(sets):
                for container in ('list', 'tuple', 'set', 'dict_keys', 'iterator'):
                    shuffled = list(vals)
                    rng.shuffle(shuffled)
                    col.seen(('compact', frozenset(vals)), len(vals) >= 2)
                    _c18_compact(col, shuffled, container)
            # ---- keys=True on real files
            files = [('snapshots', b) for b in KEY_SNAP_BASES] + [('interactions', b) for b in KEY_LOG_BASES]
            stamps = [-40, -7, -1, 0, 3, 4, 10, 11, 50, 1000]
            for i in range(60 if tier == 'quick' else 600):
                if i % 3 < 2:
                    files.append(('snapshots', _random_snap_rows(rng, i % 2 == 0, rng.randint(1, 4), sorted(rng.sample(stamps, 5)))))
                else:
                    log = _random_log(rng, i % 2 == 0, [(1, 2), (2, 1), (2, 3)], rng.randint(2, 5), 6)
                    sub = sorted(rng.sample(stamps, 7))
                    files.append(('interactions', [(u, v, op, sub[t]) for (u, v, op, t) in log] or [(1, 2, '+', 5)]))
            for fi, (fmt, base) in enumerate(files):
                for delim in (None, ' ', ',', '\t'):
                    for directed in ((False, True) if fi < len(KEY_SNAP_BASES) + len(KEY_LOG_BASES) else (fi % 2 == 0,)):
                        rows = [_row_item(r, delim) for r in base]
                        j = _jd(delim)
                        variants = [rows,
                                    [{'kind': 'comment', 'text': '# header', 'clean': None, 'noise': 'comment'}] + rows,
                                    rows + [{'kind': 'empty', 'text': '', 'clean': None, 'noise': 'empty'}],
                                    rows[:1] + [{'kind': 'whitespace', 'text': '  ', 'clean': None, 'noise': 'whitespace'}] + rows[1:],
                                    [_row_item(base[0], delim, 0, ' # note')] + rows[1:],
                                    rows + [{'kind': 'short_row', 'text': j.join(('8', '9')), 'clean': None, 'noise': 'short_row'}],
                                    # rows the parser of this format skips, carrying a timestamp-like last field that is distinct
                                    # from (and smaller than some of) the real ones: they must not take a rank
                                    rows[:1] + [{'kind': 'wrong_arity_row', 'text': j.join(('8', '9', '+', '-5', 'x') if fmt == 'interactions' else ('8', '9')),
                                                 'clean': None, 'noise': 'wrong_arity_row'}] + rows[1:],
                                    rows[:1] + [{'kind': 'three_field_row', 'text': j.join(('8', '9', '-6')), 'clean': None, 'noise': 'three_field_row'}] + rows[1:]
                                    if fmt == 'interactions' else rows,
                                    # one timestamp VALUE spelled two ways ('5' and '05'): a rank is taken per distinct value
                                    rows + [_respell(base[-1], delim)]]
                        for items in variants:
                            col.seen(('keys', fmt, directed, delim, tuple(it['text'] for it in items)), len(base) >= 2)
                            _c18_keys(col, fmt, directed, delim, items)
        finally:
            _TMP = None
    return col.result(bound='files of <=6 valid rows and <=8 noise lines over <=3 nodes; timestamp sets of <=12 integers in -1000..1000')


# =============================================================================================== replay

def replay(v):
    """re-run the check that produced violation `v` on the real code: 1 if it still fails, 0 otherwise"""
    r = v.get('repro') or {}
    fn = globals().get(r.get('fn', ''))
    if fn is None or not r.get('fn', '').startswith('_c'):
        print('parts_io.replay: no reproduction recipe in %r' % (v.get('check'),))
        return 0
    col = KindCollector('replay')
    fn(col, **r['args'])
    same = [x for x in col.violations if x['check'] == v['check'] and x.get('kind') == v.get('kind')]
    if not same:          # the failure may have changed shape (e.g. another exception): same check is enough to count as still failing
        same = [x for x in col.violations if x['check'] == v['check']]
    if same:
        print('STILL FAILS %s [%s] %s: %s' % (v['check'], v.get('kind'), v.get('class'), same[0]['detail'][:300]))
        return 1
    print('no longer fails: %s [%s] %s' % (v['check'], v.get('kind'), v.get('class')))
    return 0
