"""Bounded stand-in parts for the path / conformity properties C12, C13, C14, C15 and C20.

Oracles are written from the property texts (never from dynetx/algorithms/*.py):

* `Ctx`            presence of a built graph as the Model (core.py) defines it, indexed per instant
* `brute_paths`    brute-force enumeration of all hop sequences that satisfy the conditions of C12
* `path_problems`  the conditions of C12 checked clause by clause on one returned path (independent of brute_paths)
* `dag_problems`   the clauses of C15 on one result of temporal_dag
* `annotate_problems`  the clauses of C14 on one list of paths
* `conformity_*`   the clauses of C20

Every part is `part(tier, seed) -> {'coverage': {...}, 'violations': [...]}` like the parts of parts_core.py.
`replay(v)` re-runs one recorded violation against the real code (1 = still fails, 0 = no longer fails).

Readings chosen where the property texts leave a choice (always the reading under which the real code is right on
simple examples); they are repeated in the coverage rules:

R1  a path may leave u at any snapshot id t1 with start <= t1 <= end at which u has an (outgoing) interaction;
    "u present at start" (u has an interaction, of any direction, at the explicitly given `start`) is only the
    precondition for a non-empty result.  When `start` is omitted there is no such precondition.
R2  paths are not required to be node-simple: a node (also u or v) may be visited several times; the only local
    restriction is "no hop immediately reverses the previous one".
R3  waiting: an intermediate node that arrives at t_i and departs at t_{i+1} needs an interaction (outgoing on
    directed graphs; a self-loop counts) at every snapshot id q of G with t_i < q < t_{i+1}; nothing is required
    at t_i and t_{i+1} themselves beyond the hops.
R4  C15 "s < t unless X@s is a source occurrence of u (then s = t)": an edge is accepted when s < t, or when X@s is
    one of the returned sources, X = u and s = t (a source occurrence that is also reached keeps its s < t edges).
R5  C15 "over time-stamped node occurrences": the bare root id u that temporal_dag leaves in the DAG as an isolated
    node is tolerated (it carries no edge); any other node that is not an occurrence 'X_t' is reported.
R6  C15 targets: every target must be a DAG node, an occurrence of v when v is given, and reached (in-degree > 0);
    the text does not ask that *all* reached occurrences are listed, so that is not demanded.
"""
import contextlib
import io
import itertools
import random

import networkx as nx
import numpy as np
import dynetx as dn
import dynetx.algorithms as al

from .core import Model, apply_call, new_graph, state_key, Collector

ABSENT = 9                      # node id that never occurs in a generated graph ("unreachable target")
PATH_TYPES = ('shortest', 'fastest', 'foremost', 'fastest_shortest', 'shortest_fastest')
EPS = 1e-9


# ------------------------------------------------------------------------------------------------ plumbing

@contextlib.contextmanager
def quiet():
    """all_time_respecting_paths draws a tqdm bar on stderr"""
    with contextlib.redirect_stderr(io.StringIO()):
        yield


@contextlib.contextmanager
def masked_d17():
    """DIAGNOSTIC ONLY (never used by the parts unless the environment variable BOUNDED_MASK_D17=1 is set, and then the
    coverage record says so): hides the IndexError of time_respecting_paths by dropping the one-node 'paths' that
    networkx >= 3.2 yields for source == target, so that what the crash masks can be looked at.  /repo is not touched:
    only the name `nx` inside dynetx.algorithms.paths is rebound for the duration of the block."""
    import dynetx.algorithms.paths as pm

    class Shim(object):
        DiGraph = nx.DiGraph

        @staticmethod
        def all_simple_paths(G, a, b):
            return (p for p in nx.all_simple_paths(G, a, b) if len(p) > 1)
    old = pm.nx
    pm.nx = Shim
    try:
        yield
    finally:
        pm.nx = old


def _masking(part):
    """decorator: run the part under masked_d17() when BOUNDED_MASK_D17=1"""
    import functools
    import os

    @functools.wraps(part)
    def run(tier, seed):
        if os.environ.get('BOUNDED_MASK_D17') == '1':
            with masked_d17():
                res = part(tier, seed)
            res['coverage']['masked_D17'] = True
            res['coverage']['label'] += ' -- DIAGNOSTIC RUN with the IndexError of time_respecting_paths masked'
            return res
        return part(tier, seed)
    return run


def _t(x):
    """lists (after a JSON round trip) back to tuples, recursively"""
    if isinstance(x, (list, tuple)):
        return tuple(_t(y) for y in x)
    return x


def _l(x):
    if isinstance(x, (list, tuple, set, frozenset)):
        return [_l(y) for y in (sorted(x, key=repr) if isinstance(x, (set, frozenset)) else x)]
    return x


def runs_of(S):
    """maximal runs [(s, e)] (inclusive) of a set of integers"""
    out = []
    for q in sorted(S):
        if out and out[-1][1] + 1 == q:
            out[-1][1] = q
        else:
            out.append([q, q])
    return [tuple(r) for r in out]


def history_of(pres):
    """presence relation {pair: set of instants} -> list of ('add', u, v, t, e) calls: one call per maximal run,
    a point add for a single instant, an interval add [s, e+1) for a longer run"""
    h = []
    for k in sorted(pres, key=repr):
        for (s, e) in runs_of(pres[k]):
            h.append(('add', k[0], k[1], s, None if s == e else e + 1))
    return h


def cells(history):
    return sum(1 if c[4] is None else c[4] - c[3] for c in history)


def build(cls, history, node_attrs=None):
    """(G, M, ok): the graph built through the public API and the presence model; ok is False when a call did not
    behave as documented (then the state is not used: kernel defects are the business of C01..C08)"""
    G = new_graph(cls, True)
    M = Model(cls == 'DynDiGraph', True)
    if node_attrs:
        for n, d in node_attrs.items():
            G.add_node(n, **d)
    ok = True
    for i, c in enumerate(history):
        got, exp = apply_call(G, M, tuple(_t(c)))
        ok = ok and got == exp == 'ok'
        if i + 1 < len(history) and i < 2:
            _probe_between_calls(G)
    return G, M, ok


def _probe_between_calls(G):
    """queries issued while the graph is still being built: whatever the path algorithms memoise (per graph object, per node, per
    instant) must not survive the next add_interaction"""
    from dynetx.algorithms import paths as P
    try:
        u = next(iter(G.nodes()))
        with quiet():
            P.temporal_dag(G, u)
    except Exception:
        pass


class Ctx(object):
    """the presence model indexed for the oracles: adj[q][a] = set of b with a-b (a->b) present at q"""

    def __init__(self, M):
        self.directed = M.directed
        self.ids = M.instants()
        self.adj = {q: {} for q in self.ids}
        self.inc = {q: set() for q in self.ids}
        self.nodes = sorted(M.nodes, key=repr)
        self.selfloop = False
        self.memo = {}
        for (a, b), S in M.pres.items():
            if a == b and S:
                self.selfloop = True
            for q in S:
                self.adj[q].setdefault(a, set()).add(b)
                if not M.directed:
                    self.adj[q].setdefault(b, set()).add(a)
                self.inc[q].update((a, b))

    def out(self, n, q):
        return self.adj.get(q, {}).get(n, ())

    def present(self, n, q):
        return n in self.inc.get(q, ())

    def window(self, start, end):
        if not self.ids:
            return None, None, []
        s0 = self.ids[0] if start is None else start
        e0 = self.ids[-1] if end is None else end
        return s0, e0, [q for q in self.ids if s0 <= q <= e0]


def kernel_agrees(G, ctx):
    """the real graph shows the presence the model says (otherwise the state is skipped, see build)"""
    if G.temporal_snapshots_ids() != ctx.ids:
        return False
    for q in ctx.ids:
        for n in ctx.nodes:
            try:
                got = set(G.neighbors(n, q))
            except Exception:
                return False
            if got != set(ctx.out(n, q)):
                return False
            if bool(G.has_node(n, q)) != ctx.present(n, q):
                return False
    return True


class Kinds(object):
    """per (check, class): number of occurrences and the smallest reproductions; flushed into the Collector so that
    every distinct kind of violation is reported with a minimal witness"""

    def __init__(self, col, per_kind=2):
        self.col, self.per_kind = col, per_kind
        self.best, self.count = {}, {}

    def add(self, check, cls, history, detail, **extra):
        key = (check, cls)
        self.count[key] = self.count.get(key, 0) + 1
        size = (cells(history) if history else len(extra.get('paths', ())), len(history),
                sum(1 for k in ('v', 'start', 'end', 'min_t') if extra.get(k) is not None))
        lst = self.best.setdefault(key, [])
        if len(lst) < self.per_kind or size < lst[-1][0]:
            lst.append((size, list(history), detail, extra))
            lst.sort(key=lambda x: x[0])
            del lst[self.per_kind:]

    def flush(self):
        for rank in range(self.per_kind):
            for key in sorted(self.best):
                lst = self.best[key]
                if rank < len(lst):
                    size, h, detail, extra = lst[rank]
                    self.col.violation(key[0], key[1], True, h, detail, occurrences=self.count[key],
                                       **{k: _l(x) for k, x in extra.items()})


# ------------------------------------------------------------------------------------------------ enumerators

def subsets(T):
    return [frozenset(c) for n in range(len(T) + 1) for c in itertools.combinations(T, n)]


def all_relations(pairs, T, max_present=None, max_cells=None):
    """every presence relation over `pairs` x `T` (restricted to <= max_present pairs ever present and <= max_cells
    (pair, instant) cells), smallest first; the empty relation is left out"""
    ne = [s for s in subsets(T) if s]
    out = []
    kmax = len(pairs) if max_present is None else min(max_present, len(pairs))
    for k in range(1, kmax + 1):
        for ps in itertools.combinations(pairs, k):
            for ss in itertools.product(ne, repeat=k):
                if max_cells is not None and sum(map(len, ss)) > max_cells:
                    continue
                out.append(dict(zip(ps, ss)))
    out.sort(key=lambda r: sum(len(s) for s in r.values()))
    return out


def random_relation(rng, pairs, T, density):
    r = {}
    for p in pairs:
        S = frozenset(q for q in T if rng.random() < density)
        if S:
            r[p] = S
    return r


def und_pairs(nodes, loops=False):
    ps = list(itertools.combinations(nodes, 2))
    return ps + ([(n, n) for n in nodes] if loops else [])


def dir_pairs(nodes, loops=False):
    ps = [(a, b) for a in nodes for b in nodes if a != b]
    return ps + ([(n, n) for n in nodes] if loops else [])


def rename(rel, mapping):
    return {(mapping[a], mapping[b]): S for (a, b), S in rel.items()}


STR = {1: 'a', 2: 'b', 3: 'c', 4: 'd', 5: 'e'}
T0 = (0, 1, 2)
T_VARIANTS = ((10, 11, 12), (-3, -2, -1), (-1, 0, 1), (0, 2, 5), (1, 3, 4), (-4, -2, -1))


def path_universe(tier, seed, heavy=True):
    """yield (cls, relation, tag).  The spaces, in this order:
      A  DynGraph, nodes {1,2,3}, instants {0,1,2}: every presence relation (511)                     -- complete
      B  DynDiGraph, nodes {1,2,3}, instants {0,1,2}: quick: every relation with <= 2 ordered pairs ever present (777);
         thorough: every relation with <= 3 ordered pairs present and <= 5 (pair, instant) cells (5082) -- complete
      C  self-loops: nodes {1,2,3}, pairs (1,1),(1,2),(2,3) [+ (2,1),(2,2) directed], instants {0,1,2}, every relation
         in which a self-loop is present; quick: <= 4 cells (directed <= 3); thorough: all (directed <= 4 cells) -- complete
      D  the relations of A / B with <= 2 cells (thorough, undirected: <= 3 cells) moved to the instant sets
         (10,11,12) (-3,-2,-1) (-1,0,1) (0,2,5) (1,3,4) (-4,-2,-1) and to string ids 'a','b','c'        -- complete
      G  the relations of A / B with <= 3 cells on the instants (1,11,12) with node ids (1,11,2) and ('a','a1','a11')   -- complete
      E  seeded random relations: directed 3 nodes x 3 instants with >= 3 pairs; both classes 4 nodes x 4 instants
         (quick: 100 + 100; thorough 1000 + 1000, plus 300 on 5 nodes x instants (0,1,2,3,5))          -- sampled
    """
    rng = random.Random(seed * 104729 + 7)
    N3 = (1, 2, 3)
    A = all_relations(und_pairs(N3), T0)
    for r in A:
        yield 'DynGraph', r, 'A'
    B = all_relations(dir_pairs(N3), T0, max_present=2 if tier == 'quick' else 3, max_cells=None if tier == 'quick' else 5)
    for r in B:
        yield 'DynDiGraph', r, 'B'
    for cls, pairs in (('DynGraph', [(1, 1), (1, 2), (2, 3)]), ('DynDiGraph', [(1, 1), (1, 2), (2, 1), (2, 3), (2, 2)])):
        for r in all_relations(pairs, T0, max_cells=(4 if cls == 'DynGraph' else 3) if tier == 'quick' else (None if cls == 'DynGraph' else 4)):
            if any(a == b for (a, b) in r):
                yield cls, r, 'C'
    for cls, base in (('DynGraph', A), ('DynDiGraph', B)):
        small = [r for r in base if sum(map(len, r.values())) <= (2 if tier == 'quick' or cls == 'DynDiGraph' else 3)]
        for T in T_VARIANTS:
            tmap = dict(zip(T0, T))
            for r in small:
                yield cls, {p: frozenset(tmap[q] for q in S) for p, S in r.items()}, 'D'
        for r in small:
            yield cls, rename(r, STR), 'D'
        # G  confusable ids and instants: node ids that are prefixes of one another and instants whose decimal form continues
        #    them (node 1 at instant 11 / node 11 at instant 1; 'a' at 11 / 'a1' at 1), relations with <= 3 cells   -- complete
        small3 = [r for r in base if sum(map(len, r.values())) <= 3]
        tmap = dict(zip(T0, (1, 11, 12)))
        for nmap in ({1: 1, 2: 11, 3: 2}, {1: 'a', 2: 'a1', 3: 'a11'}):
            for r in small3:
                yield cls, rename({p: frozenset(tmap[q] for q in S) for p, S in r.items()}, nmap), 'G'
    if not heavy:
        return
    n = 100 if tier == 'quick' else 1000
    for _ in range(n):
        r = random_relation(rng, dir_pairs(N3), T0, rng.choice((0.3, 0.5)))
        if len(r) >= 3:
            yield 'DynDiGraph', r, 'E'
    N4, T4 = (1, 2, 3, 4), (0, 1, 2, 3)
    for _ in range(n):
        cls = rng.choice(('DynGraph', 'DynDiGraph'))
        r = random_relation(rng, und_pairs(N4) if cls == 'DynGraph' else dir_pairs(N4), T4, rng.choice((0.15, 0.3)))
        if r:
            yield cls, r, 'E'
    # F  planted walks: a random walk of 3..6 hops over 4-5 nodes with strictly increasing times (one point interaction per
    #    hop, no immediate reversal), plus up to 2 random extra cells: long time-respecting paths that revisit nodes
    #    (a cycle through the target, a return to the source) exist by construction                      -- sampled
    for k in range(160 if tier == 'quick' else 1500):
        cls = ('DynGraph', 'DynDiGraph')[k % 2]
        nodes = (1, 2, 3, 4) if k % 3 else (1, 2, 3, 4, 5)
        hops = rng.randint(3, 6)
        walk = [rng.choice(nodes)]
        while len(walk) <= hops:
            nxt = rng.choice([x for x in nodes if x != walk[-1] and (len(walk) < 2 or x != walk[-2])])
            walk.append(nxt)
        times = sorted(rng.sample(range(0, hops + 2), hops))
        r = {}
        for (a, b), q in zip(zip(walk, walk[1:]), times):
            key = (a, b) if cls == 'DynDiGraph' else tuple(sorted((a, b)))
            r[key] = frozenset(set(r.get(key, ())) | {q})
        for _ in range(rng.randint(0, 2)):
            a, b = rng.sample(nodes, 2)
            key = (a, b) if cls == 'DynDiGraph' else tuple(sorted((a, b)))
            r[key] = frozenset(set(r.get(key, ())) | {rng.randint(0, hops + 1)})
        yield cls, r, 'F'
    if tier != 'quick':
        N5, T5 = (1, 2, 3, 4, 5), (0, 1, 2, 3, 5)
        for _ in range(300):
            cls = rng.choice(('DynGraph', 'DynDiGraph'))
            r = random_relation(rng, und_pairs(N5) if cls == 'DynGraph' else dir_pairs(N5), T5, rng.choice((0.1, 0.18)))
            if r:
                yield cls, r, 'E'


def windows(ids, invalid=False):
    """(start, end) pairs: None and every integer of [first id, last id] (gap instants included), start <= end;
    with invalid=True also one instant outside on each side and start > end"""
    lo, hi = ids[0], ids[-1]
    vals = [None] + list(range(lo - (1 if invalid else 0), hi + 1 + (1 if invalid else 0)))
    out = []
    for s in vals:
        for e in vals:
            if not invalid and s is not None and e is not None and s > e:
                continue
            out.append((s, e))
    return out


# ------------------------------------------------------------------------------------------------ oracle: paths

def brute_paths(ctx, u, v, start, end):
    """every hop sequence that satisfies the conditions of C12 (readings R1-R3), as a set of tuples of hops"""
    s0, e0, W = ctx.window(start, end)
    key = (u, s0, e0)
    if key not in ctx.memo:
        ctx.memo[key] = _brute_from(ctx, u, W)
    out = ctx.memo[key]
    return set(out if v is None else [p for p in out if p[-1][1] == v])


def _brute_from(ctx, u, W):
    out = []

    def extend(path, a, b, i):
        out.append(tuple(path))
        for j in range(i + 1, len(W)):
            nb = ctx.out(b, W[j])
            for c in sorted(nb, key=repr):
                if c == a:                      # (b, a) would immediately reverse (a, b)
                    continue
                path.append((b, c, W[j]))
                extend(path, b, c, j)
                path.pop()
            if not nb:                          # b idle at W[j]: it cannot wait beyond that snapshot
                break

    for i, q in enumerate(W):
        for b in sorted(ctx.out(u, q), key=repr):
            extend([(u, b, q)], u, b, i)
    return out


def expected_paths(ctx, u, v, start, end):
    """C13: the brute-force set, empty when `start` is given and u has no interaction at it (R1)"""
    if start is not None and not ctx.present(u, start):
        return set()
    return brute_paths(ctx, u, v, start, end)


def group(paths):
    d = {}
    for p in paths:
        d.setdefault((p[0][0], p[-1][1]), set()).add(p)
    return d


def path_problems(ctx, p, u, v, start, end):
    """clauses of C12 on one returned path -> [(clause, detail)]"""
    s0, e0, W = ctx.window(start, end)
    pr = []
    if not isinstance(p, tuple):
        pr.append(('path_not_tuple', 'path %r is a %s' % (p, type(p).__name__)))
    if len(p) == 0:
        return pr + [('empty_path', 'empty path returned')]
    for h in p:
        if not (isinstance(h, tuple) and len(h) == 3):
            return pr + [('hop_shape', 'hop %r is not a triple (a,b,t)' % (h,))]
        if type(h[2]) is not int:
            pr.append(('hop_shape', 'hop time %r is a %s' % (h[2], type(h[2]).__name__)))
    if p[0][0] != u:
        pr.append(('first_hop_not_from_u', 'path %r does not leave %r' % (p, u)))
    for i, (a, b, t) in enumerate(p):
        if not (s0 <= t <= e0):
            pr.append(('time_outside_window', 'hop %r of %r lies outside [%r,%r]' % ((a, b, t), p, s0, e0)))
        if b not in ctx.out(a, t):
            pr.append(('hop_not_present', 'hop %r of %r is not an interaction present at %r' % ((a, b, t), p, t)))
        if i:
            pa, pb, pt = p[i - 1]
            if pb != a:
                pr.append(('hops_do_not_chain', 'hops %r, %r of %r do not chain' % (p[i - 1], p[i], p)))
            if not pt < t:
                pr.append(('times_not_increasing', 'hops %r, %r of %r: times do not strictly increase' % (p[i - 1], p[i], p)))
            if a == pb and b == pa:
                pr.append(('immediate_reversal', 'hop %r of %r reverses the previous hop' % (p[i], p)))
            for q in ctx.ids:
                if pt < q < t and not ctx.out(pb, q):
                    pr.append(('waiting_node_idle', 'node %r of %r arrives at %r, leaves at %r and has no interaction at snapshot %r'
                               % (pb, p, pt, t, q)))
    if v is not None and p[-1][1] != v:
        pr.append(('last_hop_not_v', 'path %r does not reach %r' % (p, v)))
    return pr


def result_problems(ctx, res, u, v, start, end, source_of_key=None):
    """C12 on a whole result of time_respecting_paths (source_of_key None) or all_time_respecting_paths"""
    pr = []
    if not res:
        return pr, 0
    if not isinstance(res, dict):
        return [('result_shape', 'non-empty result %r is not a dict' % (res,))], 0
    n = 0
    for k, lst in res.items():
        if not (isinstance(k, tuple) and len(k) == 2):
            pr.append(('key_shape', 'key %r is not a pair' % (k,)))
            continue
        if len(lst) != len(set(map(_t, lst))):
            pr.append(('duplicate_path', 'duplicates under key %r: %r' % (k, lst)))
        for p in lst:
            n += 1
            src = u if source_of_key is None else k[0]
            pr.extend(path_problems(ctx, p, src, v, start, end))
            if len(p) and (p[0][0], p[-1][1]) != k:
                pr.append(('key_mismatch', 'path %r stored under key %r' % (p, k)))
    return pr, n


def call_trp(G, u, v, start, end, sample=1):
    """(result, exception name or None)"""
    try:
        return al.time_respecting_paths(G, u, v, start, end, sample), None
    except Exception as ex:
        return None, ex.__class__.__name__


def call_all(G, start, end, min_t, sample=1):
    try:
        with quiet():
            return al.all_time_respecting_paths(G, start, end, sample, min_t), None
    except Exception as ex:
        return None, ex.__class__.__name__


def as_sets(res):
    """{key: set of paths} of a result, keys with no path dropped"""
    if not res:
        return {}
    return {k: set(map(_t, lst)) for k, lst in dict(res).items() if len(lst)}


def queries(ctx, tier, rng, tag):
    """(u, v, start, end): every node of the graph (and an absent id) as u; v in {None, u, every other node, an
    absent id}; every window inside the snapshot range.  Random universes (tag E): 12 seeded picks per graph"""
    us = list(ctx.nodes)
    ws = windows(ctx.ids)
    full = [(u, v, s, e) for u in us for v in [None] + us + [ABSENT] for (s, e) in ws]
    full += [(ABSENT, None, None, None), (ABSENT, us[0], ctx.ids[0], None)]
    if tag == 'E':
        return rng.sample(full, min(12 if tier == 'quick' else 30, len(full)))
    return full


def all_calls(ctx, tier, rng, tag):
    """(start, end, min_t) for all_time_respecting_paths: thorough: every window x min_t in {None} + ids; quick: every
    window with min_t None, and the windows (None,None), (first id,last id) with every min_t; tag E: 3 seeded windows"""
    ws = windows(ctx.ids)
    if tag == 'E':
        return [(s, e, m) for (s, e) in rng.sample(ws, min(3, len(ws))) for m in (None, ctx.ids[0])]
    if tier != 'quick':
        return [(s, e, m) for (s, e) in ws for m in [None] + ctx.ids]
    return [(s, e, None) for (s, e) in ws] + [(s, e, m) for (s, e) in ((None, None), (ctx.ids[0], ctx.ids[-1])) for m in ctx.ids]


def suffix(ctx):
    return '.selfloop' if ctx.selfloop else ''


# ------------------------------------------------------------------------------------------------ C12

def c12_eval(G, ctx, fn, u=None, v=None, start=None, end=None, min_t=None):
    """-> (problems [(check, detail)], number of returned paths)"""
    if fn == 'trp':
        res, exc = call_trp(G, u, v, start, end)
        if exc:
            return [('C12.raises.%s' % exc + suffix(ctx), 'time_respecting_paths(G,%r,%r,%r,%r) raises %s' % (u, v, start, end, exc))], 0
        pr, n = result_problems(ctx, res, u, v, start, end)
        return [('C12.%s' % c + suffix(ctx), d) for c, d in pr], n
    res, exc = call_all(G, start, end, min_t)
    if exc:
        return [('C12.all.raises.%s' % exc + suffix(ctx), 'all_time_respecting_paths(G,%r,%r,min_t=%r) raises %s' % (start, end, min_t, exc))], 0
    pr, n = result_problems(ctx, res, None, None, start, end, source_of_key=True)
    return [('C12.all.%s' % c + suffix(ctx), d) for c, d in pr], n


@_masking
def c12_paths_genuine(tier, seed):
    col = Collector('spaces A-E of path_universe (A: all 511 DynGraph relations on nodes {1,2,3} x instants {0,1,2}; B: all DynDiGraph relations '
                    'with <=2 ordered pairs present (thorough: <=3 pairs and <=5 cells); C: self-loop relations; D: small relations moved to shifted, '
                    'negative, gapped instant sets and to string ids; E: seeded random 3x3 directed, 4x4 and (thorough) 5x5 relations), each '
                    'built by one point/interval add per maximal run; x every u in the graph (+ an absent id), v in {None, u, other nodes, '
                    'absent id}, every window (None or integer bounds, start<=end) inside [first id, last id]; all_time_respecting_paths for '
                    'every window (min_t None) and, for the windows (None,None), (first id,last id), every min_t in ids (thorough: every window x min_t).  Every returned path is checked clause by clause against the presence model '
                    '(readings R1-R3: start anywhere in the window, not node-simple, waiting needs an (out-)interaction at every snapshot id '
                    'strictly between arrival and departure).  An exception on an input of the domain is recorded as C12.raises.*.  '
                    'non-trivial = distinct (state, call) returning at least one path')
    rng = random.Random(seed + 12)
    kinds = Kinds(col)
    skipped = 0
    for cls, rel, tag in path_universe(tier, seed):
        h = history_of(rel)
        G, M, ok = build(cls, h)
        ctx = Ctx(M)
        if not ok or not kernel_agrees(G, ctx):
            skipped += 1
            continue
        sk = state_key(G)
        for (u, v, s, e) in queries(ctx, tier, rng, tag):
            pr, n = c12_eval(G, ctx, 'trp', u, v, s, e)
            col.seen((sk, 'trp', u, v, s, e), n > 0, {'class': cls, 'history': h, 'call': ['trp', u, v, s, e]})
            for check, detail in dict(pr).items():
                kinds.add(check, cls, h, detail, fn='trp', u=u, v=v, start=s, end=e)
        for (s, e, m) in all_calls(ctx, tier, rng, tag):
            pr, n = c12_eval(G, ctx, 'all', start=s, end=e, min_t=m)
            col.seen((sk, 'all', s, e, m), n > 0)
            for check, detail in dict(pr).items():
                kinds.add(check, cls, h, detail, fn='all', start=s, end=e, min_t=m)
    kinds.flush()
    res = col.result(bound='<=3 nodes x 3 instants complete (directed: <=2 present pairs; thorough <=3 pairs and <=5 cells), instant sets 0-based / shifted / negative / gapped, '
                           'int and string ids; random up to 4x4 (quick) / 5x5 (thorough)')
    res['coverage']['skipped_states_kernel_disagrees'] = skipped
    return res


# ------------------------------------------------------------------------------------------------ C13

def diff_detail(got, exp):
    gs = set(p for ps in got.values() for p in ps)
    es = set(p for ps in exp.values() for p in ps)
    return sorted(es - gs, key=repr), sorted(gs - es, key=repr)


def classify_missing(ctx):
    """sub-kind of a missing-path / missing-source finding by a feature of the input (only used to keep root causes apart)"""
    return '.negative_ids' if ctx.ids and ctx.ids[0] < 0 else ''


def classify_extra(ctx, extra, start, end):
    s0, e0, W = ctx.window(start, end)
    if any(not (s0 <= h[2] <= e0) for p in extra for h in p if len(h) == 3):
        return '.beyond_window'
    return ''


def c13_eval(G, ctx, fn, u=None, v=None, start=None, end=None, min_t=None, sample=1, np_seed=0, cache=None):
    """-> (problems [(check, detail)], number of expected paths)"""
    sx = suffix(ctx)
    if fn == 'trp':
        exp = group(expected_paths(ctx, u, v, start, end))
        n = sum(map(len, exp.values()))
        if sample < 1:
            np.random.seed(np_seed)
        res, exc = call_trp(G, u, v, start, end, sample)
        if cache is not None and v is None and sample == 1:
            cache[(u, start, end)] = (res, exc)
        call = 'time_respecting_paths(G,%r,%r,%r,%r%s)' % (u, v, start, end, '' if sample == 1 else ',sample=%r' % sample)
        if exc:
            return [('C13.raises.%s' % exc + ('.sample' if sample < 1 else '') + sx,
                     '%s raises %s; expected %d path(s) %r' % (call, exc, n, sorted(sum(map(list, exp.values()), []))[:4]))], n
        try:
            got = as_sets(res)
        except Exception as ex:
            return [('C13.result_shape' + sx, '%s returned %r (%s)' % (call, res, ex))], n
        missing, extra = diff_detail(got, exp)
        pr = []
        if sample < 1:
            if extra:
                pr.append(('C13.sample_not_subset' + classify_extra(ctx, extra, start, end) + sx, '%s returned %r, not among the full result' % (call, extra[:4])))
            return pr, n
        if start is not None and not ctx.present(u, start) and extra:
            return [('C13.not_empty_when_u_absent_at_start' + sx, '%s returned %r although %r has no interaction at %r' % (call, extra[:4], u, start))], n
        if missing:
            pr.append(('C13.missing_paths' + classify_missing(ctx) + sx, '%s misses %d path(s), e.g. %r; returned %r' % (call, len(missing), missing[:3], sorted(sum(map(list, got.values()), []))[:6])))
        if extra:
            pr.append(('C13.extra_paths' + classify_extra(ctx, extra, start, end) + sx,
                       '%s returns %d path(s) the enumeration does not have, e.g. %r' % (call, len(extra), extra[:3])))
        if not missing and not extra and got != exp:
            pr.append(('C13.grouping' + sx, '%s groups %r, expected %r' % (call, got, exp)))
        return pr, n
    # all_time_respecting_paths
    call = 'all_time_respecting_paths(G,%r,%r,min_t=%r)' % (start, end, min_t)
    srcs = [x for x in ctx.nodes if (min_t is None or ctx.present(x, min_t))]
    exp = {}
    for x in srcs:
        exp.update(group(expected_paths(ctx, x, None, start, end)))
    n = sum(map(len, exp.values()))
    res, exc = call_all(G, start, end, min_t)
    if exc:
        return [('C13.all.raises.%s' % exc + sx, '%s raises %s; expected %d path(s)' % (call, exc, n))], n
    got = as_sets(res)
    pr = []
    # (a) exactly what the single-source function returns (the text's own formulation)
    single, bad = {}, None
    for x in srcs:
        r, exc = cache[(x, start, end)] if cache and (x, start, end) in cache else call_trp(G, x, None, start, end)
        if exc:
            bad = exc
            break
        single.update(as_sets(r))
    if bad is None and got != single:
        missing, extra = diff_detail(got, single)
        pr.append(('C13.all.differs_from_single_source' + sx, '%s: missing %r, extra %r w.r.t. time_respecting_paths per source' % (call, missing[:3], extra[:3])))
    # (b) the brute force
    if got != exp:
        missing, extra = diff_detail(got, exp)
        if missing:
            pr.append(('C13.all.missing_paths' + classify_missing(ctx) + sx, '%s misses %d path(s), e.g. %r' % (call, len(missing), missing[:3])))
        if extra:
            pr.append(('C13.all.extra_paths' + classify_extra(ctx, extra, start, end) + sx, '%s returns %d unexpected path(s), e.g. %r' % (call, len(extra), extra[:3])))
        if not missing and not extra:
            pr.append(('C13.all.grouping' + sx, '%s groups %r, expected %r' % (call, got, exp)))
    return pr, n


@_masking
def c13_paths_complete(tier, seed):
    col = Collector('same spaces A-E and the same calls as C12 (A, B, C, D enumerated completely, E seeded random).  The result of '
                    'time_respecting_paths(sample=1) is compared, as {key: set of paths}, with a brute-force enumeration of all hop sequences over '
                    'the presence model that satisfy the C12 conditions.  Readings: (R1) the first hop may be at any snapshot id in [start,end] '
                    'where u has an (out-)interaction; if `start` is given and u has no interaction (any direction) at it the expected result is '
                    'empty; with start omitted there is no such guard; (R2) paths need not be node-simple, only immediate reversal is excluded; '
                    '(R3) an intermediate node must have an (out-)interaction, self-loops included, at every snapshot id strictly between arrival '
                    'and departure.  sample in {0.5, 0.0}: result must be a subset of the brute-force set (numpy seeded).  '
                    'all_time_respecting_paths(start,end,min_t) for every window with min_t None and for the windows (None,None), (first,last id) with every '
                    'min_t in ids (thorough: every window x min_t): compared with the union over the nodes '
                    'present at min_t both of the real single-source results and of the brute force.  non-trivial = distinct (state, call) '
                    'with at least one expected path')
    rng = random.Random(seed + 13)
    kinds = Kinds(col)
    skipped = 0
    for cls, rel, tag in path_universe(tier, seed):
        h = history_of(rel)
        G, M, ok = build(cls, h)
        ctx = Ctx(M)
        if not ok or not kernel_agrees(G, ctx):
            skipped += 1
            continue
        sk = state_key(G)
        qs = queries(ctx, tier, rng, tag)
        cache = {}
        for (u, v, s, e) in qs:
            pr, n = c13_eval(G, ctx, 'trp', u, v, s, e, cache=cache)
            col.seen((sk, 'trp', u, v, s, e), n > 0, {'class': cls, 'history': h, 'call': ['trp', u, v, s, e]})
            for check, detail in pr:
                kinds.add(check, cls, h, detail, fn='trp', u=u, v=v, start=s, end=e)
        # sampling: a few calls per graph
        for (u, v, s, e) in rng.sample(qs, min(4, len(qs))):
            for smp in (0.5, 0.0):
                ns = rng.randrange(1000)
                pr, n = c13_eval(G, ctx, 'trp', u, v, s, e, sample=smp, np_seed=ns)
                col.seen((sk, 'trp', u, v, s, e, smp), n > 0)
                for check, detail in pr:
                    kinds.add(check, cls, h, detail, fn='trp', u=u, v=v, start=s, end=e, sample=smp, np_seed=ns)
        for (s, e, m) in all_calls(ctx, tier, rng, tag):
            pr, n = c13_eval(G, ctx, 'all', start=s, end=e, min_t=m, cache=cache)
            col.seen((sk, 'all', s, e, m), n > 0)
            for check, detail in pr:
                kinds.add(check, cls, h, detail, fn='all', start=s, end=e, min_t=m)
    kinds.flush()
    res = col.result(bound='<=3 nodes x 3 instants complete (directed: <=2 present pairs; thorough <=3 pairs and <=5 cells), instant sets 0-based / shifted / negative / gapped, '
                           'int and string ids; random up to 4x4 (quick) / 5x5 (thorough)')
    res['coverage']['skipped_states_kernel_disagrees'] = skipped
    return res


# ------------------------------------------------------------------------------------------------ C14

def norm_path(p):
    return tuple(tuple(h) for h in p)


def annotate_problems(paths):
    """clauses of C14 on one non-empty list of paths -> [(check, detail)]"""
    P = [norm_path(p) for p in paths]
    pr = []
    for p, q in zip(paths, P):
        try:
            if al.path_length(p) != len(q):
                pr.append(('C14.path_length', 'path_length(%r) = %r, hop count %d' % (p, al.path_length(p), len(q))))
            if al.path_duration(p) != q[-1][2] - q[0][2]:
                pr.append(('C14.path_duration', 'path_duration(%r) = %r, last-first = %r' % (p, al.path_duration(p), q[-1][2] - q[0][2])))
        except Exception as ex:
            pr.append(('C14.raises.%s' % ex.__class__.__name__, 'path_length/path_duration(%r) raises %r' % (p, ex)))
    try:
        ann = al.annotate_paths(paths)
    except Exception as ex:
        return pr + [('C14.raises.%s' % ex.__class__.__name__, 'annotate_paths(%r) raises %r' % (paths, ex))]
    ln = lambda p: len(p)
    du = lambda p: p[-1][2] - p[0][2]
    ar = lambda p: p[-1][2]
    S = set(P)
    shortest = {p for p in S if ln(p) == min(map(ln, S))}
    fastest = {p for p in S if du(p) == min(map(du, S))}
    foremost = {p for p in S if ar(p) == min(map(ar, S))}
    exp = {'shortest': shortest, 'fastest': fastest, 'foremost': foremost,
           'fastest_shortest': {p for p in shortest if du(p) == min(map(du, shortest))},
           'shortest_fastest': {p for p in fastest if ln(p) == min(map(ln, fastest))}}
    if not isinstance(ann, dict) or set(ann) != set(exp):
        return pr + [('C14.keys', 'annotate_paths(%r) returned %r' % (paths, ann))]
    for k in PATH_TYPES:
        try:
            got = set(norm_path(p) for p in ann[k])
        except Exception as ex:
            pr.append(('C14.%s' % k, 'annotate_paths(%r)[%r] = %r (%s)' % (paths, k, ann[k], ex)))
            continue
        if not got <= S:
            pr.append(('C14.returned_path_not_in_input', 'annotate_paths(%r)[%r] contains %r' % (paths, k, sorted(got - S))))
        if got != exp[k]:
            pr.append(('C14.%s' % k, 'annotate_paths(%r)[%r] = %r, expected the set %r' % (paths, k, ann[k], sorted(exp[k]))))
    return pr


def path_pool(max_hops, times):
    """one path per (hop count, increasing time profile) between nodes 'u' and 'v' (distinct intermediate nodes)"""
    pool = []
    for n in range(1, max_hops + 1):
        for ts in itertools.combinations(times, n):
            nodes = ['u'] + ['m%d' % i for i in range(1, n)] + ['v']
            pool.append(tuple((nodes[i], nodes[i + 1], ts[i]) for i in range(n)))
    return pool


def c14_annotate_paths(tier, seed):
    col = Collector('synthetic path lists between one node pair (u,v), no graph: pool = one path per (hop count 1..3, strictly increasing time '
                    'profile over instants 0..3) = 14 paths plus 2 alternative-route twins with equal profile; ALL ordered lists (with '
                    'repetition, so ties, duplicates and every order occur) of length 1..3 (quick) / 1..4 (thorough) over the pool, each given once '
                    'as tuples-of-hops and, every 5th, as lists-of-hops; seeded random lists of 4..8 paths over a pool with hop count <=5, instants '
                    '-2..6.  The five categories are compared as sets of paths (list/tuple representation not distinguished) with the definition '
                    'in the text; every returned path must be an input path; path_length/path_duration checked on every path.  '
                    'non-trivial = distinct list with >= 2 distinct paths')
    rng = random.Random(seed + 14)
    kinds = Kinds(col)
    pool = path_pool(3, (0, 1, 2, 3))
    pool += [(('u', 'x', 0), ('x', 'v', 2)), (('u', 'y', 1), ('y', 'z', 2), ('z', 'v', 3))]
    maxlen = 3 if tier == 'quick' else 4
    i = 0
    for n in range(1, maxlen + 1):
        for lst in itertools.product(pool, repeat=n):
            i += 1
            variants = [list(lst)]
            if i % 5 == 0:
                variants.append([list(p) for p in lst])
            for paths in variants:
                col.seen(repr(paths), len(set(lst)) > 1, {'paths': _l(paths)})
                for check, detail in annotate_problems(paths):
                    kinds.add(check, 'n/a', [], detail, paths=_l(paths))
    big = path_pool(5, tuple(range(-2, 7)))
    for _ in range(3000 if tier == 'quick' else 40000):
        paths = [rng.choice(big) for _ in range(rng.randint(4, 8))]
        if rng.random() < 0.3:
            paths = [list(p) for p in paths]
        col.seen(repr(paths), len(set(map(norm_path, paths))) > 1)
        for check, detail in annotate_problems(paths):
            kinds.add(check, 'n/a', [], detail, paths=_l(paths))
    kinds.flush()
    return col.result(exhaustive=False, bound='all lists of <=3 (quick) / <=4 (thorough) paths over a 16-path pool (<=3 hops, instants 0..3): complete; '
                                              'random lists of <=8 paths, <=5 hops, instants -2..6')


# ------------------------------------------------------------------------------------------------ C15

def parse_occ(name, cands):
    """'X_t' -> (X, t) with X one of the candidate node ids; None if the name is not an occurrence"""
    if not isinstance(name, str) or '_' not in name:
        return None
    a, b = name.rsplit('_', 1)
    try:
        t = int(b)
    except ValueError:
        return None
    for c in cands:
        if str(c) == a:
            return (c, t)
    return None


def dag_problems(G, ctx, u, v, start, end):
    """clauses of C15 on temporal_dag(G,u,v,start,end) -> ([(check, detail)], number of DAG edges)"""
    call = 'temporal_dag(G,%r,%r,%r,%r)' % (u, v, start, end)
    sx = suffix(ctx)
    s0, e0, W = ctx.window(start, end)
    invalid = bool(ctx.ids) and (s0 < ctx.ids[0] or e0 > ctx.ids[-1] or s0 > e0)
    try:
        out = al.temporal_dag(G, u, v, start, end)
    except ValueError as ex:
        if invalid:
            return [], 0
        return [('C15.raises.ValueError' + sx, '%s raises ValueError(%s) on a valid window (ids %r)' % (call, ex, ctx.ids))], 0
    except Exception as ex:
        return [('C15.raises.%s' % ex.__class__.__name__ + sx, '%s raises %r (ids %r, window %s)' % (call, ex, ctx.ids, 'invalid' if invalid else 'valid'))], 0
    if invalid:
        return [('C15.invalid_window_accepted' + sx, '%s returns although [%r,%r] is not inside [%r,%r] or start > end' % (call, s0, e0, ctx.ids[0], ctx.ids[-1]))], 0
    try:
        DAG, sources, targets = out[0], list(out[1]), list(out[2])
    except Exception as ex:
        return [('C15.result_shape' + sx, '%s returned %r' % (call, out))], 0
    pr = []
    if not ctx.ids:
        if DAG.number_of_nodes() or DAG.number_of_edges() or sources or targets:
            pr.append(('C15.no_snapshots_nonempty_dag', '%s on a graph without snapshots: nodes %r sources %r targets %r' % (call, list(DAG.nodes()), sources, targets)))
        return pr, 0
    if not isinstance(DAG, nx.DiGraph):
        return [('C15.result_shape' + sx, '%s: first component is %r' % (call, type(DAG)))], 0
    cands = list(ctx.nodes) + [x for x in (u, v) if x is not None and x not in ctx.nodes]
    occ = {}
    for n in DAG.nodes():
        o = parse_occ(n, cands)
        if o is None:
            if n == u and DAG.degree(n) == 0:
                continue                                    # R5
            pr.append(('C15.node_not_occurrence' + sx, '%s: DAG node %r is not a time-stamped occurrence' % (call, n)))
        else:
            occ[n] = o
    if not nx.is_directed_acyclic_graph(DAG):
        try:
            cyc = nx.find_cycle(DAG)
        except Exception:
            cyc = '?'
        pr.append(('C15.not_acyclic' + sx, '%s: cycle %r' % (call, cyc)))
    src_got = set()
    for sname in sources:
        if sname not in DAG:
            pr.append(('C15.source_not_in_dag' + sx, '%s: source %r is not a DAG node' % (call, sname)))
        o = parse_occ(sname, cands)
        if o is None:
            pr.append(('C15.source_not_occurrence' + sx, '%s: source %r' % (call, sname)))
        else:
            src_got.add(o)
    src_exp = set((u, q) for q in W if ctx.out(u, q))
    if src_got - src_exp:
        beyond = any(not (s0 <= t <= e0) for (_, t) in src_got - src_exp)
        pr.append(('C15.sources_extra' + ('.beyond_window' if beyond else '') + sx,
                   '%s: sources %r, occurrences of %r at window instants with a neighbour are %r' % (call, sorted(src_got, key=repr), u, sorted(src_exp, key=repr))))
    if src_exp - src_got:
        pr.append(('C15.sources_missing' + classify_missing(ctx) + sx, '%s: sources %r, occurrences of %r at window instants with a neighbour are %r (ids %r)'
                   % (call, sorted(src_got, key=repr), u, sorted(src_exp, key=repr), ctx.ids)))
    for a, b in DAG.edges():
        if a not in occ or b not in occ:
            continue
        (X, s), (Y, t) = occ[a], occ[b]
        if Y not in ctx.out(X, t):
            pr.append(('C15.edge_without_interaction' + sx, '%s: edge %r -> %r but %r-%r is not present at %r' % (call, a, b, X, Y, t)))
        if not (s0 <= t <= e0):
            pr.append(('C15.edge_time_outside_window' + sx, '%s: edge %r -> %r has t = %r outside [%r,%r] (ids %r)' % (call, a, b, t, s0, e0, ctx.ids)))
        if not (s < t or ((X, s) in src_got and X == u and s == t)):
            pr.append(('C15.edge_time_order' + sx, '%s: edge %r -> %r has s = %r, t = %r and %r is %sa source' % (call, a, b, s, t, a, '' if (X, s) in src_got else 'not ')))
    for tname in targets:
        if tname not in DAG:
            pr.append(('C15.target_not_in_dag' + sx, '%s: target %r is not a DAG node' % (call, tname)))
            continue
        o = parse_occ(tname, cands)
        if o is None:
            pr.append(('C15.target_not_occurrence' + sx, '%s: target %r' % (call, tname)))
            continue
        if v is not None and o[0] != v:
            pr.append(('C15.target_not_occurrence_of_v' + sx, '%s: target %r' % (call, tname)))
        if DAG.in_degree(tname) == 0:
            pr.append(('C15.target_not_reached' + sx, '%s: target %r has no incoming edge' % (call, tname)))
    return pr, DAG.number_of_edges()


def c15_universe(tier, seed):
    """spaces A, B, C, D of path_universe (no random part); thorough adds 600 seeded random 4-node relations, self-loops
    allowed, on the instant set (-2,0,1,3)"""
    for x in path_universe(tier, seed, heavy=False):
        yield x
    if tier != 'quick':
        rng = random.Random(seed + 1500)
        N4, T4 = (1, 2, 3, 4), (-2, 0, 1, 3)
        for _ in range(600):
            cls = rng.choice(('DynGraph', 'DynDiGraph'))
            r = random_relation(rng, und_pairs(N4, True) if cls == 'DynGraph' else dir_pairs(N4, True), T4, 0.2)
            if r:
                yield cls, r, 'E'


def c15_temporal_dag(tier, seed):
    col = Collector('spaces A-D of path_universe (complete: all DynGraph relations on 3 nodes x 3 instants, DynDiGraph with <=2 present pairs (thorough <=3 pairs, <=5 cells), '
                    'self-loop relations, small relations on the instant sets (10,11,12) (-3,-2,-1) (-1,0,1) (0,2,5) (1,3,4) (-4,-2,-1) and with '
                    'string ids; thorough adds 600 seeded random 4-node relations on instants (-2,0,1,3)); the two graphs without snapshots '
                    '(fresh, add_node only); x every root u in the graph, v in {None, every node, an absent id}, every window with start, end in '
                    '{None} + [first id - 1, last id + 1] (valid and invalid, start > end included).  Checked: ValueError iff the window is not '
                    'inside [first id, last id] or start > end; acyclic; every node an occurrence (R5: the isolated bare root is tolerated); every '
                    'edge X@s->Y@t an (oriented) interaction present at t, start<=t<=end, s<t or (X@s a returned source of u and s=t) (R4); '
                    'sources = occurrences of u at window snapshot ids where u has an (out-)neighbour; targets are reached DAG nodes, '
                    'occurrences of v when given (R6).  non-trivial = distinct (state, call) with a valid window and at least one DAG edge')
    kinds = Kinds(col)
    skipped = 0
    for cls in ('DynGraph', 'DynDiGraph'):
        for h, attrs in (([], None), ([], {1: {}, 2: {}})):
            G, M, ok = build(cls, h, attrs)
            ctx = Ctx(M)
            for (u, v, s, e) in ((1, None, None, None), (1, 2, None, None), (1, 2, 0, 3), (1, None, 2, 1)):
                pr, n = dag_problems(G, ctx, u, v, s, e)
                col.seen((cls, 'empty', bool(attrs), u, v, s, e), False)
                for check, detail in pr:
                    kinds.add(check, cls, h, detail, u=u, v=v, start=s, end=e, nodes_only=sorted(attrs) if attrs else [])
    for cls, rel, tag in c15_universe(tier, seed):
        h = history_of(rel)
        G, M, ok = build(cls, h)
        ctx = Ctx(M)
        if not ok or not kernel_agrees(G, ctx):
            skipped += 1
            continue
        sk = state_key(G)
        for u in ctx.nodes:
            for v in [None] + list(ctx.nodes) + [ABSENT]:
                for (s, e) in windows(ctx.ids, invalid=True):
                    pr, n = dag_problems(G, ctx, u, v, s, e)
                    col.seen((sk, u, v, s, e), n > 0, {'class': cls, 'history': h, 'call': [u, v, s, e]})
                    for check, detail in dict(pr).items():
                        kinds.add(check, cls, h, detail, u=u, v=v, start=s, end=e)
    kinds.flush()
    res = col.result(bound='<=3 nodes x 3 instants complete (directed: <=2 present pairs; thorough <=3 pairs and <=5 cells); 0-based, shifted, negative, gapped instant sets; int and string ids')
    res['coverage']['skipped_states_kernel_disagrees'] = skipped
    return res


# ------------------------------------------------------------------------------------------------ C20

def conf_call(G, start, delta, alphas, labels, profile_size, path_type):
    try:
        with quiet():
            return al.delta_conformity(G, start, delta, list(alphas), list(labels), profile_size=profile_size, path_type=path_type), None
    except Exception as ex:
        return None, ex.__class__.__name__


def sliding_call(G, delta, alphas, labels, profile_size, path_type):
    try:
        with quiet():
            return al.sliding_delta_conformity(G, delta, list(alphas), list(labels), profile_size=profile_size, path_type=path_type), None
    except Exception as ex:
        return None, ex.__class__.__name__


def profiles_of(labels, profile_size):
    out = []
    for i in range(1, profile_size + 1):
        out.extend('_'.join(c) for c in itertools.combinations(labels, i))
    return out


def alpha_entry(res, a):
    """the entry of alpha a (keys are the alphas printed with two decimals)"""
    for k in res:
        try:
            if abs(float(k) - a) < 0.005 + 1e-12:
                return res[k]
        except (TypeError, ValueError):
            pass
    return None


def flat_scores(res, alphas, profiles):
    """{(alpha index, profile, node): score}; None if the structure is not the documented one"""
    out = {}
    for i, a in enumerate(alphas):
        ent = alpha_entry(res, a)
        if ent is None or set(ent) != set(profiles):
            return None
        for p in profiles:
            for n, x in ent[p].items():
                out[(i, p, n)] = x
    return out


def same_scores(A, B, nmap=None):
    if A is None or B is None:
        return A is None and B is None
    if nmap:
        A = {(i, p, nmap[n]): x for (i, p, n), x in A.items()}
    return set(A) == set(B) and all(abs(A[k] - B[k]) <= 1e-9 for k in A)


def attrs_of(labelling):
    """{label name: {node: value}} -> {node: {label name: value}}"""
    out = {}
    for name, d in labelling.items():
        for n, val in d.items():
            out.setdefault(n, {})[name] = val
    return out


def conformity_problems(cls, history, labelling, start, delta, alphas, profile_size, path_type):
    """clauses of C20 for one labelled graph and one call -> ([(check, detail)], non-trivial?)"""
    labels = sorted(labelling)
    profiles = profiles_of(labels, profile_size)
    G, M, ok = build(cls, history, attrs_of(labelling))
    ctx = Ctx(M)
    call = 'delta_conformity(G,%r,%r,%r,%r,profile_size=%r,path_type=%r)' % (start, delta, list(alphas), labels, profile_size, path_type)
    end = start + delta
    W = [q for q in ctx.ids if start <= q <= end]
    res, exc = conf_call(G, start, delta, alphas, labels, profile_size, path_type)
    if exc:
        return [('C20.raises.%s' % exc, '%s raises %s (labels %r)' % (call, exc, labelling))], bool(W)
    if not W:
        if res is not None:
            return [('C20.not_None_on_empty_window', '%s = %r although no snapshot id lies in [%r,%r] (ids %r)' % (call, res, start, end, ctx.ids))], False
        return [], False
    if res is None:
        return [('C20.None_on_nonempty_window', '%s = None although snapshot ids %r lie in the window' % (call, W))], True
    pr = []
    flat = flat_scores(res, alphas, profiles)
    if flat is None:
        return [('C20.structure', '%s = %r: expected one entry per alpha, each with the profiles %r' % (call, res, profiles))], True
    exp_nodes = set(n for n in ctx.nodes if ctx.present(n, start))
    for i in range(len(alphas)):
        for p in profiles:
            got = set(n for (j, q, n) in flat if j == i and q == p)
            if got != exp_nodes:
                pr.append(('C20.node_set', '%s scores the nodes %r, nodes present at %r are %r' % (call, sorted(got, key=repr), start, sorted(exp_nodes, key=repr))))
                break
    bad = {k: x for k, x in flat.items() if not (isinstance(x, (int, float)) and -1 - EPS <= x <= 1 + EPS)}
    if bad:
        pr.append(('C20.range', '%s: scores outside [-1,1]: %r (labels %r)' % (call, bad, labelling)))
    # renaming label values (alternately to fresh strings and to small ints including 0: a categorical value is just a name)
    vals = sorted(set(x for d in labelling.values() for x in d.values()), key=repr)
    if (start + delta + len(history)) % 2:
        vmap = dict(zip(vals, ['L%d' % (len(vals) - i) for i in range(len(vals))]))
    else:
        vmap = dict(zip(vals, range(len(vals))))
    lab2 = {name: {n: vmap[x] for n, x in d.items()} for name, d in labelling.items()}
    G2, _, _ = build(cls, history, attrs_of(lab2))
    res2, exc2 = conf_call(G2, start, delta, alphas, labels, profile_size, path_type)
    if exc2 or res2 is None or not same_scores(flat, flat_scores(res2, alphas, profiles)):
        pr.append(('C20.label_renaming', '%s: labels %r give %r, renamed labels %r give %r' % (call, labelling, res, lab2, exc2 or res2)))
    # renaming node ids (order-reversing, ints -> strings)
    nodes = sorted(M.nodes | set(n for d in labelling.values() for n in d), key=repr)
    nmap = dict(zip(nodes, ['n%d' % (len(nodes) - i) for i in range(len(nodes))]))
    h3 = [(c[0], nmap[c[1]], nmap[c[2]], c[3], c[4]) for c in map(_t, history)]
    lab3 = {name: {nmap[n]: x for n, x in d.items()} for name, d in labelling.items()}
    G3, _, _ = build(cls, h3, attrs_of(lab3))
    res3, exc3 = conf_call(G3, start, delta, alphas, labels, profile_size, path_type)
    if exc3 or res3 is None or not same_scores(flat, flat_scores(res3, alphas, profiles), nmap):
        pr.append(('C20.node_renaming', '%s: %r; after renaming nodes by %r: %r' % (call, res, nmap, exc3 or res3)))
    # a profile all of whose labels have one shared value: 1 for a node that reaches another node, else 0
    for p in profiles:
        names = [x for x in p.split('_')] if all(x in labelling for x in p.split('_')) else None
        if names is None or any(len(set(labelling[x].values())) != 1 for x in names):
            continue
        for n in exp_nodes:
            reaches = any(q[-1][1] != n for q in brute_paths(ctx, n, None, start, min(end, ctx.ids[-1])))
            want = 1.0 if reaches else 0.0
            wrong = {k: x for k, x in flat.items() if k[2] == n and k[1] == p and abs(x - want) > 1e-9}
            if wrong:
                pr.append(('C20.homogeneous_labels', '%s: all nodes share one value of %r, node %r %s, expected %r, got %r'
                           % (call, names, n, 'reaches another node' if reaches else 'reaches no other node', want, wrong)))
    return pr, True


def sliding_problems(cls, history, labelling, delta, alphas, profile_size, path_type):
    labels = sorted(labelling)
    profiles = profiles_of(labels, profile_size)
    G, M, ok = build(cls, history, attrs_of(labelling))
    ctx = Ctx(M)
    call = 'sliding_delta_conformity(G,%r,%r,%r,profile_size=%r,path_type=%r)' % (delta, list(alphas), labels, profile_size, path_type)
    ts = [t for t in ctx.ids if t + delta < ctx.ids[-1]]
    exp = {}
    for t in ts:
        r, exc = conf_call(G, t, delta, alphas, labels, profile_size, path_type)
        if exc:
            res, exc2 = sliding_call(G, delta, alphas, labels, profile_size, path_type)
            if exc2:
                return [('C20.sliding.raises.%s' % exc2, '%s raises %s (delta_conformity at t=%r raises %s)' % (call, exc2, t, exc))], True
            return [('C20.sliding.returns_although_delta_conformity_raises', '%s returns, delta_conformity(G,%r,...) raises %s' % (call, t, exc))], True
        if r is None:
            continue
        f = flat_scores(r, alphas, profiles)
        if f is None:
            return [], False
        for k, x in f.items():
            exp.setdefault(k, []).append((t + delta, x))
    res, exc = sliding_call(G, delta, alphas, labels, profile_size, path_type)
    if exc:
        return [('C20.sliding.raises.%s' % exc, '%s raises %s' % (call, exc))], bool(ts)
    got = {}
    for i, a in enumerate(alphas):
        ent = alpha_entry(res, a)
        for p, nd in (ent or {}).items():
            for n, seq in nd.items():
                if len(seq):
                    got[(i, p, n)] = [tuple(x) for x in seq]
    okk = set(got) == set(exp) and all(len(got[k]) == len(exp[k]) and all(a[0] == b[0] and abs(a[1] - b[1]) <= 1e-9 for a, b in zip(got[k], exp[k])) for k in got)
    if not okk:
        return [('C20.sliding.mismatch', '%s = %r, per-t delta_conformity stamped t+delta gives %r' % (call, got, exp))], bool(exp)
    return [], bool(exp)


def labellings(nodes, rng, n_mixed):
    """the homogeneous labelling and n_mixed seeded non-homogeneous ones over the values x / y (/ z)"""
    out = [{'lab': {n: 'x' for n in nodes}}]
    mixed = [dict(zip(nodes, c)) for c in itertools.product('xyz', repeat=len(nodes)) if len(set(c)) > 1]
    for d in rng.sample(mixed, min(n_mixed, len(mixed))):
        out.append({'lab': d})
    return out


@_masking
def c20_conformity(tier, seed):
    col = Collector('labelled DynGraphs: every presence relation over nodes {1,2,3} x instants {0,1,2} with <= 3 (quick) / <= 5 (thorough) '
                    '(pair, instant) cells (129 / 381 relations, complete), seeded random relations beyond (quick 60 on 3x3, thorough 200 on 3x3 and '
                    '200 on 4 nodes x 4 instants), one relation set moved to instants (3,4,6); labels: one static categorical attribute `lab` with the '
                    'homogeneous labelling and 2 (quick) / 4 (thorough) seeded mixed labellings over {x,y,z}, and for every 4th graph a second '
                    'attribute `grp` with profile_size 2; every start in [first id, last id], delta in {0,1,2}, alphas [0.5,1,2.5], the five path '
                    'types.  Checked: None iff no snapshot id in [start,start+delta]; one entry per alpha and profile; scored nodes = nodes with an '
                    'interaction at start; scores in [-1,1]; equal scores after renaming label values and after renaming node ids (order-reversing, '
                    'int -> str); homogeneous labelling: 1 for nodes that reach another node by a time-respecting path (C13 brute force) in the '
                    'window, else 0; sliding_delta_conformity == per-t delta_conformity of the real code stamped t+delta for every snapshot id t '
                    'with t+delta < last id.  non-trivial = distinct (state, labelling, call) with a non-empty window')
    rng = random.Random(seed + 20)
    kinds = Kinds(col)
    N3 = (1, 2, 3)
    rels = [('A', r) for r in all_relations(und_pairs(N3), T0, max_cells=3 if tier == 'quick' else 5)]
    for _ in range(60 if tier == 'quick' else 200):
        rels.append(('E', random_relation(rng, und_pairs(N3), T0, 0.6)))
    if tier != 'quick':
        for _ in range(200):
            rels.append(('E', random_relation(rng, und_pairs((1, 2, 3, 4)), (0, 1, 2, 3), 0.3)))
    tmap = {0: 3, 1: 4, 2: 6}
    rels += [('D', {p: frozenset(tmap[q] for q in S) for p, S in r.items()}) for tag, r in rels[:40]]
    # F: planted walks over 4 nodes and up to 7 instants (space F of path_universe, undirected): nodes whose reachable nodes sit
    # at hop distances with holes (an intermediate node idle for a snapshot, a fast path longer than the slow one)
    nF = 0
    for cls_, r, tag_ in path_universe(tier, seed, heavy=True):
        if tag_ == 'F' and cls_ == 'DynGraph':
            rels.append(('F', r))
            nF += 1
            if nF >= (30 if tier == 'quick' else 300):
                break
    alphas = [0.5, 1, 2.5]
    skipped = 0
    for gi, (tag, rel) in enumerate(rels):
        if not rel:
            continue
        h = history_of(rel)
        G, M, ok = build('DynGraph', h)
        ctx = Ctx(M)
        if not ok or not kernel_agrees(G, ctx):
            skipped += 1
            continue
        sk = state_key(G)
        labs = labellings(ctx.nodes, rng, 2 if tier == 'quick' else 4)
        if tag == 'F':
            labs = labs[:2]                     # the homogeneous labelling (score 1 for every node that reaches another one) + one mixed
        if gi % 4 == 0 and tag != 'F':
            two = dict(labs[-1])
            two['grp'] = {n: rng.choice('pq') for n in ctx.nodes}
            labs.append(two)
        cases = [(lab, 2 if len(lab) > 1 else 1) for lab in labs]
        if gi % 4 == 1 and tag != 'F':
            # two attributes scored separately (profile_size 1): `lab` shared by all nodes, `grp` mixed - a profile depends on its own labels only
            cases.append(({'lab': dict(labs[0]['lab']), 'grp': {n: rng.choice('pq') for n in ctx.nodes}}, 1))
        for li, (lab, ps) in enumerate(cases):
            lj = _l(sorted((name, sorted(d.items(), key=repr)) for name, d in lab.items()))
            # planted walks: delta_conformity against the oracle for the homogeneous labelling and two path types; the sliding form
            # (compared with the per-t calls of the real code) for the mixed labelling too and all five path types, where the
            # path type changes the distances and with them the scores
            for pt in PATH_TYPES:
                for delta in ((0, 1, 2) if tag != 'F' else (2, 3, 5)):
                    if tag != 'F' or (li == 0 and pt in PATH_TYPES[:2] and delta != 2):
                        for start in (range(ctx.ids[0], ctx.ids[-1] + 1) if tag != 'F' else (ctx.ids[0],)):
                            pr, nt = conformity_problems('DynGraph', h, lab, start, delta, alphas, ps, pt)
                            col.seen((sk, repr(lj), start, delta, pt), nt, {'history': h, 'labels': lj, 'call': [start, delta, pt]})
                            for check, detail in dict(pr).items():
                                kinds.add(check, 'DynGraph', h, detail, fn='delta', labels=lj, start=start, delta=delta, alphas=alphas,
                                          profile_size=ps, path_type=pt)
                    pr, nt = sliding_problems('DynGraph', h, lab, delta, alphas, ps, pt)
                    col.seen((sk, repr(lj), 'sliding', delta, pt), nt)
                    for check, detail in pr:
                        kinds.add(check, 'DynGraph', h, detail, fn='sliding', labels=lj, delta=delta, alphas=alphas, profile_size=ps, path_type=pt)
    kinds.flush()
    res = col.result(bound='3 nodes x 3 instants with <=3/5 cells complete, random beyond (thorough up to 4x4), shifted+gapped instants (3,4,6); '
                           'labels over 3 values, 1-2 attributes')
    res['coverage']['skipped_states_kernel_disagrees'] = skipped
    return res


# ------------------------------------------------------------------------------------------------ replay

def _labelling_from(lj):
    return {name: {n: x for n, x in items} for name, items in lj}


def replay(v):
    """re-run one recorded violation against the real code: 1 if the same check still fails, else 0"""
    check = v['check']
    cls = v.get('class')
    h = [tuple(_t(c)) for c in v.get('history', [])]
    g = lambda k, d=None: _t(v[k]) if isinstance(v.get(k), list) else v.get(k, d)
    if check.startswith('C14'):
        paths = [[tuple(hop) for hop in p] for p in v['paths']]
        pr = annotate_problems(paths) + annotate_problems([tuple(p) for p in paths])
    elif check.startswith('C20'):
        lab = _labelling_from(v['labels'])
        if v.get('fn') == 'sliding':
            pr, _ = sliding_problems(cls, h, lab, v['delta'], v['alphas'], v['profile_size'], v['path_type'])
        else:
            pr, _ = conformity_problems(cls, h, lab, v['start'], v['delta'], v['alphas'], v['profile_size'], v['path_type'])
    else:
        attrs = {n: {} for n in v.get('nodes_only', [])} or None
        G, M, ok = build(cls, h, attrs)
        ctx = Ctx(M)
        if check.startswith('C15'):
            pr, _ = dag_problems(G, ctx, g('u'), g('v'), v.get('start'), v.get('end'))
        elif check.startswith('C12'):
            pr, _ = c12_eval(G, ctx, v.get('fn', 'trp'), g('u'), g('v'), v.get('start'), v.get('end'), v.get('min_t'))
        elif check.startswith('C13'):
            pr, _ = c13_eval(G, ctx, v.get('fn', 'trp'), g('u'), g('v'), v.get('start'), v.get('end'), v.get('min_t'),
                             v.get('sample', 1), v.get('np_seed', 0))
        else:
            raise ValueError('unknown check %r' % check)
    hit = [d for c, d in pr if c == check]
    other = [c for c, d in pr if c != check]
    if hit:
        print('STILL FAILS  %s [%s]: %s' % (check, cls, hit[0][:300]))
        return 1
    print('no longer fails  %s [%s]%s' % (check, cls, ('  (other checks failing on the same input: %s)' % sorted(set(other))) if other else ''))
    return 0


PARTS = {'C12': c12_paths_genuine, 'C13': c13_paths_complete, 'C14': c14_annotate_paths, 'C15': c15_temporal_dag, 'C20': c20_conformity}
