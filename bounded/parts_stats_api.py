"""Bounded stand-in parts for C17 (temporal statistics equal their stream-graph definitions) and C19 (untimed
networkx mutators are blocked; no inherited call breaks the representation; frozen graphs are immutable).
Oracles are written from the property texts (Latapy et al. stream-graph definitions), never from the code.

    c17_statistics(tier, seed)          -> {'coverage': ..., 'violations': [...]}
    c19_blocked_and_frozen(tier, seed)  -> {'coverage': ..., 'violations': [...]}
    replay(v)                           -> 1 if the violation dict v still fails on the real code, else 0

Every violation carries `history` (mutator calls of core.apply_call that build the graph through the public API)
and the extra fields needed to repeat the offending query/call (`measure`/`args` for C17; `section`/`method`/`args`/
`kwargs` for C19, with arguments in the small literal encoding of `_real`).
Per kind (check name, class) only the SMALLEST reproduction met is kept, with the number of occurrences.
"""
import copy
import inspect
import itertools
import random
from fractions import Fraction

import networkx as nx
import dynetx as dn

from .core import histories, run_history, new_graph, state_key, Collector, _j
from .core import sorted          # tolerant of mixed-type node ids (ordered by repr)
from .parts_core import dump

TOL = 1e-9


# ------------------------------------------------------------------------------------------- collector

def _hsize(h):
    n = 0
    for c in h:
        n += 10
        if c[0] == 'node':
            n += 1
        elif c[0] == 'add':
            n += (1 if c[4] is None else 1 + c[4] - c[3]) + abs(c[3])
        else:
            n += 3 * len(c[1])
    return n


class MinCollector(Collector):
    """Collector that keeps, for every kind (check, class), the smallest reproduction and an occurrence count"""

    def __init__(self, rule):
        Collector.__init__(self, rule, max_violations=10 ** 9)
        self.best = {}

    def violation(self, check, cls, removal, history, detail, **extra):
        # the region flags of known findings (d06, d24, ...) are part of the kind: a violation outside a finding's region must
        # never be merged into (and hidden behind) a record that lies inside it
        sig = (check, cls) + tuple(sorted((k, bool(x)) for k, x in extra.items() if k.startswith('d') and k[1:].isdigit()))
        v = {'check': check, 'class': cls, 'edge_removal': removal, 'history': _j(history), 'detail': detail}
        v.update(extra)
        rank = (_hsize(history), len(repr(extra.get('args', ''))), len(detail))
        cur = self.best.get(sig)
        if cur is None:
            self.best[sig] = [rank, v, 1]
        else:
            cur[2] += 1
            if rank < cur[0]:
                cur[0], cur[1] = rank, v

    @property
    def violations(self):
        out = []
        for sig in sorted(self.best):
            rank, v, n = self.best[sig]
            v = dict(v)
            v['occurrences'] = n
            out.append(v)
        return out

    @violations.setter
    def violations(self, value):      # Collector.__init__ assigns []
        pass

    def full(self):
        return False


# =========================================================================================== C17

C17_PAIRS = [(1, 2), (2, 1), (1, 3), (2, 3), (3, 4), (1, 1)]

C17_STRUCTURED = [
    [('add', 1, 2, 0, 4), ('add', 2, 3, 2, 6), ('add', 1, 2, 8, 10), ('add', 4, 5, 9, None)],
    [('add', 1, 2, 0, 3), ('add', 3, 4, 1, 2), ('add', 1, 3, 5, None)],
    [('add', 1, 2, 0, None), ('add', 1, 2, 2, None), ('add', 1, 2, 4, 7), ('add', 2, 3, 1, 6)],
    [('add', 0, 1, 0, None), ('add', 0, 2, 0, None), ('add', 0, 1, 1, None), ('add', 0, 2, 1, None), ('add', 1, 3, 2, None),
     ('add', 0, 3, 2, None)],                       # the graph of the library's own density test
    [('path', (1, 2, 3, 4), 0), ('add', 1, 4, 1, 3), ('star', (2, 1, 3, 4), 4)],
    [('add', 1, 2, 0, 2), ('add', 3, 4, 2, 4)],     # two components that never coexist
    [('add', 1, 2, 0, None), ('add', 3, 4, 0, None)],
    [('add', 1, 2, 0, 2), ('node', 9), ('add', 2, 3, 1, 4), ('add', 1, 2, 6, 7)],       # a node of the graph that never interacts
]


def _has_selfloop(M):
    return any(k[0] == k[1] for k in M.keys())


def _hist(ts):
    d = {}
    for a, b in zip(ts, ts[1:]):
        d[b - a] = d.get(b - a, 0) + 1
    return d


def _call(f, *a):
    try:
        r = f(*a)
        if inspect.isgenerator(r):
            r = list(r)
        return 'ok', r
    except Exception as ex:
        return 'exc', ex


def _num(x):
    return isinstance(x, (int, float, Fraction))


def c17_stat_checks(G, M, emit):
    """DynGraph without self-loops, removal mode, >= 1 snapshot: every statistic against its stream-graph definition
    computed from the presence model M.   emit(check, detail, **extra)"""
    pres = {k: set(S) for k, S in M.pres.items() if S}
    T = sorted(set().union(*pres.values())) if pres else []
    if not T:
        return
    V = sorted(M.nodes)
    Vt = {t: set(x for k, S in pres.items() if t in S for x in k) for t in T}
    Tu = {u: set(t for t in T if u in Vt[t]) for u in V}

    def Tuv(u, v):
        return pres.get(tuple(sorted((u, v))), set())

    agrees = all(bool(G.has_interaction(k[0], k[1], q)) == (q in S) for k, S in pres.items() for q in range(T[0] - 1, T[-1] + 2))

    def ratio(name, args, num, den, what, alt=None):
        if den == 0:
            return                      # the measure's own denominator vanishes: outside the quantifier
        exp = Fraction(num, den)
        st, got = _call(getattr(G, name), *args)
        if st == 'exc':
            emit('C17.%s.raises' % name, '%s%r raises %s(%s); definition %s = %d/%d' % (name, tuple(args), got.__class__.__name__, got, what, num, den),
                 measure=name, args=list(args), expected=str(exp), presence_agrees_with_model=agrees)
            return
        if not _num(got) or abs(float(got) - float(exp)) > TOL:
            oor = _num(got) and not (0 <= got <= 1)
            emit('C17.%s' % name, '%s%r = %r, definition %s = %d/%d = %.6f%s' % (name, tuple(args), got, what, num, den, float(exp), ' (returned value outside [0,1])' if oor else ''),
                 measure=name, args=list(args), got=got if _num(got) else repr(got), expected=str(exp), out_of_range=bool(oor),
                 presence_agrees_with_model=agrees,
                 d24=bool(name == 'node_density' and alt is not None and _num(got) and abs(float(got) - float(alt)) <= TOL))

    pairs = list(itertools.combinations(V, 2))
    ratio('coverage', (), sum(len(Vt[t]) for t in T), len(T) * len(V), 'sum_t|V_t| / (|T||V|)')
    ratio('avg_number_of_nodes', (), sum(len(Vt[t]) for t in T), len(T), 'mean_t |V_t|')
    ratio('uniformity', (), sum(len(Tu[u] & Tu[v]) for u, v in pairs), sum(len(Tu[u] | Tu[v]) for u, v in pairs), 'sum|T_u&T_v| / sum|T_u|T_v|')
    ratio('density', (), sum(len(Tuv(u, v)) for u, v in pairs), sum(len(Tu[u] & Tu[v]) for u, v in pairs), 'sum|T_uv| / sum|T_u&T_v|')
    for u in V:
        ratio('node_contribution', (u,), len(Tu[u]), len(T), '|T_u|/|T|')
        nd_num = sum(len(Tuv(u, v)) for v in V if v != u)
        ratio('node_density', (u,), nd_num, sum(len(Tu[u] & Tu[v]) for v in V if v != u), 'sum_{v!=u}|T_uv| / sum_{v!=u}|T_u&T_v|',
              alt=Fraction(nd_num, sum(len(Tu[u] & Tu[v]) for v in V)) if Tu[u] else None)   # value under finding D24 alone
        st, got = _call(G.node_presence, u)
        if st == 'exc' or not isinstance(got, (set, frozenset)) or set(got) != Tu[u]:
            emit('C17.node_presence', 'node_presence(%r) = %r, T_u = %r' % (u, got, sorted(Tu[u])), measure='node_presence', args=[u],
                 expected=sorted(Tu[u]), presence_agrees_with_model=agrees)
    for (a, b) in pairs:
        for (u, v) in ((a, b), (b, a)):
            ratio('edge_contribution', (u, v), len(Tuv(u, v)), len(T), '|T_uv|/|T|')
            ratio('node_pair_uniformity', (u, v), len(Tu[u] & Tu[v]), len(Tu[u] | Tu[v]), '|T_u&T_v| / |T_u|T_v|')
            ratio('pair_density', (u, v), len(Tuv(u, v)), len(Tu[u] & Tu[v]), '|T_uv| / |T_u&T_v|')
    for t in T:
        n = len(Vt[t])
        m = sum(1 for S in pres.values() if t in S)
        ratio('snapshot_density', (t,), 2 * m, n * (n - 1), '2m/(n(n-1)) of the snapshot (m=%d, n=%d)' % (m, n))


def _iet_expect(st, keep):
    ev = [e for e in st if keep(e)]
    return _hist([e[3] for e in ev]), ev


def _sane(got, ev):
    """total mass = #events - 1 and weighted sum = last - first event time"""
    if not isinstance(got, dict):
        return False
    try:
        mass, wsum = sum(got.values()), sum(k * c for k, c in got.items())
    except Exception:
        return False
    return mass == max(0, len(ev) - 1) and wsum == ((ev[-1][3] - ev[0][3]) if ev else 0)


def c17_iet_checks(G, M, emit):
    """both classes: inter-event distributions against the histogram of gaps of list(G.stream_interactions()) restricted
    accordingly"""
    st = list(G.stream_interactions())
    directed = G.is_directed()
    V = sorted(M.nodes)

    def exact(name, args, keep, what):
        exp, ev = _iet_expect(st, keep)
        s, got = _call(getattr(G, name), *args)
        if s == 'exc':
            emit('C17.%s.raises' % name, '%s%r raises %s(%s); expected %r' % (name, tuple(args), got.__class__.__name__, got, exp),
                 measure=name, args=list(args), expected=sorted(exp.items()), stream=_j(st))
        elif got != exp:
            emit('C17.%s%s' % (name, '.per_node' if args else '.global'),
                 '%s%r = %r; histogram of gaps of %s is %r (events %r: total mass should be %d, weighted sum %d)'
                 % (name, tuple(args), got, what, exp, ev, max(0, len(ev) - 1), (ev[-1][3] - ev[0][3]) if ev else 0),
                 measure=name, args=list(args), got=sorted(got.items()) if isinstance(got, dict) else repr(got),
                 expected=sorted(exp.items()), stream=_j(st))

    def pair(name, args, readings):
        """pair form: the text names only 'global, per node, in/out variants'; only mass / weighted-sum sanity, and any of the
        plausible restrictions of the stream is accepted"""
        # The (u, v) form reads the pair's timeline, not the stream, and C17 does not name it: nothing is demanded of it
        # here (a check on it would ask for more than the property states).  It is still called, so that it is exercised.
        _call(getattr(G, name), *args)

    names = ['inter_event_time_distribution'] + (['inter_in_event_time_distribution', 'inter_out_event_time_distribution'] if directed else [])
    for name in names:
        exact(name, (), lambda e: True, 'the whole stream')
    for u in V:
        exact('inter_event_time_distribution', (u,), lambda e, u=u: e[0] == u or e[1] == u, 'events with %r as an endpoint' % (u,))
        if directed:
            exact('inter_in_event_time_distribution', (u,), lambda e, u=u: e[1] == u, 'events whose target is %r' % (u,))
            exact('inter_out_event_time_distribution', (u,), lambda e, u=u: e[0] == u, 'events whose source is %r' % (u,))
    for u in V:
        for v in V:
            if u == v and not M.ever(u, v):
                continue
            uv = lambda e, u=u, v=v: (e[0], e[1]) == (u, v)
            vu = lambda e, u=u, v=v: (e[0], e[1]) == (v, u)
            both = lambda e, u=u, v=v: (e[0], e[1]) in ((u, v), (v, u))
            if not directed:
                pair('inter_event_time_distribution', (u, v), [both])
            else:
                pair('inter_event_time_distribution', (u, v), [both, uv, vu])
                pair('inter_out_event_time_distribution', (u, v), [uv, vu])
                pair('inter_in_event_time_distribution', (u, v), [vu, uv])
    # functional form
    for args in [()] + [(u,) for u in V[:2]]:
        a = _call(dn.inter_event_time_distribution, G, *args)
        b = _call(G.inter_event_time_distribution, *args)
        if a[0] == 'ok' and b[0] == 'ok' and a[1] != b[1]:
            emit('C17.inter_event_time_distribution.functional_form', 'dn.inter_event_time_distribution(G,%r) = %r, method gives %r' % (args, a[1], b[1]),
                 measure='dn.inter_event_time_distribution', args=list(args))


def c17_statistics(tier, seed):
    col = MinCollector('all histories of <=2 calls over pairs (1,2),(2,1),(1,3),(2,3),(3,4),(1,1) x {point, interval} spans on instants 0..4, '
                       'the structured histories of core.histories plus 7 statistics-specific ones (several runs per pair, nodes that appear and '
                       'disappear, components that never coexist, up to 5 nodes), seeded random histories of 3..4 (thorough 3..5) calls; accepted '
                       'histories only.  DynGraph states without self-loops: coverage, node_contribution, edge_contribution, uniformity, '
                       'node_pair_uniformity, density, node_density, pair_density, snapshot_density, node_presence, avg_number_of_nodes for every '
                       'node, ordered pair and snapshot id against exact Fractions from the presence model (a measure is skipped only when its own '
                       'denominator is 0).  Both classes (self-loops included): inter-event distributions global / per node / in / out against the '
                       'gap histogram of list(G.stream_interactions()); pair forms only for mass and weighted-sum sanity.  '
                       'non-trivial = distinct representation state with at least one interaction')
    max_len = 3 if tier == 'quick' else 4
    n_random = 1500 if tier == 'quick' else 12000
    src = itertools.chain(((c, True, h) for c in ('DynGraph', 'DynDiGraph') for h in C17_STRUCTURED),
                          histories(tier, seed, pairs=C17_PAIRS, max_len=max_len, n_random=n_random, odd_ids=True))
    stats_states = iet_states = 0
    for cls, removal, h in src:
        G, M, outs = run_history(cls, removal, h)
        if any(o[0] != o[1] for o in outs):
            continue
        if not col.seen(state_key(G), bool(M.keys()), {'class': cls, 'history': h}):
            continue

        def emit(check, detail, **extra):
            col.violation(check, cls, removal, h, detail, **extra)
        if cls == 'DynGraph' and not _has_selfloop(M) and M.instants():
            stats_states += 1
            c17_stat_checks(G, M, emit)
            if stats_states % 8 == 1 and not any(c[0] == 'node' for c in h):
                # the same state with one more node that never interacts (V counts it, every T_u of it is empty)
                h2 = list(h) + [('node', 9)]
                G2, M2, _o = run_history(cls, removal, h2, probing=False)
                stats_states += 1
                c17_stat_checks(G2, M2, lambda check, detail, **extra: col.violation(check, cls, removal, h2, detail, **extra))
        if M.instants():
            iet_states += 1
            c17_iet_checks(G, M, emit)
    res = col.result(bound='<=5 nodes, instants 0..%d, histories <=%d calls' % (8 if tier == 'quick' else 9, max(6, max_len + 1)))
    res['coverage']['states_statistics'] = stats_states
    res['coverage']['states_inter_event'] = iet_states
    return res


# =========================================================================================== C19

def T_(*xs):
    return {'tuple': list(xs)}


def _real(x):
    """literal encoding of synthesised arguments -> python objects ({'tuple': [...]}, {'nxgraph': [[u,v],..]},
    {'nxdigraph': ...}, {'iter': [...]}; lists, dicts with str keys and scalars stand for themselves)"""
    if isinstance(x, dict):
        if set(x) == {'tuple'}:
            return tuple(_real(y) for y in x['tuple'])
        if set(x) == {'nxgraph'} or set(x) == {'nxdigraph'}:
            H = nx.Graph() if 'nxgraph' in x else nx.DiGraph()
            H.add_edges_from([tuple(e) for e in list(x.values())[0]])
            return H
        if set(x) == {'iter'}:
            return iter([_real(y) for y in x['iter']])
        if set(x) == {'dict'}:
            return dict((_real(k), _real(v)) for k, v in x['dict'])
        return dict((k, _real(v)) for k, v in x.items())
    if isinstance(x, (list, tuple)):
        return [_real(y) for y in x]
    return x


def raw_dump(G):
    """the raw representation: every adjacency cell with its whole attribute dict, rows, event log, snapshot counters, node dict"""
    reps = [('_succ', G._succ), ('_pred', G._pred)] if G.is_directed() else [('_adj', G._adj)]
    cells = sorted((nm, repr(a), repr(b), repr(dd)) for nm, rep in reps for a, nb in rep.items() for b, dd in nb.items())
    rows = sorted((nm, repr(a)) for nm, rep in reps for a in rep)
    tte = sorted((repr(q), sorted(map(repr, v)) if isinstance(v, dict) else repr(v)) for q, v in G.time_to_edge.items())
    return (cells, rows, tte, sorted((repr(k), v) for k, v in G.snapshots.items()), sorted((repr(n), repr(d)) for n, d in G._node.items()),
            bool(G.edge_removal))


def full_state(G):
    try:
        d = dump(G)
    except Exception as ex:
        d = ('dump raises', ex.__class__.__name__, str(ex))
    return d, raw_dump(G)


def _diff(before, after):
    """short description of what changed between two full_state values"""
    names_d = ['nodes', 'timelines', 'stream', 'snapshots', 'node attributes']
    names_r = ['cells', 'rows', 'time_to_edge', 'snapshots(raw)', '_node', 'edge_removal']
    out = []
    (d0, r0), (d1, r1) = before, after
    if len(d0) == len(d1) == 5:
        out += ['%s: %r -> %r' % (n, a, b) for n, a, b in zip(names_d, d0, d1) if a != b]
    elif d0 != d1:
        out.append('dump: %r -> %r' % (d0, d1))
    out += ['%s: %r -> %r' % (n, a, b) for n, a, b in zip(names_r, r0, r1) if a != b]
    return '; '.join(out)


def _only_nodes_changed(before, after):
    (d0, r0), (d1, r1) = before, after
    if len(d0) != 5 or len(d1) != 5:
        return False
    return d0[1:4] == d1[1:4] and r0[0] == r1[0] and r0[2:4] == r1[2:4]


def _canon_tl(tl):
    if not isinstance(tl, list) or not tl:
        return 'timeline %r is not a non-empty list' % (tl,)
    for i, iv in enumerate(tl):
        if not (isinstance(iv, list) and len(iv) == 2):
            return 'entry %r is not a [start,end] pair' % (iv,)
        if iv[0] > iv[1]:
            return 'interval %r has start > end' % (iv,)
        if i + 1 < len(tl) and not iv[1] + 1 < tl[i + 1][0]:
            return 'intervals %r and %r are not separated by an absent instant' % (iv, tl[i + 1])
    return None


def wf_problems(G, sync=True):
    """well-formedness of the representation as the property states it: every adjacency cell holds a dict with a non-empty canonical
    timeline, mirror cells share it, every node has its rows, and (removal mode) the stream and the snapshot table are in step with
    the presence recomputed from the timelines.  Returns a list of problems (empty = well-formed)."""
    out = []
    directed = G.is_directed()
    reps = [('_succ', G._succ), ('_pred', G._pred)] if directed else [('_adj', G._adj)]
    for nm, rep in reps:
        for n in G._node:
            if n not in rep:
                out.append('node %r has no row in %s' % (n, nm))
        for a in rep:
            if a not in G._node:
                out.append('row %r of %s is not a node' % (a, nm))
    pres = {}
    mirror = {'_adj': G._adj, '_succ': G._pred, '_pred': G._succ} if directed else {'_adj': G._adj}
    for nm, rep in reps:
        for a, nb in rep.items():
            for b, dd in nb.items():
                if b not in G._node:
                    out.append('%s[%r][%r]: neighbour is not a node' % (nm, a, b))
                if not isinstance(dd, dict) or 't' not in dd:
                    out.append('%s[%r][%r] = %r has no timeline' % (nm, a, b, dd))
                    continue
                p = _canon_tl(dd['t'])
                if p:
                    out.append('%s[%r][%r]: %s' % (nm, a, b, p))
                    continue
                other = mirror[nm].get(b, {}).get(a)
                if other is not dd:
                    out.append('%s[%r][%r] and its mirror cell do not share one dict' % (nm, a, b))
                if nm != '_pred':
                    k = (a, b) if directed else tuple(sorted((a, b), key=repr))
                    pres[k] = set(q for s, e in dd['t'] for q in range(s, e + 1))
    if out or not sync or not G.edge_removal:
        return out
    try:
        st = list(G.stream_interactions())
    except Exception as ex:
        return ['stream_interactions() raises %s(%s)' % (ex.__class__.__name__, ex)]
    key = (lambda a, b: (a, b)) if directed else (lambda a, b: tuple(sorted((a, b), key=repr)))
    plus = {}
    for ev in st:
        a, b, op, q = ev
        k = key(a, b)
        if k not in pres:
            out.append('stream event %r belongs to no adjacency cell' % (ev,))
        elif op == '+':
            plus.setdefault(k, set()).add(q)
    for k, S in pres.items():
        starts = set(q for q in S if q - 1 not in S)
        if plus.get(k, set()) != starts:
            out.append("pair %r: '+' events at %r, runs of the timeline start at %r" % (k, sorted(plus.get(k, ())), sorted(starts)))
    inst = {}
    for S in pres.values():
        for q in S:
            inst[q] = inst.get(q, 0) + 1
    snaps = dict(G.snapshots)
    if sorted(snaps) != sorted(inst):
        out.append('snapshot ids %r, inhabited instants %r' % (sorted(snaps), sorted(inst)))
    elif snaps != inst:
        out.append('snapshot counts %r, present interactions per instant %r' % (sorted(snaps.items()), sorted(inst.items())))
    try:
        if G.temporal_snapshots_ids() != sorted(inst):
            out.append('temporal_snapshots_ids() = %r, inhabited instants %r' % (G.temporal_snapshots_ids(), sorted(inst)))
    except Exception as ex:
        out.append('temporal_snapshots_ids() raises %r' % (ex,))
    return out


def _consume(r):
    if isinstance(r, (nx.Graph, str, bytes, dict, type)):
        return r
    if hasattr(r, '__next__') or inspect.isgenerator(r):
        return list(itertools.islice(r, 1000))
    if hasattr(r, '__iter__') and hasattr(r, '__len__') and not isinstance(r, (list, tuple, set)):
        return list(itertools.islice(iter(r), 1000))        # views
    return r


def _invoke(target, args, kwargs):
    """call with realised arguments; returns ('ok', result) | ('exc', exception)"""
    try:
        r = target(*[_real(a) for a in args], **dict((k, _real(v)) for k, v in kwargs.items()))
        return 'ok', _consume(r)
    except Exception as ex:
        return 'exc', ex


def _pick(G):
    """(a, b, c, x): endpoints of an existing interaction (or None), a third node, an unknown node"""
    rep = G._succ if G.is_directed() else G._adj
    a = b = None
    for u, nb in rep.items():
        for v in nb:
            a, b = u, v
            break
        if a is not None:
            break
    others = [n for n in G._node if n not in (a, b)]
    return a, b, (others[0] if others else None), 99


def blocked_calls(G):
    """[(target name, kind, args, kwargs)]: the methods / helpers that C19 names as blocked, with plausible arguments.
    kind 'method' -> getattr(G, name); kind 'function' -> getattr(dn, name) called with G first"""
    a, b, c, x = _pick(G)
    e_old = T_(a, b) if a is not None else T_(1, 2)
    na = a if a is not None else 1
    calls = []
    for e in (e_old, T_(x, 98), T_(na, x)):
        u, v = e['tuple']
        calls += [('add_edge', (u, v), {}), ('add_edge', (u, v), {'t': 5}), ('add_edge', (u, v), {'weight': 2}),
                  ('add_edges_from', ([e],), {}), ('add_edges_from', ([T_(u, v, {'t': [[0, 0]]})],), {}),
                  ('add_weighted_edges_from', ([T_(u, v, 1.5)],), {}), ('add_weighted_edges_from', ([T_(u, v, 1.5)], 'w'), {}),
                  ('update', ([e],), {}), ('update', (), {'edges': [e]}), ('update', (), {'edges': [e], 'nodes': [97]}),
                  ('update', ({'nxgraph': [[u, v]]},), {}),
                  ('remove_edge', (u, v), {}), ('remove_edge', (v, u), {}), ('remove_edges_from', ([e],), {}),
                  ('remove_node', (u,), {}), ('remove_nodes_from', ([u, v],), {})]
    calls += [('add_edges_from', ([],), {}), ('remove_edges_from', ([],), {}), ('remove_nodes_from', ([],), {}),
              ('add_weighted_edges_from', ([],), {})]
    views = ['edges_iter', 'in_edges', 'out_edges', 'in_edges_iter', 'out_edges_iter']
    for name in views:
        calls += [(name, (), {}), (name, ([na],), {}), (name, (), {'data': True}), (name, (na,), {})]
    out = [(n, 'method', list(ar), kw) for (n, ar, kw) in calls]
    # module-level helpers, called the way networkx documents them: (G, values, name) / (G, name)
    out += [('set_edge_attributes', 'function', [{'dict': [[e_old, 3]]}, 'w'], {}),
            ('set_edge_attributes', 'function', [7, 'w'], {}),
            ('set_edge_attributes', 'function', [{'dict': [[e_old, {'dict': [['w', 3]]}]]}], {}),
            ('get_edge_attributes', 'function', ['t'], {}),
            ('get_edge_attributes', 'function', ['w'], {})]
    return out


def _target(G, name, kind):
    if kind == 'function':
        f = getattr(dn, name)
        return lambda *a, **k: f(G, *a, **k)
    return getattr(G, name)


def check_blocked(G, name, kind, args, kwargs):
    """-> list of (check, detail) for one blocked call on G (G is mutated if the library lets the call through)"""
    if kind == 'method' and not hasattr(G, name):
        return None                                     # e.g. in_edges on the undirected class: nothing to call
    before = full_state(G)
    st, r = _invoke(_target(G, name, kind), args, kwargs)
    after = full_state(G)
    out = []
    if st == 'ok':
        out.append(('C19.blocked.%s.does_not_raise' % name, 'returned %r instead of raising NetworkXNotImplemented' % (r,)))
    elif not isinstance(r, nx.NetworkXNotImplemented):
        out.append(('C19.blocked.%s.wrong_exception' % name, 'raises %s(%s) instead of NetworkXNotImplemented' % (r.__class__.__name__, r)))
    if after != before and not _only_nodes_changed(before, after):
        # C19 asks that every interaction, timeline, snapshot id and stream event stay untouched; a node created before
        # the blocked step (networkx update(nodes=..., edges=...) adds the nodes first) is not part of that statement
        out.append(('C19.blocked.%s.state_changed.interactions' % name, 'state changed: ' + _diff(before, after)))
    return out


def inherited_callables(G):
    """[(name, owner class name, bound attribute)] public callables found by dir(G) whose defining class is a networkx class"""
    out = []
    for name in dir(G):
        if name.startswith('_'):
            continue
        try:
            attr = getattr(G, name)
        except Exception:
            continue
        if not callable(attr):
            continue
        owner = next((k for k in type(G).__mro__ if name in k.__dict__), None)
        nx_has = any(name in k.__dict__ for k in type(G).__mro__ if (k.__module__ or '').startswith('networkx'))
        overridden_untimed = (owner is not None and (owner.__module__ or '').startswith('dynetx') and nx_has
                              and name in ('clear', 'clear_edges', 'update', 'add_weighted_edges_from', 'remove_edges_from', 'remove_nodes_from'))
        if owner is None or not ((owner.__module__ or '').startswith('networkx') or overridden_untimed):
            continue
        out.append((name, owner.__name__, attr))
    return out


def _candidates(G):
    a, b, c, x = _pick(G)
    na = a if a is not None else 1
    nb = b if b is not None else 2
    node = [na, x, nb, None]
    nodes = [[na, x], [x, 98], [T_(na, {'colour': 'red'}), T_(x, {'colour': 'blue'})], [], {'iter': [na, nb]}]
    edge = [T_(na, nb), T_(x, 98), T_(na, x)]
    edges = [[T_(na, nb)], [T_(x, 98), T_(na, x)], [T_(na, nb, {'t': [[0, 0]]})], [], {'nxgraph': [[x, 98]]}]
    wedges = [[T_(na, nb, 1.5)], [T_(x, 98, 2.0)], [T_(na, x, 0.5)], []]
    by_name = {
        'node_for_adding': node, 'n': node, 'u': node, 'v': [nb, 98, x, None], 'u_of_edge': node, 'v_of_edge': [nb, 98, x, None],
        'nodes_for_adding': nodes, 'nodes': nodes, 'nbunch': [[na, x], na, None, x, {'iter': [na]}],
        'ebunch_to_add': wedges, 'ebunch': edges, 'edges': edges,
        'weight': ['weight', 't', 'w'], 'data': [True, False, 't'], 'default': [None, 0, {}], 'as_view': [False, True],
        'copy': [True, False], 'reciprocal': [False, True],
    }
    return by_name


def synth_calls(G, name, attr):
    """argument tuples for one inherited callable, chosen from its signature: a few with the required parameters only,
    a few with every parameter filled, one with keyword attributes when **attr is accepted"""
    try:
        sig = inspect.signature(attr)
    except (TypeError, ValueError):
        return [([], {})]
    by = _candidates(G)
    req, opt, varkw = [], [], False
    for p in sig.parameters.values():
        if p.kind == p.VAR_KEYWORD:
            varkw = True
        elif p.kind == p.VAR_POSITIONAL:
            continue
        elif p.default is p.empty:
            req.append(p)
        else:
            opt.append(p)

    def cand(p, i):
        c = by.get(p.name)
        if c is None:
            c = [None, 1, [1, 2]] if p.default is p.empty else [p.default, True, 1]
        return c[i % len(c)]
    calls, seen = [], set()

    def add(args, kw):
        k = repr((args, sorted(kw.items())))
        if k not in seen:
            seen.add(k)
            calls.append((args, kw))
    width = max([len(by.get(p.name, [0, 0, 0])) for p in req + opt] + [1])
    for i in range(width if req else 1):
        add([cand(p, i) for p in req], {})
    for i in range(width if opt else 0):
        add([cand(p, i) for p in req], dict((p.name, cand(p, i)) for p in opt))
        for p in opt:
            add([cand(p0, i) for p0 in req], {p.name: cand(p, i + 1)})
    if varkw:
        add([cand(p, 0) for p in req], {'t': 5})
        add([cand(p, 1) for p in req], {'colour': 'red'})
    if name == 'update':            # the two documented shapes that the name-driven synthesis does not produce
        add([{'nxgraph': [[1, 99]]}], {})
        add([], {'nodes': [99, 98]})
    return calls


def freeze_calls(G):
    """[(kind, name, args, kwargs)] valid mutator calls for a frozen graph"""
    a, b, c, x = _pick(G)
    na = a if a is not None else 1
    nb = b if b is not None else 2
    tmax = max(list(G.snapshots) + [0]) + 2
    out = [('method', 'add_node', [x], {}), ('method', 'add_node', [na], {'colour': 'red'}), ('method', 'add_nodes_from', [[x, 98]], {}),
           ('method', 'remove_node', [na], {}), ('method', 'remove_nodes_from', [[na]], {}),
           ('method', 'add_edge', [x, 98], {}), ('method', 'add_edges_from', [[T_(x, 98)]], {}),
           ('method', 'remove_edge', [na, nb], {}), ('method', 'remove_edges_from', [[T_(na, nb)]], {}),
           ('method', 'clear', [], {}), ('method', 'clear_edges', [], {}),
           ('method', 'add_interaction', [x, 98, tmax], {}), ('method', 'add_interaction', [na, nb, tmax], {}),
           ('method', 'add_interaction', [na, nb, tmax, tmax + 3], {}), ('method', 'add_interaction', [na, x], {'t': tmax}),
           ('method', 'add_interactions_from', [[T_(x, 98), T_(na, nb)], tmax], {}),
           ('method', 'add_interactions_from', [[T_(na, x)]], {'t': tmax, 'e': tmax + 2})]
    for nm in ('add_path', 'add_star', 'add_cycle'):
        out.append(('method', nm, [[na, x, 98], tmax], {}))
        out.append(('function', nm, [[na, nb, x], tmax], {}))
    return out


def check_frozen(G, kind, name, args, kwargs):
    """G: an unfrozen graph (it is frozen here). -> list of (check, detail), or None when the call does not exist"""
    r = dn.freeze(G)
    out = []
    if dn.is_frozen(G) is not True:
        out.append(('C19.freeze.is_frozen', 'is_frozen(G) = %r after freeze(G)' % (dn.is_frozen(G),)))
    if r is not G:
        out.append(('C19.freeze.is_frozen', 'freeze(G) does not return G'))
    if kind == 'method' and not hasattr(G, name):
        return out or None
    before = full_state(G)
    st, res = _invoke(_target(G, name, kind), args, kwargs)
    after = full_state(G)
    form = name if kind == 'method' else 'dn.' + name
    if st == 'ok':
        out.append(('C19.freeze.%s.does_not_raise' % form, 'call on the frozen graph returned %r instead of raising' % (res,)))
    if after != before:
        out.append(('C19.freeze.%s.state_changed' % form, 'frozen graph changed: ' + _diff(before, after)))
    return out


def check_sweep(G, name, args, kwargs):
    """G: a deep copy of a well-formed state.  -> list of (check, detail)"""
    attr = getattr(G, name)
    st, r = _invoke(attr, args, kwargs)
    out = []
    p = wf_problems(G)
    if p:
        out.append(('C19.sweep.%s.breaks_wellformedness' % name, '%s -> receiver no longer well-formed: %s'
                    % ('returned normally' if st == 'ok' else 'raised %s' % r.__class__.__name__, '; '.join(p[:3]))))
    if st == 'ok' and isinstance(r, (dn.DynGraph, dn.DynDiGraph)) and r is not G and not hasattr(r, '_graph'):
        try:
            p2 = wf_problems(r)
        except Exception as ex:
            p2 = ['well-formedness check raises %r' % (ex,)]
        if p2:
            out.append(('C19.sweep.%s.returned_graph_illformed' % name, 'returned %s is not well-formed: %s' % (r.__class__.__name__, '; '.join(p2[:3]))))
    return out


def _states(tier, seed):
    """[(cls, removal, history)] a sample of distinct reachable states, the empty graph included"""
    rng = random.Random(seed * 104729 + 7)
    quota = {True: 120 if tier == 'quick' else 900, False: 25 if tier == 'quick' else 150}
    out = []
    for cls in ('DynGraph', 'DynDiGraph'):
        for removal in (True, False):
            out.append((cls, removal, []))
            seen, pool, fixed = set(), [], []
            n = 0
            for c, r, h in histories(tier, seed, classes=(cls,), modes=(removal,), n_random=600 if tier == 'quick' else 5000):
                n += 1
                G, M, outs = run_history(c, r, h)
                if any(o[0] != o[1] for o in outs) or not M.keys():
                    continue
                k = state_key(G)
                if k in seen:
                    continue
                seen.add(k)
                (fixed if n <= 15 else pool).append((c, r, h))
            rng.shuffle(pool)
            out += fixed + pool[:max(0, quota[removal] - len(fixed))]
    return out


def c19_blocked_and_frozen(tier, seed):
    col = MinCollector('a seeded sample of distinct reachable states (both classes, both modes, the empty graph and the structured histories '
                       'included).  (a) every method C19 names as blocked, and dn.set/get_edge_attributes, with plausible arguments (existing / '
                       'new / half-new edges, keyword attributes, empty bunches, a networkx graph for update): must raise NetworkXNotImplemented and '
                       'leave dump(G) and the raw representation unchanged.  (b) every public callable found by dir(G) whose defining class is a '
                       'networkx class, called on a deep copy of each well-formed state with argument tuples synthesised from its signature: the '
                       'receiver must stay well-formed (cells with canonical timelines, shared mirror cells, rows, + events at run starts, snapshot '
                       'ids and counts = recomputed presence).  (c) after freeze: is_frozen, and 22 valid mutator calls must raise and leave the '
                       'graph unchanged.  non-trivial = distinct (state, section, callable, arguments)')
    skipped = 0
    swept = {}
    nstates = 0
    for cls, removal, h in _states(tier, seed):
        G0, M, outs = run_history(cls, removal, h)
        sk = state_key(G0)
        nstates += 1
        # (a) blocked
        for name, kind, args, kwargs in blocked_calls(G0):
            G = copy.deepcopy(G0)
            res = check_blocked(G, name, kind, args, kwargs)
            if res is None:
                continue
            col.seen((sk, 'blocked', name, kind, repr(args), repr(kwargs)), True, {'class': cls, 'history': h, 'call': name})
            for check, detail in res:
                col.violation(check, cls, removal, h, '%s%s(%s) on %s: %s' % ('dn.' if kind == 'function' else 'G.', name, _fmt(args, kwargs, kind), cls, detail),
                              section='blocked', method=name, kind=kind, args=args, kwargs=kwargs)
        # (c) freeze
        for kind, name, args, kwargs in freeze_calls(G0):
            G = copy.deepcopy(G0)
            res = check_frozen(G, kind, name, args, kwargs)
            if res is None:
                continue
            col.seen((sk, 'freeze', name, kind, repr(args), repr(kwargs)), True)
            for check, detail in res:
                col.violation(check, cls, removal, h, 'after dn.freeze(G): %s%s(%s): %s' % ('dn.' if kind == 'function' else 'G.', name, _fmt(args, kwargs, kind), detail),
                              section='freeze', method=name, kind=kind, args=args, kwargs=kwargs)
        # (b) sweep of the inherited API
        if wf_problems(G0):
            skipped += 1        # the state is already out of step (kernel findings, C03/C05): not the inherited API's doing
            continue
        for name, owner, attr in inherited_callables(G0):
            for args, kwargs in synth_calls(G0, name, attr):
                G = copy.deepcopy(G0)
                col.seen((sk, 'sweep', name, repr(args), repr(kwargs)), True)
                swept.setdefault(cls, set()).add(name)
                for check, detail in check_sweep(G, name, args, kwargs):
                    col.violation(check, cls, removal, h, 'G.%s(%s) [inherited from networkx.%s]: %s' % (name, _fmt(args, kwargs, 'method'), owner, detail),
                                  section='sweep', method=name, kind='method', args=args, kwargs=kwargs, owner=owner)
    res = col.result(bound='<=3 nodes, instants 0..4, histories <=4 calls; <=%d states per class and mode; networkx %s' % (120 if tier == 'quick' else 900, nx.__version__))
    res['coverage']['states'] = nstates
    res['coverage']['states_skipped_in_sweep_because_already_ill_formed'] = skipped
    res['coverage']['inherited_callables_swept'] = dict((k, sorted(v)) for k, v in swept.items())
    return res


def _fmt(args, kwargs, kind):
    parts = (['G'] if kind == 'function' else []) + [repr(_show(a)) for a in args] + ['%s=%r' % (k, _show(v)) for k, v in kwargs.items()]
    return ', '.join(parts)


def _show(x):
    if isinstance(x, dict):
        if set(x) == {'tuple'}:
            return tuple(_show(y) for y in x['tuple'])
        if set(x) == {'dict'}:
            return dict((_show(k), _show(v)) for k, v in x['dict'])
        if set(x) == {'iter'}:
            return 'iter(%r)' % ([_show(y) for y in x['iter']],)
        if set(x) in ({'nxgraph'}, {'nxdigraph'}):
            return 'nx.Graph(%r)' % (list(x.values())[0],)
        return dict((k, _show(v)) for k, v in x.items())
    if isinstance(x, list):
        return [_show(y) for y in x]
    return x


# =========================================================================================== replay

def _history(v):
    h = []
    for c in v['history']:
        c = list(c)
        if c[0] == 'from':
            c[1] = [tuple(p) for p in c[1]]
        elif c[0] != 'add':
            c[1] = tuple(c[1])
        h.append(tuple(c))
    return h


def replay(v):
    """re-run one violation produced by the parts of this file against the real code: 1 if it still fails, else 0"""
    cls, removal, h = v['class'], v.get('edge_removal', True), _history(v)
    G, M, outs = run_history(cls, removal, h)
    check = v['check']
    found = []
    if check.startswith('C17.'):
        def emit(c, detail, **extra):
            if c == check and extra.get('args', []) == list(v.get('args', [])) and extra.get('measure') == v.get('measure'):
                found.append(detail)
        if any(o[0] != o[1] for o in outs):
            print('replay %s: the history is no longer accepted as the model predicts (%r)' % (check, outs))
            return 1
        if cls == 'DynGraph' and not _has_selfloop(M) and M.instants():
            c17_stat_checks(G, M, emit)
        if M.instants():
            c17_iet_checks(G, M, emit)
    elif check.startswith('C19.'):
        sec, name, kind, args, kwargs = v['section'], v['method'], v.get('kind', 'method'), v.get('args', []), v.get('kwargs', {})
        if sec == 'blocked':
            res = check_blocked(G, name, kind, args, kwargs) or []
        elif sec == 'freeze':
            res = check_frozen(G, kind, name, args, kwargs) or []
        else:
            pre = wf_problems(G)
            if pre:
                print('replay %s: the state is ill-formed before the call (%s); not attributable to %s' % (check, pre[0], name))
                return 0
            res = check_sweep(G, name, args, kwargs) if hasattr(G, name) else []
        found = [d for c, d in res if c == check]
    else:
        raise ValueError('not a violation of parts_stats_api: %r' % (check,))
    if found:
        print('replay %s [%s, history %r]: STILL FAILS: %s' % (check, cls, h, found[0][:300]))
        return 1
    print('replay %s [%s, history %r]: no longer fails' % (check, cls, h))
    return 0


if __name__ == '__main__':
    import json
    import sys
    import time
    tier = sys.argv[1] if len(sys.argv) > 1 else 'quick'
    for part in (c17_statistics, c19_blocked_and_frozen):
        t0 = time.time()
        r = part(tier, 1)
        print('%s: %.1fs  evaluations %d  distinct_nontrivial %d  kinds of violations %d' % (
            part.__name__, time.time() - t0, r['coverage']['evaluations'], r['coverage']['distinct_nontrivial'], len(r['violations'])))
        for v in r['violations']:
            print('  -', v['check'], v['class'], 'x%d' % v['occurrences'], json.dumps(v['history']), '|', v['detail'][:260])
