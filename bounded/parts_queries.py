"""Bounded stand-in for C02 (every snapshot / flattened query projects the one presence relation), and for
C06 (time_slice) and C16 (conversions).  Expected values come from a networkx static graph built from the
oracle model - i.e. from the property text."""
import copy
import itertools

import networkx as nx
import dynetx as dn

from .core import Model, histories, run_history, state_key, Collector, NODES, T_LO, T_HI, qs_of, sorted
from .parts_core import QS, dump, check_canonical, check_snapshots, check_stream, timelines


def model_of(H):
    """presence model read off a graph's own timelines (every instant of every stored interval)"""
    M = Model(H.is_directed(), True)
    for k, tl in timelines(H).items():
        S = set()
        for iv in tl:
            S.update(range(iv[0], iv[1] + 1))
        M.pres[k] = S
        M.nodes.update(k)
    return M


def static_graph(M, q, G=None):
    """the static graph the property talks about: edges present at q (q None: ever), nodes = their endpoints
    (q None: all nodes of G with attributes)"""
    S = nx.DiGraph() if M.directed else nx.Graph()
    if q is None and G is not None:
        for n, d in G._node.items():
            S.add_node(n, **d)
    for k in M.edges_at(q):
        S.add_edge(k[0], k[1])
    return S


def _edge_bag(M, edges):
    out = {}
    for e in edges:
        k = (e[0], e[1]) if M.directed else tuple(sorted((e[0], e[1])))
        out[k] = out.get(k, 0) + 1
    return out


def _cmp(col, check, cls, removal, h, what, got, exp, **extra):
    if got != exp:
        col.violation(check, cls, removal, h, '%s = %r, static graph gives %r' % (what, got, exp), **extra)
        return False
    return True


def _try(f):
    try:
        return f()
    except Exception as ex:
        return 'EXC %s' % ex.__class__.__name__


def compare_queries(G, M, q, col, cls, removal, h, prefix='C02', light=False):
    S = static_graph(M, q, G)
    directed = M.directed
    tq = 't=%r' % (q,)
    nodes_all = sorted(G._node)
    # ---- interactions (each once, oriented on directed graphs)
    exp_edges = _edge_bag(M, S.edges())

    def d10(nb=None):
        """what the listing gives when only finding D10 is at work: the directed flattened iterator skips an
        edge whose target was already visited as a source"""
        if not directed:
            return None
        seen, out = set(), {}
        order = list(G._succ) if nb is None else [n for n in nb if n in G._succ]
        for n in order:
            for nbr in G._succ[n]:
                if nbr not in seen and (n, nbr) in exp_edges:
                    out[(n, nbr)] = 1
            seen.add(n)
        return out
    got = _try(lambda: _edge_bag(M, G.interactions(t=q)))
    _cmp(col, prefix + '.interactions', cls, removal, h, 'interactions(%s)' % tq, got, exp_edges, d10=(got == d10()))
    got = _try(lambda: _edge_bag(M, dn.interactions(G, t=q)))
    _cmp(col, prefix + '.dn_interactions', cls, removal, h, 'dn.interactions(G,%s)' % tq, got, exp_edges, d10=(got == d10()))
    if directed:
        for name in ('in_interactions', 'out_interactions'):
            got = _try(lambda: _edge_bag(M, getattr(G, name)(t=q)))
            _cmp(col, prefix + '.' + name, cls, removal, h, '%s(%s)' % (name, tq), got, exp_edges)
    # ---- nbunch restriction (unknown nodes silently ignored)
    for nb in ([1], [2, 9], [9], [1, 2, 3]) if not light else ([1, 9],):
        known = [n for n in nb if n in S or (q is None and n in G._node)]
        if directed:
            exp_nb = _edge_bag(M, [e for e in S.edges() if e[0] in nb])
            exp_in = _edge_bag(M, [e for e in S.edges() if e[1] in nb])
            got = _try(lambda: _edge_bag(M, G.out_interactions(nb, t=q)))
            _cmp(col, prefix + '.out_interactions_nbunch', cls, removal, h, 'out_interactions(%r,%s)' % (nb, tq), got, exp_nb)
            got = _try(lambda: _edge_bag(M, G.in_interactions(nb, t=q)))
            _cmp(col, prefix + '.in_interactions_nbunch', cls, removal, h, 'in_interactions(%r,%s)' % (nb, tq), got, exp_in)
            got = _try(lambda: _edge_bag(M, G.interactions(nb, t=q)))
            _cmp(col, prefix + '.interactions_nbunch', cls, removal, h, 'interactions(%r,%s)' % (nb, tq), got, exp_nb, d10=(got == d10(nb)))
        else:
            exp_nb = _edge_bag(M, [e for e in S.edges() if e[0] in nb or e[1] in nb])
            got = _try(lambda: _edge_bag(M, G.interactions(nb, t=q)))
            _cmp(col, prefix + '.interactions_nbunch', cls, removal, h, 'interactions(%r,%s)' % (nb, tq), got, exp_nb)
    # ---- neighbours
    for n in nodes_all:
        if directed:
            exp_s = sorted(S.successors(n)) if n in S else []
            exp_p = sorted(S.predecessors(n)) if n in S else []
            _cmp(col, prefix + '.successors', cls, removal, h, 'successors(%r,%s)' % (n, tq), _try(lambda: sorted(G.successors(n, t=q))), exp_s)
            _cmp(col, prefix + '.predecessors', cls, removal, h, 'predecessors(%r,%s)' % (n, tq), _try(lambda: sorted(G.predecessors(n, t=q))), exp_p)
            if not light:
                _cmp(col, prefix + '.successors_iter', cls, removal, h, 'successors_iter(%r,%s)' % (n, tq), _try(lambda: sorted(G.successors_iter(n, t=q))), exp_s)
                _cmp(col, prefix + '.predecessors_iter', cls, removal, h, 'predecessors_iter(%r,%s)' % (n, tq), _try(lambda: sorted(G.predecessors_iter(n, t=q))), exp_p)
                _cmp(col, prefix + '.neighbors', cls, removal, h, 'neighbors(%r,%s)' % (n, tq), _try(lambda: sorted(G.neighbors(n, q))), exp_s)
                _cmp(col, prefix + '.dn_neighbors', cls, removal, h, 'dn.neighbors(G,%r,%s)' % (n, tq), _try(lambda: sorted(dn.neighbors(G, n, q))), exp_s)
                _cmp(col, prefix + '.all_neighbors', cls, removal, h, 'dn.all_neighbors(G,%r,%s)' % (n, tq),
                     _try(lambda: sorted(dn.all_neighbors(G, n, t=q))), sorted(exp_p + exp_s))
        else:
            exp_n = sorted(S.neighbors(n)) if n in S else []
            _cmp(col, prefix + '.neighbors', cls, removal, h, 'neighbors(%r,%s)' % (n, tq), _try(lambda: sorted(G.neighbors(n, q))), exp_n)
            if not light:
                _cmp(col, prefix + '.neighbors_iter', cls, removal, h, 'neighbors_iter(%r,%s)' % (n, tq), _try(lambda: sorted(G.neighbors_iter(n, q))), exp_n)
                _cmp(col, prefix + '.dn_neighbors', cls, removal, h, 'dn.neighbors(G,%r,%s)' % (n, tq), _try(lambda: sorted(dn.neighbors(G, n, q))), exp_n)
                _cmp(col, prefix + '.all_neighbors', cls, removal, h, 'dn.all_neighbors(G,%r,%s)' % (n, tq), _try(lambda: sorted(dn.all_neighbors(G, n, t=q))), exp_n)
        if not light:
            others = sorted(set(nodes_all) - set(S.predecessors(n) if directed and n in S else []) - set(S.neighbors(n) if n in S else []) - {n})
            _cmp(col, prefix + '.non_neighbors', cls, removal, h, 'dn.non_neighbors(G,%r,%s)' % (n, tq), _try(lambda: sorted(dn.non_neighbors(G, n, t=q))), others)
    # ---- degrees
    def deg_exp(fn):
        return {n: (fn(n) if n in S else 0) for n in nodes_all}
    self_loops = any(a == b for (a, b) in exp_edges)
    # what finding D11 alone produces on DynGraph: a self-loop adds 1 (not 2) to the degree, and size / number of
    # interactions are int(sum of those degrees / 2)
    loops = {a for (a, b) in exp_edges if a == b}

    def d11_deg(n):
        return (S.degree(n) - (1 if n in loops else 0)) if n in S else 0
    d11_size = int(sum(d11_deg(n) for n in nodes_all) / 2)
    got = _try(lambda: dict(G.degree(t=q)))
    _cmp(col, prefix + '.degree', cls, removal, h, 'degree(%s)' % tq, got, deg_exp(S.degree), d11=(not directed and self_loops and got == deg_exp(d11_deg)))
    if directed:
        _cmp(col, prefix + '.in_degree', cls, removal, h, 'in_degree(%s)' % tq, _try(lambda: dict(G.in_degree(t=q))), deg_exp(S.in_degree), self_loop=self_loops)
        _cmp(col, prefix + '.out_degree', cls, removal, h, 'out_degree(%s)' % tq, _try(lambda: dict(G.out_degree(t=q))), deg_exp(S.out_degree), self_loop=self_loops)
    if not light:
        for n in nodes_all:
            got = _try(lambda: G.degree(n, t=q))
            _cmp(col, prefix + '.degree_single', cls, removal, h, 'degree(%r,%s)' % (n, tq), got, S.degree(n) if n in S else 0,
                 d11=(not directed and n in loops and got == d11_deg(n)))
        got = _try(lambda: dict(G.degree([1, 9], t=q)))
        _cmp(col, prefix + '.degree_nbunch', cls, removal, h, 'degree([1,9],%s)' % tq, got,
             {n: (S.degree(n) if n in S else 0) for n in [1] if n in G._node},
             d11=(not directed and 1 in loops and got == {n: d11_deg(n) for n in [1] if n in G._node}))
        got = _try(lambda: dict(dn.degree(G, t=q)))
        _cmp(col, prefix + '.dn_degree', cls, removal, h, 'dn.degree(G,%s)' % tq, got, deg_exp(S.degree), d11=(not directed and self_loops and got == deg_exp(d11_deg)))
        hist = nx.degree_histogram(S) if q is not None else None
        if q is not None and S.number_of_nodes():
            # histogram over the nodes of the snapshot; nodes absent at t have degree 0 in the library's view
            full = deg_exp(S.degree)
            mx = max(full.values()) if full else 0
            exp_h = [sum(1 for d in full.values() if d == i) for i in range(mx + 1)]
            alt = deg_exp(d11_deg)
            alt_h = [sum(1 for d in alt.values() if d == i) for i in range(max(alt.values()) + 1)]
            got = _try(lambda: dn.degree_histogram(G, t=q))
            _cmp(col, prefix + '.degree_histogram', cls, removal, h, 'dn.degree_histogram(G,%s)' % tq, got, exp_h, d11=(not directed and self_loops and got == alt_h))
    # ---- nodes
    exp_nodes = sorted(S.nodes())
    _cmp(col, prefix + '.nodes', cls, removal, h, 'nodes(%s)' % tq, _try(lambda: sorted(G.nodes(t=q))), exp_nodes)
    _cmp(col, prefix + '.number_of_nodes', cls, removal, h, 'number_of_nodes(%s)' % tq, _try(lambda: G.number_of_nodes(t=q)), len(exp_nodes))
    if not light:
        _cmp(col, prefix + '.dn_nodes', cls, removal, h, 'dn.nodes(G,%s)' % tq, _try(lambda: sorted(dn.nodes(G, t=q))), exp_nodes)
        _cmp(col, prefix + '.dn_number_of_nodes', cls, removal, h, 'dn.number_of_nodes(G,%s)' % tq, _try(lambda: dn.number_of_nodes(G, t=q)), len(exp_nodes))
        if not directed:
            _cmp(col, prefix + '.order', cls, removal, h, 'order(%s)' % tq, _try(lambda: G.order(t=q)), len(exp_nodes))
        _cmp(col, prefix + '.nodes_data', cls, removal, h, 'nodes(%s,data=True)' % tq,
             _try(lambda: sorted((n, sorted(d.items())) for n, d in G.nodes(t=q, data=True))),
             sorted((n, sorted(G._node[n].items())) for n in exp_nodes))
        odd = [9]
        if len(nodes_all) >= 2:
            odd += [tuple(nodes_all[:2]), tuple(reversed(nodes_all[:2]))]          # not a node, but an iterable of nodes
            if all(isinstance(x, str) for x in nodes_all[:2]):
                odd.append(''.join(nodes_all[:2]))
        for n in nodes_all + [x for x in odd if x not in G._node]:
            _cmp(col, prefix + '.has_node', cls, removal, h, 'has_node(%r,%s)' % (n, tq), _try(lambda: bool(G.has_node(n, t=q))), n in S)
    # ---- counts
    m = S.number_of_edges()
    got = _try(lambda: G.number_of_interactions(t=q))
    _cmp(col, prefix + '.number_of_interactions', cls, removal, h, 'number_of_interactions(%s)' % tq, got, m, d11=(not directed and self_loops and got == d11_size))
    got = _try(lambda: G.size(t=q))
    _cmp(col, prefix + '.size', cls, removal, h, 'size(%s)' % tq, got, m, d11=(not directed and self_loops and got == d11_size))
    if not light:
        got = _try(lambda: dn.number_of_interactions(G, t=q))
        _cmp(col, prefix + '.dn_number_of_interactions', cls, removal, h, 'dn.number_of_interactions(G,%s)' % tq, got, m,
             d11=(not directed and self_loops and got == d11_size))
        for a in nodes_all:
            for b in nodes_all:
                _cmp(col, prefix + '.number_of_interactions_pair', cls, removal, h, 'number_of_interactions(%r,%r,%s)' % (a, b, tq),
                     _try(lambda: G.number_of_interactions(a, b, t=q)), 1 if S.has_edge(a, b) else 0)
        n_ = S.number_of_nodes()
        exp_d = nx.density(S) if n_ > 1 else 0
        got = _try(lambda: dn.density(G, t=q))
        if not (isinstance(got, (int, float)) and abs(got - exp_d) < 1e-9):
            # what finding D11 (a self-loop counted once by size) makes of the density
            alt_d = (2.0 * d11_size / (n_ * (n_ - 1))) if (not directed and self_loops and n_ > 1) else None
            col.violation(prefix + '.density', cls, removal, h, 'dn.density(G,%s) = %r, static graph gives %r' % (tq, got, exp_d),
                          d12=(q is not None and got == 0),
                          d11=(not directed and bool(self_loops) and (q is None or (alt_d is not None and isinstance(got, (int, float)) and abs(got - alt_d) < 1e-9))))
        exp_non = sorted(tuple(sorted(p)) for p in nx.non_edges(nx.Graph(S).subgraph(S.nodes()))) if not directed else None
        if not directed:
            full = nx.Graph()
            full.add_nodes_from(nodes_all if q is None else exp_nodes)
            full.add_edges_from(S.edges())
            exp_non = sorted(tuple(sorted(p)) for p in nx.non_edges(full))
            _cmp(col, prefix + '.non_interactions', cls, removal, h, 'dn.non_interactions(G,%s)' % tq,
                 _try(lambda: sorted(tuple(sorted(p)) for p in dn.non_interactions(G, t=q))), exp_non)
        _cmp(col, prefix + '.is_empty', cls, removal, h, 'dn.is_empty(G)', _try(lambda: dn.is_empty(G)), len(M.keys()) == 0) if q is None else None


def c02_queries(tier, seed):
    col = Collector('reachable states of the C01 history space (both classes, removal mode; accumulative mode is covered by C08) + isolated attributed '
                    'nodes; every query entry point (methods and dn.* forms, nbunch subsets with an unknown node) at every t in -1..6 and t=None compared '
                    'with networkx on the static graph {(u,v): present at t}; non-trivial = distinct (state) with an interaction', max_violations=6)
    n_states = 0
    for cls, removal, h in histories(tier, seed, odd_ids=True, modes=(True, False), n_random=300 if tier == 'quick' else 3000):
        G, M, outs = run_history(cls, removal, h)
        if any(o[0] != o[1] for o in outs):
            continue
        if not col.seen(state_key(G), bool(M.keys()), {'class': cls, 'history': h}):
            continue
        n_states += 1
        if n_states % 3 == 0:
            G.add_node(7, colour='red')          # isolated node with attributes
        for q in qs_of(M)[1:-1] + [None]:
            compare_queries(G, M, q, col, cls, removal, h)
        # get_node_snapshots
        for n in sorted(G._node):
            exp = [q for q in M.instants() if any(n in k for k in M.edges_at(q))]
            if not removal:
                continue
            _cmp(col, 'C02.get_node_snapshots', cls, removal, h, 'get_node_snapshots(%r)' % (n,), _try(lambda: G.get_node_snapshots(n)), exp)
        if n_states > (1600 if tier == 'quick' else 12000):
            break
    return col.result(bound='<=3 nodes (+1 isolated), instants 0..4 (also shifted by -3 / +1000, and 2-node histories over 0..12), histories <=7 calls, both modes, t around every instant and None')


# ---------------------------------------------------------------------------------------------- C06

def sliced_model(M, a, b):
    M2 = Model(M.directed, True)
    for k, S in M.pres.items():
        S2 = {q for q in S if a <= q <= b}
        if S2:
            M2.pres[k] = S2
            M2.nodes.update(k)
    return M2


def c06_time_slice(tier, seed):
    col = Collector('reachable states of the C01 history space (+ node attributes) x all windows t_from<=t_to in -1..6 (and t_to omitted): the slice must '
                    'have the class of G, presence = presence of G inside the window, nodes = endpoints with G\'s attributes, G unchanged, the slice itself '
                    'well formed (C03, C04, C05 oracles), slice of slice = slice by intersection, t_to<t_from raises ValueError; '
                    'non-trivial = distinct (state, window) with an interaction in G', max_violations=8)
    n_states = 0
    for cls, removal, h in histories(tier, seed, odd_ids=True, n_random=300 if tier == 'quick' else 3000):
        G, M, outs = run_history(cls, removal, h)
        if any(o[0] != o[1] for o in outs) or not M.keys():
            continue
        sk = state_key(G)
        if sk in col.distinct:
            continue
        col.distinct.add(sk)
        n_states += 1
        for n in list(G._node):
            G._node[n]['w'] = repr(n) * 2
        if n_states % 3 == 0:
            G.add_node(8, w='isolated')          # never an endpoint: must not appear in any slice
        before = dump(G)
        inst = M.instants()
        rng = range(min(inst) - 1, min(max(inst) + 3, min(inst) + 9))
        for a in rng:
            for b in [None] + [x for x in rng if x >= a]:
                col.seen((sk, a, b), True, {'class': cls, 'history': h, 'window': [a, b]})
                try:
                    H = G.time_slice(a, b) if b is not None else G.time_slice(a)
                except Exception as ex:
                    col.violation('C06.no_exception', cls, removal, h, 'time_slice(%r,%r) raised %r' % (a, b, ex), window=[a, b])
                    continue
                bb = a if b is None else b
                M2 = sliced_model(M, a, bb)
                if H.__class__ is not G.__class__:
                    col.violation('C06.class', cls, removal, h, 'slice has class %s' % H.__class__.__name__, window=[a, b])
                for k in M.keys():
                    for (x, y) in ([k] if M.directed else [k, k[::-1]]):
                        for q in qs_of(M):
                            if bool(H.has_interaction(x, y, q)) != M2.present(x, y, q):
                                col.violation('C06.presence_inside_window', cls, removal, h,
                                              'time_slice(%r,%r).has_interaction(%r,%r,%r) = %r, expected %r' % (a, b, x, y, q, H.has_interaction(x, y, q), M2.present(x, y, q)), window=[a, b])
                if M.directed:
                    for k in M.keys():
                        if (k[1], k[0]) not in M.pres and any(H.has_interaction(k[1], k[0], q) for q in qs_of(M)):
                            col.violation('C06.orientation', cls, removal, h, 'slice contains the reverse of %r' % (k,), window=[a, b])
                if sorted(H.nodes()) != sorted(M2.nodes):
                    col.violation('C06.nodes_are_endpoints', cls, removal, h, 'time_slice(%r,%r).nodes() = %r, endpoints %r' % (a, b, sorted(H.nodes()), sorted(M2.nodes)), window=[a, b])
                for n in H.nodes():
                    if n in G._node and H._node.get(n) != G._node[n]:
                        col.violation('C06.node_attributes', cls, removal, h, 'node %r carries %r in the slice, %r in G' % (n, H._node.get(n), G._node[n]), window=[a, b])
                if dump(G) != before:
                    col.violation('C06.source_unchanged', cls, removal, h, 'G changed by time_slice(%r,%r)' % (a, b), window=[a, b])
                    before = dump(G)
                MH = model_of(H)
                check_canonical(H, MH, col, cls, removal, h, check='C06.slice_well_formed.timelines')
                check_snapshots(H, MH, col, cls, removal, h, prefix='C06.slice_well_formed')
                check_stream(H, MH, col, cls, removal, h, prefix='C06.slice_well_formed')
                if dump(dn.time_slice(G, a, b)) != dump(H):
                    col.violation('C06.functional_form', cls, removal, h, 'dn.time_slice differs from the method', window=[a, b])
                # the two live graphs do not interfere: G still answers as before after H was queried ...
                for k in M.keys():
                    for q in qs_of(M)[::2]:
                        if bool(G.has_interaction(k[0], k[1], q)) != M.present(k[0], k[1], q):
                            col.violation('C06.source_unchanged', cls, removal, h, 'after querying the slice, G.has_interaction(%r,%r,%r) is %r' % (k[0], k[1], q, G.has_interaction(k[0], k[1], q)), window=[a, b])
                # ... and H is a new graph: growing a run of H in place leaves G alone (and the other way round)
                if n_states % 2 == 0 and (a, b) in ((min(inst) - 1, None), (min(inst), max(inst)), (min(inst) - 1, max(inst) + 2)):
                    H2 = G.time_slice(a, b) if b is not None else G.time_slice(a)
                    hb = dump(H2)
                    for (x, y), tl_ in list(timelines(H2).items()):
                        H2.add_interaction(x, y, tl_[-1][1] + 1, tl_[-1][1] + 3)
                    if dump(G) != before:
                        col.violation('C06.source_unchanged', cls, removal, h, 'extending a run of the slice changed G (the slice shares interval objects with its source)', window=[a, b])
                        before = dump(G)
                    H3 = G.time_slice(a, b) if b is not None else G.time_slice(a)
                    G2 = copy.deepcopy(G)
                    h3 = dump(H3)
                    for (x, y), tl_ in list(timelines(G).items()):
                        G.add_interaction(x, y, tl_[-1][1] + 1, tl_[-1][1] + 3)
                    if dump(H3) != h3:
                        col.violation('C06.new_graph', cls, removal, h, 'extending a run of G changed a slice taken earlier', window=[a, b])
                    G = G2
                    before = dump(G)
                # slice of a slice = slice by the intersection
                if n_states % 4 == 0:
                    for c in (a, a + 1):
                        for d in (bb - 1, bb + 1):
                            if d < c:
                                continue
                            lo, hi = max(a, c), min(bb, d)
                            try:
                                HH = H.time_slice(c, d)
                            except Exception as ex:
                                col.violation('C06.slice_of_slice', cls, removal, h, 'slicing the slice raised %r' % (ex,), window=[a, b, c, d])
                                continue
                            M3 = sliced_model(M, lo, hi) if lo <= hi else Model(M.directed, True)
                            for k in M.keys():
                                for q in qs_of(M):
                                    if bool(HH.has_interaction(k[0], k[1], q)) != M3.present(k[0], k[1], q):
                                        col.violation('C06.slice_of_slice', cls, removal, h,
                                                      'slice[%r,%r] of slice[%r,%r]: pair %r at %r is %r, intersection says %r' % (c, d, a, bb, k, q, HH.has_interaction(k[0], k[1], q), M3.present(k[0], k[1], q)),
                                                      window=[a, b, c, d])
            for b in [x for x in rng if x < a][:2]:
                try:
                    G.time_slice(a, b)
                    col.violation('C06.invalid_window_raises', cls, removal, h, 'time_slice(%r,%r) did not raise' % (a, b), window=[a, b])
                except ValueError:
                    pass
                except Exception as ex:
                    col.violation('C06.invalid_window_raises', cls, removal, h, 'time_slice(%r,%r) raised %r, not ValueError' % (a, b, ex), window=[a, b])
        if col.full() or n_states > (400 if tier == 'quick' else 3000):
            break
    return col.result(bound='<=3 nodes, instants 0..4, histories <=4 calls, windows in -1..6')


# ---------------------------------------------------------------------------------------------- C16

def c16_conversions(tier, seed):
    col = Collector('reachable states of the C01 history space (+ isolated nodes, nested mutable node/graph attributes): to_directed on DynGraph, '
                    'to_undirected(reciprocal False/True) on DynDiGraph: class, nodes kept, presence relation as the property states, source unchanged, '
                    'result well formed (C03/C04/C05 oracles), deep-copy isolation of attributes; non-trivial = distinct state with an interaction',
                    max_violations=8)
    n_states = 0
    pairs = [(1, 2), (2, 1), (1, 3), (1, 1), (3, 2)]
    for cls, removal, h in histories(tier, seed, odd_ids=True, n_random=600 if tier == 'quick' else 6000, pairs=pairs):
        G, M, outs = run_history(cls, removal, h)
        if any(o[0] != o[1] for o in outs) or not M.keys():
            continue
        if not col.seen(state_key(G), True, {'class': cls, 'history': h}):
            continue
        n_states += 1
        G.add_node(8, tags=['x'])
        G.graph['meta'] = {'k': [1]}
        for n in list(G._node):
            G._node[n].setdefault('tags', ['n%s' % (n,)])
        before = dump(G)
        if cls == 'DynGraph':
            variants = [('to_directed', {})]
        else:
            variants = [('to_undirected', {}), ('to_undirected', {'reciprocal': True})]
        for name, kw in variants:
            try:
                H = getattr(G, name)(**kw)
            except Exception as ex:
                col.violation('C16.no_exception', cls, removal, h, '%s(%r) raised %r' % (name, kw, ex), call=[name, kw])
                continue
            M2 = Model(name == 'to_directed', True)
            if name == 'to_directed':
                for k, S in M.pres.items():
                    M2.pres[(k[0], k[1])] = set(S)
                    M2.pres[(k[1], k[0])] = set(S)
            else:
                for k, S in M.pres.items():
                    kk = tuple(sorted(k))
                    rev = M.pres.get((k[1], k[0]), set())
                    S2 = (S & rev) if kw.get('reciprocal') else (S | rev)
                    if S2:
                        M2.pres[kk] = set(S2)
            want_cls = 'DynDiGraph' if name == 'to_directed' else 'DynGraph'
            if H.__class__.__name__ != want_cls:
                col.violation('C16.class', cls, removal, h, '%s returns a %s' % (name, H.__class__.__name__), call=[name, kw])
            if sorted(H.nodes()) != sorted(G.nodes()):
                col.violation('C16.nodes_kept', cls, removal, h, '%s: nodes %r, source has %r' % (name, sorted(H.nodes()), sorted(G.nodes())), call=[name, kw])
            for a in sorted(G._node):
                for b in sorted(G._node):
                    for q in qs_of(M):
                        if bool(H.has_interaction(a, b, q)) != M2.present(a, b, q):
                            # finding D09b: to_directed creates only the orientation in which the undirected pair is listed
                            d09b = (name == 'to_directed' and M2.present(a, b, q) and not H.has_interaction(a, b) and
                                    all(bool(H.has_interaction(b, a, qq)) == M2.present(b, a, qq) for qq in qs_of(M)))
                            col.violation('C16.presence', cls, removal, h,
                                          '%s(%r).has_interaction(%r,%r,%r) = %r, expected %r' % (name, kw, a, b, q, H.has_interaction(a, b, q), M2.present(a, b, q)),
                                          call=[name, kw], d09=d09b)
            if dump(G) != before:
                col.violation('C16.source_unchanged', cls, removal, h, '%s changed the source graph' % name, call=[name, kw])
                before = dump(G)
            MH = model_of(H)       # well-formedness (C02-C05) is judged against the result's own presence relation
            check_canonical(H, MH, col, H.__class__.__name__, removal, h, check='C16.result_well_formed.timelines')
            check_snapshots(H, MH, col, H.__class__.__name__, removal, h, prefix='C16.result_well_formed')
            check_stream(H, MH, col, H.__class__.__name__, removal, h, prefix='C16.result_well_formed')
            # isolation
            try:
                for n in H._node:
                    H._node[n].setdefault('tags', []).append('mutated')
                H.graph.setdefault('meta', {}).setdefault('k', []).append(2)
                H.add_interaction(1, 2, 5000)
                for (a_, b_), tl_ in list(timelines(H).items()):
                    if tl_[-1][1] < 4000:
                        H.add_interaction(a_, b_, tl_[-1][1] + 1, tl_[-1][1] + 3)     # grows the latest run in place
            except Exception as ex:
                col.violation('C16.result_usable', cls, removal, h, 'mutating the result raised %r' % (ex,), call=[name, kw])
            if dump(G) != before or G.graph.get('meta') != {'k': [1]}:
                col.violation('C16.deep_copy_isolation', cls, removal, h, 'mutating the result of %s changed the source (%r)' % (name, G.graph), call=[name, kw])
                G.graph['meta'] = {'k': [1]}
                before = dump(G)
        if col.full() or n_states > (1500 if tier == 'quick' else 8000):
            break
    return col.result(bound='<=3 nodes (+1 isolated), instants 0..4 (also shifted, and 2-node multi-run histories over 0..12), histories <=7 calls')


# ---------------------------------------------------------------------------------------------- C03 (derived graphs)

def c03_derived_constructors(tier, seed):
    """every graph the library itself produces from a reachable graph has canonical timelines that are its own"""
    import json
    import os
    import shutil
    import tempfile
    from dynetx.readwrite import json_graph
    col = Collector('reachable states of the C01 history space (incl. shifted and multi-run histories) x the library\'s own constructors: time_slice '
                    '(5 windows), to_directed / to_undirected(reciprocal False, True), read_snapshots(write_snapshots), read_interactions(write_interactions), '
                    'node_link_graph(json round trip): every timeline of the result must be canonical (sorted, disjoint, non-adjacent, start<=end), the two '
                    'directions of an undirected pair must share it, and no interval object may be shared with the source graph; '
                    'non-trivial = distinct (state, constructor) with an interaction', max_violations=6)
    tmp = tempfile.mkdtemp(prefix='c03d')
    try:
        n_states = 0
        for cls, removal, h in histories(tier, seed, odd_ids=True, n_random=200 if tier == 'quick' else 3000):
            G, M, outs = run_history(cls, removal, h)
            if any(o[0] != o[1] for o in outs) or not M.keys():
                continue
            sk = state_key(G)
            if sk in col.distinct:
                continue
            col.distinct.add(sk)
            n_states += 1
            directed = G.is_directed()
            inst = M.instants()
            lo, hi = min(inst), max(inst)
            made = []
            for (a, b) in ((lo, hi), (lo + 1, hi - 1), (lo, lo), (hi, hi), (lo - 1, lo + 1)):
                if a <= b:
                    made.append(('time_slice(%d,%d)' % (a, b), lambda a=a, b=b: G.time_slice(a, b)))
            if directed:
                made.append(('to_undirected()', lambda: G.to_undirected()))
                made.append(('to_undirected(reciprocal=True)', lambda: G.to_undirected(reciprocal=True)))
            else:
                made.append(('to_directed()', lambda: G.to_directed()))

            def via_snapshots():
                p = os.path.join(tmp, 's.txt')
                dn.write_snapshots(G, p)
                return dn.read_snapshots(p, nodetype=int, timestamptype=int, directed=directed)

            def via_interactions():
                p = os.path.join(tmp, 'i.txt')
                dn.write_interactions(G, p)
                return dn.read_interactions(p, nodetype=int, timestamptype=int, directed=directed)

            def via_json():
                return json_graph.node_link_graph(json.loads(json.dumps(json_graph.node_link_data(G))))
            made.append(('node_link_graph(node_link_data)', via_json))
            if all(isinstance(n, int) and not isinstance(n, bool) for n in G.nodes()):
                # (the edge-list files carry node ids as text: the round trip with nodetype=int is only meaningful for int ids)
                made += [('read_snapshots(write_snapshots)', via_snapshots), ('read_interactions(write_interactions)', via_interactions)]
            src_ids = set(id(iv) for tl in timelines(G).values() for iv in tl) | set(id(tl) for tl in timelines(G).values())
            for name, mk in made:
                col.seen((sk, name), True, {'class': cls, 'history': h, 'constructor': name})
                try:
                    H = mk()
                except Exception as ex:
                    col.violation('C03.derived.no_exception', cls, removal, h, '%s raised %r' % (name, ex), constructor=name)
                    continue
                MH = model_of(H)
                check_canonical(H, MH, col, H.__class__.__name__, removal, h, check='C03.derived.canonical_timeline')
                if col.violations and col.violations[-1]['check'] == 'C03.derived.canonical_timeline' and 'constructor' not in col.violations[-1]:
                    col.violations[-1]['constructor'] = name
                shared = [k for k, tl in timelines(H).items() if id(tl) in src_ids or any(id(iv) in src_ids for iv in tl)]
                if shared:
                    col.violation('C03.derived.timeline_objects_not_shared_with_source', cls, removal, h,
                                  '%s: the result stores interval objects of the source graph for %r (a later add to either graph changes both)' % (name, shared[:2]),
                                  constructor=name)
            if col.full() or n_states > (300 if tier == 'quick' else 3000):
                break
    finally:
        shutil.rmtree(tmp, ignore_errors=True)
    return col.result(bound='<=3 nodes, instants 0..4 (also shifted / 2-node multi-run over 0..12), histories <=7 calls, 8-9 constructors per state')
