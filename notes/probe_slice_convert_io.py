import dynetx as dn, json, io, os, tempfile
from dynetx.readwrite import json_graph
def T(title, f):
    print("##", title)
    try:
        r = f()
        print("   ->", r)
    except Exception as ex:
        print("   EXC", type(ex).__name__, ex)
def tl(G): return [(u,v,d['t']) for u,v,d in G.interactions()]
# C06 time_slice
G = dn.DynGraph()
G.add_interaction(1,2,0,10); G.add_interaction(2,3,5); G.add_node(9, x=1)
T("slice(3,6)", lambda: tl(G.time_slice(3,6)))
T("slice(5)", lambda: tl(G.time_slice(5)))
T("slice(5) has", lambda: G.time_slice(5).has_interaction(2,3,5))
T("slice(0,20)", lambda: tl(G.time_slice(0,20)))
T("slice(-5,3)", lambda: tl(G.time_slice(-5,3)))
T("slice(20,30)", lambda: (tl(G.time_slice(20,30)), G.time_slice(20,30).nodes()))
T("slice nodes", lambda: G.time_slice(0,20).nodes(data=True))
H = G.time_slice(0,20); H._node[1]['z']=5
T("G node attr aliasing", lambda: G._node[1])
# C16 conversions
T("to_directed", lambda: tl(G.to_directed()))
T("to_directed out", lambda: G.to_directed().out_interactions())
D = dn.DynDiGraph(); D.add_interaction(1,2,0,5); D.add_interaction(2,1,3,8); D.add_interaction(3,3,1); D.add_node(7)
T("D tl", lambda: D.out_interactions())
T("to_undirected", lambda: tl(D.to_undirected()))
T("to_undirected recip", lambda: tl(D.to_undirected(reciprocal=True)))
# C09
U = dn.DynGraph(); U.add_interaction(1,2,0,3); U.add_interaction(1,2,6); U.add_interaction(2,3,1)
def rt_snap(G, directed=False, **kw):
    p = tempfile.mktemp()
    dn.write_snapshots(G, p, **kw)
    print("   file:", open(p).read().replace("\n","|"))
    H = dn.read_snapshots(p, nodetype=int, timestamptype=int, directed=directed, **kw)
    os.remove(p)
    return tl(H) if not directed else H.out_interactions()
T("snap rt U", lambda: rt_snap(U))
T("snap rt U delim", lambda: rt_snap(U, delimiter=','))
T("snap rt D", lambda: rt_snap(D, directed=True))
def rt_int(G, directed=False, **kw):
    p = tempfile.mktemp()
    dn.write_interactions(G, p, **kw)
    print("   file:", open(p).read().replace("\n","|"))
    H = dn.read_interactions(p, nodetype=int, timestamptype=int, directed=directed, **kw)
    os.remove(p)
    return (tl(H) if not directed else H.out_interactions()), list(H.stream_interactions())
T("int rt U", lambda: rt_int(U))
T("int rt D", lambda: rt_int(D, directed=True))
V = dn.DynGraph(); V.add_interaction(1,2,0); V.add_interaction(1,2,1)
T("int rt V", lambda: rt_int(V))
# gz / fileobj
def gz():
    p = tempfile.mktemp()+".gz"
    dn.write_snapshots(U, p); H = dn.read_snapshots(p, nodetype=int, timestamptype=int); os.remove(p); return tl(H)
T("gz", gz)
def fobj():
    b = io.BytesIO(); dn.write_snapshots(U, b); b.seek(0); return tl(dn.read_snapshots(b, nodetype=int, timestamptype=int))
T("fileobj", fobj)
# C11
T("json U", lambda: json.dumps(json_graph.node_link_data(U)))
T("json D", lambda: json.dumps(json_graph.node_link_data(D)))
def jrt(G):
    H = json_graph.node_link_graph(json.loads(json.dumps(json_graph.node_link_data(G))))
    return type(H).__name__, H.nodes(data=True), (H.out_interactions() if H.is_directed() else tl(H)), H.graph
G.graph['name2']='x'
T("jrt G", lambda: jrt(G))
T("jrt D", lambda: jrt(D))
