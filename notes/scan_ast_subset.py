import ast, collections, sys
files = {
 "dynetx/classes/dyngraph.py": None, "dynetx/classes/dyndigraph.py": None, "dynetx/classes/function.py": None,
 "dynetx/readwrite/edgelist.py": None, "dynetx/readwrite/json_graph/node_link.py": None,
 "dynetx/algorithms/paths.py": None, "dynetx/algorithms/assortativity.py": None,
 "dynetx/utils/decorators.py": None, "dynetx/utils/transform.py": None}
nodes = collections.Counter(); calls = collections.Counter(); meths = collections.Counter(); perfn = {}
for f in files:
    tree = ast.parse(open("/repo/"+f).read())
    for fn in ast.walk(tree):
        if isinstance(fn,(ast.FunctionDef,)):
            body = [s for s in fn.body if not (isinstance(s, ast.Expr) and isinstance(getattr(s,'value',None), ast.Constant) and isinstance(s.value.value,str))]
            kinds=set()
            for s in body:
                for n in ast.walk(s):
                    k=type(n).__name__
                    if k in ("Load","Store","Del","Name","Constant","Attribute","Expr","arguments","arg","keyword"): continue
                    nodes[k]+=1; kinds.add(k)
                    if isinstance(n, ast.Call):
                        if isinstance(n.func, ast.Name): calls[n.func.id]+=1
                        elif isinstance(n.func, ast.Attribute): meths[n.func.attr]+=1
            perfn[f.split("/")[-1]+"::"+fn.name]=kinds
print("NODE KINDS:", sorted(nodes.items(), key=lambda x:-x[1]))
print("BUILTIN/NAME CALLS:", sorted(calls.items(), key=lambda x:-x[1]))
print("METHOD CALLS:", sorted(meths.items(), key=lambda x:-x[1]))
rare = {"While","Try","Yield","Lambda","ListComp","DictComp","GeneratorExp","SetComp","JoinedStr","Starred","With","Global","IfExp","Slice","Raise","Delete","AugAssign","BoolOp","Break","Continue"}
for k,v in sorted(perfn.items()):
    r = sorted(v & rare)
    if r: print(f"{k:55s} {r}")
