from z3 import *
import time
# model search for the false clause: D06 path, strong invariant, 'closed' — unroll index quantifiers for n in 1..3, q-quantifiers by instantiation set
S = Array('S', IntSort(), IntSort()); E = Array('E', IntSort(), IntSort())
Plus = Array('Plus', IntSort(), BoolSort()); Minus = Array('Minus', IntSort(), BoolSort())
t0, t1 = Ints('t0 t1')
for n in (1,2,3):
    s = Solver(); s.set('timeout', 20000)
    idx = range(n)
    for i in idx:
        s.add(S[i] <= E[i])
        for j in idx:
            if i < j: s.add(E[i] + 1 < S[j])
        s.add(Plus[S[i]])
        s.add(Implies(E[i]-S[i] >= 1, Minus[E[i]+1]))
    q = Int('q')
    s.add(ForAll([q], Implies(Plus[q], Or(*[S[i]==q for i in idx]))))
    s.add(ForAll([q], Implies(Minus[q], Or(*[E[i]+1==q for i in idx]))))
    le, ls = E[n-1], S[n-1]
    s.add(t0 == t1, ls == le, t0 == le + 1)
    E2 = Store(E, n-1, t1); Minus3 = Store(Minus, le+1, False)
    goal = And(*[Implies(E2[i]-S[i] >= 1, Minus3[E2[i]+1]) for i in idx])
    s.add(Not(goal))
    st=time.time(); r = s.check(); print("n=",n, r, f"{time.time()-st:.2f}s")
    if r == sat:
        m = s.model()
        print("  timeline:", [(m.eval(S[i]), m.eval(E[i])) for i in idx], "t0=", m.eval(t0), "Minus:", m.eval(Minus), "Plus:", m.eval(Plus))
        break
