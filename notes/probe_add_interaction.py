import dynetx as dn, itertools, traceback
def show(G):
    print(" inter:", [(u,v,d['t']) for u,v,d in G.interactions()])
    print(" snaps:", G.snapshots)
    print(" stream:", list(G.stream_interactions()))
def run(calls, cls=dn.DynGraph, **kw):
    G=cls(**kw)
    for c in calls:
        try:
            G.add_interaction(*c)
        except Exception as ex:
            print(" EXC", c, type(ex).__name__, ex)
    print(calls); show(G); return G
# basic
run([(1,2,0)])
run([(1,2,0),(1,2,1)])
run([(1,2,0),(1,2,1),(1,2,2)])
run([(1,2,0),(1,2,0)])
run([(1,2,0,5),(1,2,2)])
run([(1,2,0,5),(1,2,2,4)])
run([(1,2,0,5),(1,2,3,8)])
run([(1,2,0,5),(1,2,5,8)])
run([(1,2,0,5),(1,2,6,8)])
run([(1,2,0,5),(1,2,7,8)])
run([(1,2,3,5),(1,2,1)])
run([(1,2,0),(1,2,1,4)])
run([(1,2,0,3),(2,1,1,5)])
run([(1,2,0,1)])
run([(1,2,5,5)])
run([(1,2,5,3)])
run([(1,1,0)])
run([(1,2,0),(3,4,0),(1,2,1),(3,4,1)])
run([(1,2,0,3),(3,4,3,5),(1,2,3,6)])
