import itertools, collections
import dynetx as dn
T = range(0,4)
calls = []
for (u,v) in [(1,2),(2,1),(3,4)]:
    for t in T:
        calls.append((u,v,t,None))
        for e in (t, t+2): calls.append((u,v,t,e))
def check(cls, hist):
    G = cls(edge_removal=False); directed = cls is dn.DynDiGraph
    key = (lambda u,v: (u,v)) if directed else (lambda u,v: tuple(sorted((u,v))))
    first = {}; accepted = set(); laststart = {}
    for (u,v,t,e) in hist:
        k = key(u,v)
        try:
            G.add_interaction(u,v,t,e)
            first.setdefault(k, t); accepted.add(t)
        except ValueError:
            pass
        except Exception as ex:
            return "EXC %r" % ex, hist
    ids = G.temporal_snapshots_ids()
    if ids != sorted(accepted): return "C08 ids", hist, ids, sorted(accepted)
    mx = max(ids) if ids else None
    for k,f in first.items():
        for q in range(-1,7):
            exp = f <= q <= mx
            if G.has_interaction(k[0],k[1],q) != exp: return "C08 presence", hist, k, q
    st = list(G.stream_interactions())
    if any(op=='-' for _,_,op,_ in st): return "C08 minus", hist, st
    plus = collections.Counter(key(a,b) for a,b,op,q in st)
    if set(plus) != set(first) or any(c!=1 for c in plus.values()): return "C08 plus count", hist, st
    for a,b,op,q in st:
        if q != first[key(a,b)]: return "C08 plus time", hist, st
    return None
for label in ("candidate",):
    res = collections.Counter(); ex={}
    for cls in (dn.DynGraph, dn.DynDiGraph):
        for n in (1,2,3):
            for hist in itertools.product(calls, repeat=n):
                r = check(cls, hist)
                if r: res[(cls.__name__, r[0])]+=1; ex.setdefault((cls.__name__, r[0]), r)
    print(dn.__file__, res)
    for k,v in ex.items(): print(k, v)
