# feasibility spike: quantified timeline VCs in z3 (hand-encoded paths of the merge)
from z3 import *
import time
S = Array('S', IntSort(), IntSort()); E = Array('E', IntSort(), IntSort()); n = Int('n')
t0, t1, q = Ints('t0 t1 q')
i, j = Ints('i j')
def canon(S,E,n):
    return And(n >= 1,
               ForAll([i], Implies(And(0 <= i, i < n), S[i] <= E[i])),
               ForAll([i], Implies(And(0 <= i, i + 1 < n), E[i] + 1 < S[i+1])))
def pres(S,E,n,q):
    return Exists([i], And(0 <= i, i < n, S[i] <= q, q <= E[i]))
pre = And(canon(S,E,n), t0 <= t1)
last_s, last_e = S[n-1], E[n-1]
paths = {
 # (path condition, S', E', n')
 'point_extend': (And(last_e == last_s, t0 == last_s + 1), S, Store(E, n-1, t1), n),
 'overlap_extend': (And(Not(And(last_e == last_s, t0 == last_s + 1)), t0 >= last_s, t0 <= last_e, last_e < t1), S, Store(E, n-1, t1), n),
 'adjacent': (And(Not(And(last_e == last_s, t0 == last_s + 1)), t0 >= last_s, Not(And(t0 <= last_e, last_e < t1)), last_e == t0 - 1), S, Store(E, n-1, t1), n),
 'append_buggy': (And(Not(And(last_e == last_s, t0 == last_s + 1)), t0 >= last_s, Not(And(t0 <= last_e, last_e < t1)), last_e != t0 - 1), Store(S, n, t0), Store(E, n, t1), n+1),
 'append_fixed': (And(Not(And(last_e == last_s, t0 == last_s + 1)), t0 >= last_s, Not(And(t0 <= last_e, last_e < t1)), last_e != t0 - 1, t0 > last_e), Store(S, n, t0), Store(E, n, t1), n+1),
 'contained_fixed': (And(Not(And(last_e == last_s, t0 == last_s + 1)), t0 >= last_s, t1 <= last_e), S, E, n),
}
for name,(pc,S2,E2,n2) in paths.items():
    for oname, post in [('canon', canon(S2,E2,n2)),
                        ('presence', ForAll([q], pres(S2,E2,n2,q) == Or(pres(S,E,n,q), And(t0 <= q, q <= t1))))]:
        s = Solver(); s.set('timeout', 20000)
        s.add(pre, pc, Not(post))
        st = time.time(); r = s.check(); dt = time.time()-st
        print(f"{name:16s} {oname:9s} {r} {dt:.2f}s")
        if r == sat:
            m = s.model()
            nn = m.eval(n).as_long()
            print("    cex: n=",nn, "t0,t1=", m.eval(t0), m.eval(t1), "last=", m.eval(last_s), m.eval(last_e))
