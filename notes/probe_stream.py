import dynetx as dn
def run(calls, cls=dn.DynGraph):
    G=cls()
    for c in calls:
        try: G.add_interaction(*c)
        except Exception as ex: print(" EXC", c, type(ex).__name__, ex)
    print(calls, "\n   tl:", [(u,v,d['t']) for u,v,d in (G.interactions() if cls is dn.DynGraph else G.out_interactions())], "\n   stream:", list(G.stream_interactions()), "\n   ips:", G.interactions_per_snapshots())
    return G
run([(1,2,0,3),(1,2,0,6)])
run([(1,2,0),(3,4,1),(1,2,0,5)])
run([(1,2,0),(1,2,1),(1,2,1,5)])
run([(1,2,0,3),(1,2,3,3)])
run([(1,2,0,3),(1,2,3)])
run([(1,2,0,3),(1,2,2)])
run([(1,2,0,3),(1,2,3,6)], dn.DynDiGraph)
G = run([(1,2,5,5),(1,2,3)])
print(G.has_interaction(1,2), [q for q in range(0,8) if G.has_interaction(1,2,q)])
