from z3 import *
import time
set_option("smt.mbqi", False)
Node = DeclareSort('Node')
R = Function('R', Node, Node, BoolSort())      # symmetric relation "adjacent and present at t"
V = Function('V', Node, BoolSort())            # visited outer (== seen)
Y = Function('Y', Node, Node, IntSort())       # multiplicity of yielded (a,b)
V2 = Function('V2', Node, BoolSort()); Y2 = Function('Y2', Node, Node, IntSort())
a, b = Consts('a b', Node); nn = Const('nn', Node)
def b2i(x): return If(x,1,0)
sym = ForAll([a,b], R(a,b) == R(b,a), patterns=[R(a,b)])
def inv(V,Y):
    return [ForAll([a,b], Y(a,b) >= 0, patterns=[Y(a,b)]),
            ForAll([a,b], Implies(a != b, Y(a,b) + Y(b,a) == b2i(And(R(a,b), Or(V(a), V(b))))), patterns=[Y(a,b)]),
            ForAll([a], Y(a,a) == b2i(And(R(a,a), V(a))), patterns=[Y(a,a)]),
            ForAll([a,b], Implies(Y(a,b) > 0, V(a)), patterns=[Y(a,b)])]
# one outer iteration for node nn not yet visited; inner loop summary (from inner invariant at exit):
step = [Not(V(nn)),
        ForAll([a], V2(a) == Or(V(a), a == nn), patterns=[V2(a)]),
        ForAll([a,b], Y2(a,b) == If(a == nn, Y(a,b) + b2i(And(R(nn,b), Not(V(b)))), Y(a,b)), patterns=[Y2(a,b)])]
def prove(name, hyps, goal):
    s = Solver(); s.set('timeout', 20000); s.add(*hyps); s.add(Not(goal))
    st=time.time(); r=s.check(); print(f"{name:30s} {r} {time.time()-st:.2f}s")
for k,g in enumerate(inv(V2,Y2)):
    prove(f"outer inv conjunct {k}", [sym]+inv(V,Y)+step, g)
# broken variant: 'seen' check dropped -> Y2 adds b2i(R(nn,b)) regardless of V(b): conjunct 1 must fail
stepB = [Not(V(nn)), step[1],
         ForAll([a,b], Y2(a,b) == If(a == nn, Y(a,b) + b2i(R(nn,b)), Y(a,b)), patterns=[Y2(a,b)])]
set_option("smt.mbqi", True)
prove("BROKEN (no seen) conjunct 1", [sym]+inv(V,Y)+stepB, inv(V2,Y2)[1])
