from z3 import *
import time
set_option("smt.mbqi", False)   # rely on E-matching with explicit witness functions
S = Array('S', IntSort(), IntSort()); E = Array('E', IntSort(), IntSort()); n = Int('n')
Plus = Array('Plus', IntSort(), BoolSort()); Minus = Array('Minus', IntSort(), BoolSort())
Cnt = Array('Cnt', IntSort(), IntSort()); Rest = Function('Rest', IntSort(), IntSort())
Pv = Array('Pv', IntSort(), BoolSort())          # ghost: presence set of the pair
wS = Function('wS', IntSort(), IntSort()); wE = Function('wE', IntSort(), IntSort()); wP = Function('wP', IntSort(), IntSort())
t0, t1, q = Ints('t0 t1 q'); i, j = Ints('i j')
def inb(i,n): return And(0 <= i, i < n)
def canon_h(S,E,n):
    return [n >= 1, ForAll([i], Implies(inb(i,n), S[i] <= E[i]), patterns=[S[i]]),
            ForAll([i,j], Implies(And(0 <= i, i < j, j < n), E[i] + 1 < S[j]), patterns=[MultiPattern(E[i], S[j])])]
# hypotheses in skolemised form
def link_h(S,E,n,Pv,wP):
    return [ForAll([q], Implies(Pv[q], And(inb(wP(q),n), S[wP(q)] <= q, q <= E[wP(q)])), patterns=[Pv[q]]),
            ForAll([i,q], Implies(And(inb(i,n), S[i] <= q, q <= E[i]), Pv[q]), patterns=[MultiPattern(S[i], Pv[q])])]
def I4_h(S,E,n,Plus,Minus,k):
    return [ForAll([q], Implies(Plus[q], And(inb(wS(q),n), S[wS(q)] == q)), patterns=[Plus[q]]),
            ForAll([i], Implies(inb(i,n), Plus[S[i]]), patterns=[S[i]]),
            ForAll([q], Implies(Minus[q], And(inb(wE(q),n), E[wE(q)] + 1 == q)), patterns=[Minus[q]]),
            ForAll([i], Implies(And(inb(i,n), E[i]-S[i] >= k), Minus[E[i]+1]), patterns=[E[i]])]
# goals (each proved separately), existential form
def I4_goals(S,E,n,Plus,Minus,k):
    return {"plus=>start": ForAll([q], Implies(Plus[q], Exists([i], And(inb(i,n), S[i]==q)))),
            "start=>plus": ForAll([i], Implies(inb(i,n), Plus[S[i]])),
            "minus=>end+1": ForAll([q], Implies(Minus[q], Exists([i], And(inb(i,n), E[i]+1==q)))),
            "closed": ForAll([i], Implies(And(inb(i,n), E[i]-S[i] >= k), Minus[E[i]+1]))}
def link_goals(S,E,n,Pv):
    return {"Pv=>cover": ForAll([q], Implies(Pv[q], Exists([i], And(inb(i,n), S[i]<=q, q<=E[i])))),
            "cover=>Pv": ForAll([i,q], Implies(And(inb(i,n), S[i]<=q, q<=E[i]), Pv[q]))}
def prove(name, hyps, goal, to=20000):
    s = Solver(); s.set('timeout', to); s.add(*hyps); s.add(Not(goal))
    st=time.time(); r = s.check(); print(f"{name:44s} {r} {time.time()-st:.2f}s"); return r
le, ls = E[n-1], S[n-1]
k = Int('k')
# ---------- extend path (e given)
pc = [t0 <= t1, t0 >= ls, t1 > le, t0 <= le + 1]
E2 = Store(E, n-1, t1); Minus2 = Store(Store(Minus, le+1, False), t1+1, True)
Pv2 = Lambda([k], Or(Pv[k], And(le+1 <= k, k <= t1)))
Cnt2 = Lambda([k], Cnt[k] + If(And(le + 1 <= k, k <= t1), 1, 0))
base = canon_h(S,E,n) + link_h(S,E,n,Pv,wP) + I4_h(S,E,n,Plus,Minus,2) + [ForAll([q], Cnt[q] == Rest(q) + If(Pv[q],1,0), patterns=[Cnt[q]])]
for gname, g in I4_goals(S,E2,n,Plus,Minus2,2).items(): prove("extend I4weak "+gname, base+pc, g)
for gname, g in link_goals(S,E2,n,Pv2).items(): prove("extend link "+gname, base+pc, g)
prove("extend I3 step", base+pc, ForAll([q], Cnt2[q] == Rest(q) + If(Pv2[q],1,0)))
prove("extend presence-union (via Pv)", base+pc, ForAll([q], Pv2[q] == Or(Pv[q], And(t0<=q, q<=t1))))
# ---------- D06 path, strong invariant
pcD = [t0 == t1, ls == le, t0 == le + 1]; Minus3 = Store(Minus, le+1, False)
baseS = canon_h(S,E,n) + link_h(S,E,n,Pv,wP) + I4_h(S,E,n,Plus,Minus,1)
for gname, g in I4_goals(S,E2,n,Plus,Minus3,1).items(): prove("D06 I4strong "+gname, baseS+pcD, g)
for gname, g in I4_goals(S,E2,n,Plus,Minus3,2).items(): prove("D06 I4weak "+gname, base+pcD, g)
# ---------- append path
pcA = [t0 <= t1, t0 > le + 1]
S4 = Store(S, n, t0); E4 = Store(E, n, t1); Plus4 = Store(Plus, t0, True); Minus4 = Store(Minus, t1+1, True)
Pv4 = Lambda([k], Or(Pv[k], And(t0 <= k, k <= t1))); Cnt4 = Lambda([k], Cnt[k] + If(And(t0 <= k, k <= t1), 1, 0))
for gname, g in I4_goals(S4,E4,n+1,Plus4,Minus4,2).items(): prove("append I4weak "+gname, base+pcA, g)
for gname, g in link_goals(S4,E4,n+1,Pv4).items(): prove("append link "+gname, base+pcA, g)
prove("append I3 step", base+pcA, ForAll([q], Cnt4[q] == Rest(q) + If(Pv4[q],1,0)))
# ---------- lemma: start-based <=> view-based
prove("lemma: Plus[q] <=> Pv[q] & ~Pv[q-1]", canon_h(S,E,n)+link_h(S,E,n,Pv,wP)+I4_h(S,E,n,Plus,Minus,2), ForAll([q], Plus[q] == And(Pv[q], Not(Pv[q-1]))))
prove("lemma: Minus[q] => Pv[q-1] & ~Pv[q]", canon_h(S,E,n)+link_h(S,E,n,Pv,wP)+I4_h(S,E,n,Plus,Minus,2), ForAll([q], Implies(Minus[q], And(Pv[q-1], Not(Pv[q])))))
# canon preservation in transitive form
def canon_goals(S,E,n):
    return {"n>=1": n >= 1, "s<=e": ForAll([i], Implies(inb(i,n), S[i] <= E[i])), "sep": ForAll([i,j], Implies(And(0<=i, i<j, j<n), E[i]+1 < S[j]))}
for gname,g in canon_goals(S,E2,n).items(): prove("extend canon "+gname, base+pc, g)
for gname,g in canon_goals(S4,E4,n+1).items(): prove("append canon "+gname, base+pcA, g)
