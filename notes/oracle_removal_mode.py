import itertools, sys, copy
import dynetx as dn
print(dn.__file__)
T = range(0,5)
calls = []
for (u,v) in [(1,2),(2,1),(1,3),(1,1)]:
    for t in T:
        calls.append((u,v,t,None))
        for e in range(t+1, 6):
            calls.append((u,v,t,e))
def span(t,e): return {t} if e is None else set(range(t,e))
def check(cls, hist):
    G = cls()
    added = {}
    directed = cls is dn.DynDiGraph
    key = (lambda u,v: (u,v)) if directed else (lambda u,v: tuple(sorted((u,v))))
    for (u,v,t,e) in hist:
        before = (sorted(G.nodes()), [(a,b,copy.deepcopy(d['t'])) for a,b,d in (G.out_interactions() if directed else G.interactions())], list(G.stream_interactions()), dict(G.snapshots))
        k = key(u,v)
        # expected rejection
        runs = sorted(added.get(k,set()))
        laststart = None
        if runs:
            laststart = runs[-1]
            while laststart-1 in added[k]: laststart -= 1
        try:
            G.add_interaction(u,v,t,e)
            if laststart is not None and t < laststart: return "should reject", hist
            added.setdefault(k,set()).update(span(t,e))
        except ValueError:
            if not (laststart is not None and t < laststart): return "unexpected reject", hist
            after = (sorted(G.nodes()), [(a,b,copy.deepcopy(d['t'])) for a,b,d in (G.out_interactions() if directed else G.interactions())], list(G.stream_interactions()), dict(G.snapshots))
            if before != after: return "C07 trace", hist
        except Exception as ex:
            return "EXC %r" % ex, hist
    # C01
    for k, S in added.items():
        for q in range(-1, 7):
            for (a,b) in ([k] if directed else [k, k[::-1]]):
                if G.has_interaction(a,b,q) != (q in S): return "C01", hist, k, q
    # C03
    for a,b,d in (G.out_interactions() if directed else G.interactions()):
        tl = d['t']
        for i,(s,e) in enumerate(tl):
            if s > e: return "C03 s>e", hist
            if i+1 < len(tl) and e + 1 >= tl[i+1][0]: return "C03 adj", hist
        if set(q for s,e in tl for q in range(s,e+1)) != added[key(a,b)]: return "C03 union", hist
    # C04
    ids = G.temporal_snapshots_ids()
    allq = sorted(set().union(*added.values())) if added else []
    if ids != allq: return "C04 ids", hist, ids, allq
    for q in range(-1,7):
        exp = sum(1 for S in added.values() if q in S)
        if G.interactions_per_snapshots(q) != exp: return "C04 cnt", hist, q, G.interactions_per_snapshots(q), exp
    # C05
    st = list(G.stream_interactions())
    if [x[3] for x in st] != sorted(x[3] for x in st): return "C05 order", hist
    seen=set()
    for (a,b,op,q) in st:
        kk=(key(a,b),op,q)
        if kk in seen: return "C05 repeat", hist, st
        seen.add(kk)
    for k,S in added.items():
        plus = {q for (a,b,op,q) in st if key(a,b)==k and op=='+'}
        minus = {q for (a,b,op,q) in st if key(a,b)==k and op=='-'}
        if plus != {q for q in S if q-1 not in S}: return "C05 plus", hist, st
        for q in minus:
            if not (q-1 in S and q not in S): return "C05 minus stale", hist, st
        for q in S:
            if q+1 not in S:  # run end
                s=q
                while s-1 in S: s-=1
                if q > s and q+1 not in minus: return "C05 unclosed", hist, st
    return None
import collections
res = collections.Counter(); ex = {}
for cls in (dn.DynGraph, dn.DynDiGraph):
    for n in (1,2,3):
        for hist in itertools.product(calls, repeat=n):
            if n==3 and len({(h[0],h[1]) for h in hist} - {(1,2),(2,1)})>0 and hist[0][0:2]!=(1,2): continue
            r = check(cls, hist)
            if r:
                res[(cls.__name__, r[0])]+=1
                ex.setdefault((cls.__name__, r[0]), r)
print(res)
for k,v in ex.items(): print(k, v)
