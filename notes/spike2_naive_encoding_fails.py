from z3 import *
import time
S = Array('S', IntSort(), IntSort()); E = Array('E', IntSort(), IntSort()); n = Int('n')
Plus = Array('Plus', IntSort(), BoolSort()); Minus = Array('Minus', IntSort(), BoolSort())
Cnt = Array('Cnt', IntSort(), IntSort()); Rest = Function('Rest', IntSort(), IntSort())
t0, t1, q = Ints('t0 t1 q'); i, j = Ints('i j')
def canon(S,E,n):
    return And(n >= 1, ForAll([i], Implies(And(0 <= i, i < n), S[i] <= E[i])),
               ForAll([i], Implies(And(0 <= i, i + 1 < n), E[i] + 1 < S[i+1])))
def pres(S,E,n,q): return Exists([i], And(0 <= i, i < n, S[i] <= q, q <= E[i]))
def isstart(S,n,q): return Exists([i], And(0 <= i, i < n, q == S[i]))
def isendp1(E,n,q): return Exists([i], And(0 <= i, i < n, q == E[i] + 1))
def I4(S,E,n,Plus,Minus, strong):
    return And(ForAll([q], Plus[q] == isstart(S,n,q)),
               ForAll([q], Implies(Minus[q], isendp1(E,n,q))),
               ForAll([i], Implies(And(0 <= i, i < n, E[i] - S[i] >= (1 if strong else 2)), Minus[E[i]+1])))
def I3(S,E,n,Cnt):  # Cnt(q) = Rest(q) + [P(q)], Rest >= 0 ; key present iff Cnt>0 (keys abstracted)
    return And(ForAll([q], Cnt[q] == Rest(q) + If(pres(S,E,n,q),1,0)), ForAll([q], Rest(q) >= 0))
def prove(name, hyps, goal, to=30000):
    s = Solver(); s.set('timeout', to); s.add(*hyps); s.add(Not(goal))
    st=time.time(); r = s.check(); print(f"{name:40s} {r} {time.time()-st:.2f}s")
    return r
# lemma: view-based characterisation
prove("lemma start <=> P(q) & ~P(q-1)", [canon(S,E,n)], ForAll([q], isstart(S,n,q) == And(pres(S,E,n,q), Not(pres(S,E,n,q-1)))))
prove("lemma end+1 <=> P(q-1) & ~P(q)", [canon(S,E,n)], ForAll([q], isendp1(E,n,q) == And(pres(S,E,n,q-1), Not(pres(S,E,n,q)))))
le, ls = E[n-1], S[n-1]
# extend path of candidate kernel, e given (closing '-' logged at t1+1), removal mode
pc = And(t0 <= t1, t0 >= ls, t1 > le, t0 <= le + 1)
E2 = Store(E, n-1, t1); Minus2 = Store(Store(Minus, le+1, False), t1+1, True)
pre = [canon(S,E,n), I4(S,E,n,Plus,Minus, False), I3(S,E,n,Cnt), pc]
prove("extend: canon", pre, canon(S,E2,n))
prove("extend: I4 weak", pre, I4(S,E2,n,Plus,Minus2, False))
prove("extend: I4 strong from strong", [canon(S,E,n), I4(S,E,n,Plus,Minus, True), pc], I4(S,E2,n,Plus,Minus2, True))
# counters: loop summarised: Cnt2(q) = Cnt(q) + [le+1 <= q <= t1]
k = Int('k')
Cnt2 = Lambda([k], Cnt[k] + If(And(le + 1 <= k, k <= t1), 1, 0))
prove("extend: I3", pre, I3(S,E2,n,Cnt2))
# pinned variant: single-instant last, e None (t1==t0), no closing '-'
pcD06 = And(t0 == t1, ls == le, t0 == le + 1)
Minus3 = Store(Minus, le+1, False)
prove("D06 path: I4 weak holds", [canon(S,E,n), I4(S,E,n,Plus,Minus, False), pcD06], I4(S,E2,n,Plus,Minus3, False))
r = prove("D06 path: I4 strong FAILS", [canon(S,E,n), I4(S,E,n,Plus,Minus, True), pcD06], I4(S,E2,n,Plus,Minus3, True))
# append path
pcA = And(t0 <= t1, t0 > le + 1)
S4 = Store(S, n, t0); E4 = Store(E, n, t1); Plus4 = Store(Plus, t0, True); Minus4 = Store(Minus, t1+1, True)
preA = [canon(S,E,n), I4(S,E,n,Plus,Minus, False), I3(S,E,n,Cnt), pcA]
prove("append: canon", preA, canon(S4,E4,n+1))
prove("append: I4 weak", preA, I4(S4,E4,n+1,Plus4,Minus4, False))
Cnt4 = Lambda([k], Cnt[k] + If(And(t0 <= k, k <= t1), 1, 0))
prove("append: I3", preA, I3(S4,E4,n+1,Cnt4))
# presence union on append + extend
for nm,(S_,E_,n_,pc_) in {"extend":(S,E2,n,pc), "append":(S4,E4,n+1,pcA)}.items():
    prove(nm+": presence union", [canon(S,E,n), pc_], ForAll([q], pres(S_,E_,n_,q) == Or(pres(S,E,n,q), And(t0<=q, q<=t1))))
