import dynetx as dn, networkx as nx, io, tempfile, os
from dynetx.readwrite.edgelist import parse_snapshots, parse_interactions, read_ids
from dynetx.utils import compact_timeslot
def T(title, f):
    print("##", title)
    try:
        r = f()
        print("   ->", r)
    except Exception as ex:
        print("   EXC", type(ex).__name__, ex)
def tl(G): return [(u,v,d['t']) for u,v,d in G.interactions()]
# C17
G = dn.DynGraph()
G.add_interaction(1,2,0,4); G.add_interaction(2,3,2,6); G.add_interaction(1,2,8,10); G.add_interaction(4,5,9)
T("snapshots", lambda: G.snapshots)
T("coverage", lambda: G.coverage())
T("node_contribution 1", lambda: G.node_contribution(1))
T("edge_contribution 1,2", lambda: G.edge_contribution(1,2))
T("uniformity", lambda: G.uniformity())
T("npu 1 3", lambda: G.node_pair_uniformity(1,3))
T("density", lambda: G.density())
T("pair_density", lambda: G.pair_density(1,2))
T("node_density", lambda: G.node_density(2))
T("snapshot_density", lambda: G.snapshot_density(2))
T("node_presence 3", lambda: G.node_presence(3))
T("iet", lambda: G.inter_event_time_distribution())
T("stream", lambda: list(G.stream_interactions()))
T("iet 2", lambda: G.inter_event_time_distribution(2))
T("iet 1 2", lambda: G.inter_event_time_distribution(1,2))
# C18
rows = ["# c", "", "   ", "1 2 3", "1 2", "2 3 4 # trailing", "3 4 5 7 extra", "\n", "4 5 6\n"]
T("parse_snapshots", lambda: tl(parse_snapshots(rows, nodetype=int, timestamptype=int)))
T("parse_snapshots delim", lambda: tl(parse_snapshots(["1,2,3", "1,2", ",", "2,3,4,6#x"], delimiter=',', nodetype=int, timestamptype=int)))
T("parse_snapshots bad", lambda: tl(parse_snapshots(["a 2 3"], nodetype=int, timestamptype=int)))
T("parse_snapshots badt", lambda: tl(parse_snapshots(["1 2 x"], nodetype=int, timestamptype=int)))
T("parse_interactions", lambda: tl(parse_interactions(["1 2 + 3", "# c", "1 2 - 6", "1 2", "1 2 + 9 extra", "1 2 + 8 # c"], nodetype=int, timestamptype=int)))
T("parse_interactions - unknown", lambda: tl(parse_interactions(["1 2 - 3"], nodetype=int, timestamptype=int)))
T("compact", lambda: compact_timeslot([10, 3, 7]))
def keys_snap(rows):
    p = tempfile.mktemp(); open(p,"w").write("\n".join(rows)+"\n")
    try: return tl(dn.read_snapshots(p, nodetype=int, timestamptype=int, keys=True))
    finally: os.remove(p)
T("keys snap 3col", lambda: keys_snap(["1 2 10","1 2 20","2 3 15"]))
T("keys snap 4col", lambda: keys_snap(["1 2 10 30","2 3 15"]))
T("keys snap comment", lambda: keys_snap(["# x","1 2 10"]))
T("keys snap blank", lambda: keys_snap(["","1 2 10"]))
def keys_int(rows):
    p = tempfile.mktemp(); open(p,"w").write("\n".join(rows)+"\n")
    try: return tl(dn.read_interactions(p, nodetype=int, timestamptype=int, keys=True))
    finally: os.remove(p)
T("keys int", lambda: keys_int(["1 2 + 10","1 2 - 30","2 3 + 20"]))
# C19
g = dn.DynGraph(); g.add_interaction(1,2,0)
for name, args in [("add_edge",(3,4)),("add_edges_from",([(3,4)],)),("add_weighted_edges_from",([(3,4,1.0)],)),("update",([(3,4)],)),
                   ("remove_edge",(1,2)),("remove_edges_from",([(1,2)],)),("remove_node",(1,)),("remove_nodes_from",([1],)),
                   ("edges_iter",()),("clear",()),("clear_edges",()),("add_node",(9,)),("add_nodes_from",([7,8],)),]:
    g = dn.DynGraph(); g.add_interaction(1,2,0)
    T(name, lambda: (getattr(g,name)(*args), g.interactions(), list(g.stream_interactions()), g.snapshots))
d = dn.DynDiGraph(); d.add_interaction(1,2,0)
for name in ["in_edges","out_edges","in_edges_iter","out_edges_iter","edges_iter"]:
    T("di "+name, lambda: getattr(d,name)())
T("di in_edges attr", lambda: d.in_edges)
T("edges prop", lambda: list(g.edges))
T("set_edge_attributes", lambda: dn.set_edge_attributes(g, {}, 'x'))
T("get_edge_attributes", lambda: dn.get_edge_attributes(g, 'x'))
T("init data", lambda: dn.DynGraph([(1,2)]).interactions())
T("subgraph", lambda: g.subgraph([1,2]))
T("copy", lambda: (type(g.copy()), g.copy().__dict__.keys()))
f = dn.DynGraph(); f.add_interaction(1,2,0); dn.freeze(f)
T("is_frozen", lambda: dn.is_frozen(f))
T("frozen add_interaction", lambda: (f.add_interaction(5,6,1), f.interactions()))
T("frozen add_node", lambda: f.add_node(5))
T("frozen add_path", lambda: f.add_path([7,8],t=3))
T("nx.freeze", lambda: nx.freeze(dn.DynGraph()))
import inspect
pub = [n for n in dir(nx.Graph) if not n.startswith('_')]
print(pub)
print([n for n in dir(nx.DiGraph) if not n.startswith('_') and n not in pub])
