import dynetx as dn
import dynetx.algorithms as al
import networkx as nx
def T(title, f):
    print("##", title)
    try:
        r = f()
        print("   ->", r)
    except Exception as ex:
        print("   EXC", type(ex).__name__, ex)
# C08 accumulative
A = dn.DynGraph(edge_removal=False)
A.add_interaction(1,2,2); A.add_interaction(3,4,5,9); A.add_interaction(1,2,7)
T("acc tl", lambda: [(u,v,d['t']) for u,v,d in A.interactions()])
T("acc snaps", lambda: A.temporal_snapshots_ids())
T("acc has(1,2,q)", lambda: [q for q in range(0,12) if A.has_interaction(1,2,q)])
T("acc has(3,4,q)", lambda: [q for q in range(0,12) if A.has_interaction(3,4,q)])
T("acc stream", lambda: list(A.stream_interactions()))
T("acc ips", lambda: A.interactions_per_snapshots())
T("acc nodes(t=8)", lambda: A.nodes(t=8))
T("acc add earlier", lambda: A.add_interaction(1,2,1))
T("acc add earlier pair new", lambda: A.add_interaction(5,6,1))
T("acc has(5,6,q)", lambda: [q for q in range(0,12) if A.has_interaction(5,6,q)])
B = dn.DynGraph(edge_removal=False)
T("acc empty has", lambda: B.has_interaction(1,2,0))
B.add_interaction(1,2,3,3)
T("acc e<=t", lambda: (B.snapshots, B.has_interaction(1,2,3)))

# C15 / C12 / C13
g = dn.DynGraph()
g.add_interaction("A","B",1,4); g.add_interaction("B","D",2,5); g.add_interaction("A","C",4,8)
g.add_interaction("B","C",6,10); g.add_interaction("A","B",7,9)
T("ids", lambda: g.temporal_snapshots_ids())
def dag(u,v,s,e):
    DG, src, tgt, _, _ = al.temporal_dag(g,u,v,start=s,end=e)
    return sorted(DG.edges()), src, tgt, nx.is_directed_acyclic_graph(DG)
T("dag D C 1 9", lambda: dag("D","C",1,9))
T("dag A None 1 3", lambda: dag("A",None,1,3))
T("dag A None 2 2", lambda: dag("A",None,2,2))
T("trp A None 1 3", lambda: dict(al.time_respecting_paths(g,"A",None,1,3)))
T("trp A B 1 9", lambda: dict(al.time_respecting_paths(g,"A","B",1,9)))
T("trp A A", lambda: dict(al.time_respecting_paths(g,"A","A",1,9)))
T("trp D None 1 9 (D absent at 1)", lambda: al.time_respecting_paths(g,"D",None,1,9))
T("all", lambda: dict(al.all_time_respecting_paths(g,1,3)))
# self loop acyclicity
s = dn.DynGraph(); s.add_interaction(1,1,0); s.add_interaction(1,2,0); s.add_interaction(2,3,1)
def dag2(G,u,v,st,e):
    DG, src, tgt, _, _ = al.temporal_dag(G,u,v,start=st,end=e)
    return sorted(DG.edges()), src, tgt, nx.is_directed_acyclic_graph(DG)
T("selfloop dag", lambda: dag2(s,1,None,0,1))
T("selfloop trp", lambda: dict(al.time_respecting_paths(s,1,None,0,1)))
# negative ids window
n = dn.DynGraph(); n.add_interaction(1,2,-5); n.add_interaction(2,3,-3); n.add_interaction(3,4,-1)
T("neg dag full", lambda: dag2(n,1,None,None,None))
T("neg dag -5..-3", lambda: dag2(n,1,None,-5,-3))
T("neg dag -5..-4", lambda: dag2(n,1,None,-5,-4))
# annotate
ps = [[(1,2,1),(2,3,5)], [(1,3,4)], [(1,3,7)], [(1,4,2),(4,3,3)], [(1,3,4)]]
T("annot", lambda: al.annotate_paths(ps))
T("annot tuple paths", lambda: al.annotate_paths([tuple(p) for p in ps]))
