# time_slice inner loop (one pair), caller-side VCs against the kernel's *contract* (post-fix, e exclusive)
from z3 import *
import time
set_option("smt.mbqi", False)
S = Array('S', IntSort(), IntSort()); E = Array('E', IntSort(), IntSort()); n = Int('n')       # G's timeline for the pair
HS = Array('HS', IntSort(), IntSort()); HE = Array('HE', IntSort(), IntSort()); hn = Int('hn') # H's timeline for the pair (hn=0: absent)
HP = Array('HP', IntSort(), BoolSort())                                                      # ghost: H's presence set for the pair
f, g, k, q, i, j = Ints('f g k q i j')
wH = Function('wH', IntSort(), IntSort()); wG = Function('wG', IntSort(), IntSort())
def inb(i,n): return And(0 <= i, i < n)
def canon_h(S,E,n): return [ForAll([i], Implies(inb(i,n), S[i] <= E[i]), patterns=[S[i]]),
                            ForAll([i,j], Implies(And(0<=i, i<j, j<n), E[i]+1 < S[j]), patterns=[MultiPattern(E[i],S[j])])]
def canon_goals(S,E,n): return {"s<=e": ForAll([i], Implies(inb(i,n), S[i] <= E[i])), "sep": ForAll([i,j], Implies(And(0<=i,i<j,j<n), E[i]+1 < S[j]))}
def link_h(S,E,n,P,w): return [ForAll([q], Implies(P[q], And(inb(w(q),n), S[w(q)] <= q, q <= E[w(q)])), patterns=[P[q]]),
                               ForAll([i,q], Implies(And(inb(i,n), S[i]<=q, q<=E[i]), P[q]), patterns=[MultiPattern(S[i],P[q])])]
def link_goals(S,E,n,P): return {"P=>cover": ForAll([q], Implies(P[q], Exists([i], And(inb(i,n), S[i]<=q, q<=E[i])))),
                                 "cover=>P": ForAll([i,q], Implies(And(inb(i,n), S[i]<=q, q<=E[i]), P[q]))}
# loop invariant at interval index k:  HP = clip(union of G intervals < k);  H canonical; H last end <= E[k-1]
def inv_h(k, HS,HE,hn,HP):
    return [0 <= k, k <= n, hn >= 0] + canon_h(HS,HE,hn) + link_h(HS,HE,hn,HP,wH) + [
        ForAll([q], Implies(HP[q], And(f <= q, q <= g, inb(wG(q),k), S[wG(q)] <= q, q <= E[wG(q)])), patterns=[HP[q]]),
        ForAll([i,q], Implies(And(inb(i,k), S[i]<=q, q<=E[i], f<=q, q<=g), HP[q]), patterns=[MultiPattern(S[i],HP[q])]),
        Implies(hn > 0, And(k >= 1, HE[hn-1] <= E[k-1]))]
def inv_goals(k, HS,HE,hn,HP):
    d = {"H "+a:b for a,b in canon_goals(HS,HE,hn).items()}
    d.update({"Hlink "+a:b for a,b in link_goals(HS,HE,hn,HP).items()})
    d["HP=>clip"] = ForAll([q], Implies(HP[q], And(f<=q, q<=g, Exists([i], And(inb(i,k), S[i]<=q, q<=E[i])))))
    d["clip=>HP"] = ForAll([i,q], Implies(And(inb(i,k), S[i]<=q, q<=E[i], f<=q, q<=g), HP[q]))
    d["lastend"] = Implies(hn > 0, And(k >= 1, HE[hn-1] <= E[k-1]))
    return d
def prove(name, hyps, goal):
    s = Solver(); s.set('timeout', 20000); s.add(*hyps); s.add(Not(goal))
    st=time.time(); r=s.check(); print(f"{name:38s} {r} {time.time()-st:.2f}s"); return r
base = [n >= 1, f <= g] + canon_h(S,E,n) + inv_h(k,HS,HE,hn,HP) + [k < n]
a, b = S[k], E[k]
# path 1: skip  (g < a or f > b): state unchanged, k+1
for nm,gl in inv_goals(k+1,HS,HE,hn,HP).items(): prove("skip: "+nm, base+[Or(g < a, f > b)], gl)
# path 2: call add_interaction(u,v, t=max(a,f), e=min(b,g)+1) via contract
t = If(a >= f, a, f); e1 = If(b <= g, b, g)     # inclusive end; e = e1 + 1
pc = [Not(Or(g < a, f > b))]
# callee precondition: e > t ; and NOT rejected: hn == 0 or t >= HS[hn-1]
prove("call: pre e>t", base+pc, e1 + 1 > t)
prove("call: not rejected", base+pc, Or(hn == 0, t >= HS[hn-1]))
# callee postcondition (contract of the repaired kernel), case split as the contract states it
kk = Int('kk')
HP2 = Lambda([kk], Or(HP[kk], And(t <= kk, kk <= e1)))
# which case applies? prove it is the 'append' (gap) case or 'new pair' case:
prove("call: gap or new", base+pc, Or(hn == 0, t > HE[hn-1] + 1))
HS2 = Store(HS, hn, t); HE2 = Store(HE, hn, e1); hn2 = hn + 1
for nm,gl in inv_goals(k+1,HS2,HE2,hn2,HP2).items(): prove("call: "+nm, base+pc, gl)
# buggy variant (pinned tree): e = e1 (inclusive passed as exclusive) => HP2 misses e1: 'clip=>HP' must fail
set_option("smt.mbqi", True)
HPb = Lambda([kk], Or(HP[kk], And(t <= kk, kk <= e1 - 1)))
prove("BUGGY e=end: clip=>HP", base+pc, inv_goals(k+1,HS2,Store(HE,hn,e1-1),hn2,HPb)["clip=>HP"])
