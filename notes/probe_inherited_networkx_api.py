import inspect, ast, textwrap
import networkx as nx, dynetx as dn
REP = {"_adj","_succ","_pred","_node","graph","__dict__"}
MUT = {"update","clear","pop","popitem","setdefault","append","remove","add","discard","__setitem__","__delitem__"}
def writes(fn):
    try: src = textwrap.dedent(inspect.getsource(fn))
    except Exception as e: return None, None
    tree = ast.parse(src)
    w=set(); calls=set()
    def root_attr(n):
        # returns attr name if n is self.<attr>[...]...
        while isinstance(n,(ast.Subscript,)): n=n.value
        if isinstance(n, ast.Attribute) and isinstance(n.value, ast.Name) and n.value.id=="self": return n.attr
        return None
    for n in ast.walk(tree):
        tg=[]
        if isinstance(n, ast.Assign): tg=n.targets
        elif isinstance(n,(ast.AugAssign,ast.AnnAssign)): tg=[n.target]
        elif isinstance(n, ast.Delete): tg=n.targets
        for t in tg:
            for tt in ast.walk(t):
                a=root_attr(tt)
                if a: w.add(a)
        if isinstance(n, ast.Call) and isinstance(n.func, ast.Attribute):
            a = root_attr(n.func.value)
            if a and n.func.attr in MUT: w.add(a+"."+n.func.attr)
            if isinstance(n.func.value, ast.Name) and n.func.value.id=="self": calls.add(n.func.attr)
    return w, calls
for cls in (dn.DynGraph, dn.DynDiGraph):
    print("=====", cls.__name__)
    for name in sorted(dir(cls)):
        if name.startswith("_"): continue
        for k in cls.__mro__:
            if name in k.__dict__: owner=k; break
        obj = owner.__dict__[name]
        kind = type(obj).__name__
        if owner.__module__.startswith("dynetx"): continue
        fn = obj.fget if isinstance(obj, property) else getattr(obj, "func", obj) if kind=="cached_property" else obj
        w, calls = writes(fn) if callable(fn) else (None,None)
        print(f"{name:28s} {owner.__name__:8s} {kind:16s} writes={sorted(w) if w else w} selfcalls={sorted(calls) if calls else calls}")
