"""Which proof units and which bounded stand-in parts serve which property (DESIGN section 4)."""

REMOVAL = {'mode': 'removal'}
ACCUM = {'mode': 'accum'}


def _kernel_units(mode):
    out = []
    for cls in ('DynGraph', 'DynDiGraph'):
        for t in ('int', 'none'):
            for e in ('none', 'int'):
                out.append(('contracts.kernel', 'AddInteraction', (cls,), {'mode': mode, 't': t, 'e': e}))
    return out


def _observer_units(mode):
    out = []
    for cls in ('DynGraph', 'DynDiGraph'):
        out.append(('contracts.queries', 'PresenceTest', (cls,), {'mode': mode}))
        for t in ('int', 'none'):
            out.append(('contracts.queries', 'HasInteraction', (cls,), {'mode': mode, 't': t}))
    return out


def _read_units():
    out = []
    for cls in ('DynGraph', 'DynDiGraph'):
        out.append(('contracts.readside', 'TemporalSnapshotsIds', (cls,), {}))
        out.append(('contracts.readside', 'AvgNumberOfNodes', (cls,), {}))
        for t in ('int', 'none'):
            out.append(('contracts.readside', 'InteractionsPerSnapshots', (cls,), {'t': t}))
    return out


def _bulk_units():
    return [('contracts.bulk', 'AddInteractionsFrom', (cls,), v) for cls in ('DynGraph', 'DynDiGraph')
            for v in ({'t': 'int', 'e': 'none'}, {'t': 'int', 'e': 'int'}, {'t': 'none', 'e': 'none'})]


def _helper_units():
    hs = [('DynGraph', 'add_star', False), ('DynGraph', 'add_path', False), ('DynGraph', 'add_cycle', False), ('DynDiGraph', 'add_path', False)] \
        + [(cls, f, True) for cls in ('DynGraph', 'DynDiGraph') for f in ('add_star', 'add_path', 'add_cycle')]
    return [('contracts.bulk', 'BulkHelper', h, {'t': t}) for h in hs for t in ('int', 'none')]


def _ctor_units():
    return [('contracts.ctor', 'Init', (cls,), {'edge_removal': e}) for cls in ('DynGraph', 'DynDiGraph') for e in ('default', 'given')]


def _dag_units():
    return [('contracts.dag', 'TemporalDagWindow', (cls,), {'start': s, 'end': e}) for cls in ('DynGraph', 'DynDiGraph')
            for s in ('none', 'int') for e in ('none', 'int')]


def _driver_units():
    return [('contracts.pathsdriver', 'TimeRespectingPathsPrefix', (cls,), {'start': s, 'v': v}) for cls in ('DynGraph', 'DynDiGraph')
            for s in ('none', 'int') for v in ('none', 'node')] \
        + [('contracts.pathsdriver', 'AllTimeRespectingPaths', (cls,), {'min_t': m}) for cls in ('DynGraph', 'DynDiGraph') for m in ('none', 'int')]


# property id -> list of (module, factory, args, variant)
PROOF_UNITS = {
    'C20': [('contracts.conformity', 'SlidingDeltaConformity', (cls,), {'args': a}) for cls in ('DynGraph', 'DynDiGraph') for a in ('all', 'defaults')],
    'C15': _dag_units(),
    'C12': _dag_units() + _driver_units(),
    'C13': _dag_units() + _driver_units(),
    'C01': _kernel_units('removal') + _observer_units('removal') + _bulk_units() + _helper_units() + _ctor_units(),
    'C03': _kernel_units('removal') + _ctor_units(),
    'C04': _kernel_units('removal') + _read_units(),
    'C05': [('contracts.stream', 'StreamInteractions', (cls,), {}) for cls in ('DynGraph', 'DynDiGraph')] + _kernel_units('removal') + [('contracts.kernel', 'AddInteraction', (cls,), {'mode': 'removal', 't': 'int', 'e': e, 'inv': 'strong'})
                                       for cls in ('DynGraph', 'DynDiGraph') for e in ('none', 'int')],
    'C07': _kernel_units('removal') + _kernel_units('accum') + _bulk_units() + _helper_units(),
    'C02': [('contracts.queries', 'NumberOfInteractionsPair', (cls,), {'mode': m, 't': t}) for cls in ('DynGraph', 'DynDiGraph')
            for m in ('removal', 'accum') for t in ('int', 'none')]
           + [u for u in _observer_units('removal') if u[1] == 'HasInteraction']
           + [('contracts.iters', 'InteractionsIter', ('DynGraph',), {'t': t}) for t in ('none', 'int')]
           + [('contracts.iters', 'OutInteractionsIter', ('DynDiGraph',), {'t': t}) for t in ('none', 'int')]
           + [('contracts.iters', 'InInteractionsIter', ('DynDiGraph',), {'t': t}) for t in ('none', 'int')]
           + [('contracts.neighbours', 'NeighbourListing', (cls, f), {'mode': m, 't': t})
              for (cls, f) in (('DynGraph', 'neighbors'), ('DynGraph', 'neighbors_iter'), ('DynDiGraph', 'successors_iter'), ('DynDiGraph', 'predecessors_iter'),
                               ('DynDiGraph', 'successors'), ('DynDiGraph', 'predecessors'))
              for m in ('removal', 'accum') for t in ('int', 'none')]
           + [('contracts.neighbours', 'DegreeIter', (cls, f), {'mode': m, 't': t, 'nb': nb})
              for (cls, f) in (('DynGraph', 'degree_iter'), ('DynDiGraph', 'degree_iter'), ('DynDiGraph', 'in_degree_iter'), ('DynDiGraph', 'out_degree_iter'))
              for m in ('removal', 'accum') for t in ('int', 'none') for nb in ('none', 'node', 'list1')]
           + [('contracts.neighbours', 'DegreeQuery', (cls, f), {'mode': m, 't': t, 'nb': nb})
              for (cls, f) in (('DynGraph', 'degree'), ('DynDiGraph', 'degree'), ('DynDiGraph', 'in_degree'), ('DynDiGraph', 'out_degree'))
              for m in ('removal', 'accum') for t in ('int', 'none') for nb in ('none', 'node', 'list1')]
           + [('contracts.neighbours', k, args, {'mode': m, 't': t})
              for (k, args) in (('HasNode', ('DynGraph',)), ('HasNode', ('DynDiGraph',)), ('NodesAt', ('DynGraph', 'nodes')), ('NodesAt', ('DynDiGraph', 'nodes')),
                                ('NodesAt', ('DynGraph', 'nodes_iter')), ('NodesAt', ('DynDiGraph', 'nodes_iter')),
                                ('NumberOfNodes', ('DynGraph',)), ('NumberOfNodes', ('DynDiGraph',)), ('Size', ('DynGraph',)), ('Size', ('DynDiGraph',)),
                                ('NumberOfInteractionsAll', ('DynGraph',)), ('NumberOfInteractionsAll', ('DynDiGraph',)))
              for m in ('removal', 'accum') for t in ('int', 'none')]
           + [('contracts.neighbours', 'IsEmpty', (cls,), {'mode': m, 't': 'none'}) for cls in ('DynGraph', 'DynDiGraph') for m in ('removal', 'accum')]
           + [('contracts.neighbours', 'GetNodeSnapshots', (cls,), {'mode': m, 't': 'none'}) for cls in ('DynGraph', 'DynDiGraph') for m in ('removal', 'accum')],
    'C09': [('contracts.writers', 'GenerateSnapshots', (cls,), {}) for cls in ('DynGraph', 'DynDiGraph')]
           + [('contracts.parsers', 'ParseSnapshots', (cls,), {}) for cls in ('DynGraph', 'DynDiGraph')]
           + [('contracts.parsers', 'FileWriter', (cls, 'write_snapshots'), {}) for cls in ('DynGraph', 'DynDiGraph')]
           + [('contracts.parsers', 'FileReader', ('read_snapshots', k), {}) for k in ('nokeys', 'keys')],
    'C16': [('contracts.convert', 'ToDirected', (), {})] + [('contracts.ctor', 'Init', ('DynDiGraph',), {'edge_removal': 'default'})],
    'C10': [('contracts.writers', 'GenerateInteractions', (cls,), {}) for cls in ('DynGraph', 'DynDiGraph')]
           + [('contracts.parsers', 'ParseInteractions', (cls,), {}) for cls in ('DynGraph', 'DynDiGraph')]
           + [('contracts.parsers', 'FileWriter', (cls, 'write_interactions'), {}) for cls in ('DynGraph', 'DynDiGraph')]
           + [('contracts.parsers', 'FileReader', ('read_interactions', k), {}) for k in ('nokeys', 'keys')]
           + [('contracts.stream', 'StreamInteractions', (cls,), {}) for cls in ('DynGraph', 'DynDiGraph')],
    'C11': [('contracts.writers', 'NodeLinkData', (cls,), {}) for cls in ('DynGraph', 'DynDiGraph')]
           + [('contracts.parsers', 'NodeLinkGraph', (fl,), {}) for fl in ('undirected', 'directed')],
    'C14': [('contracts.pure', 'AnnotatePaths', (), {}), ('contracts.pure', 'PathLength', (), {}), ('contracts.pure', 'PathDuration', (), {})],
    'C17': [('contracts.stats', k, (), {}) for k in ('EdgeContribution', 'NodeContribution', 'PairDensity', 'Coverage', 'NodePresence')]
           + [('contracts.stats', 'InterEventTimes', (cls,), {'u': u}) for cls in ('DynGraph', 'DynDiGraph') for u in ('none', 'node')]
           + [('contracts.stats', 'InterEventTimes', ('DynDiGraph', f), {'u': u}) for f in ('inter_in_event_time_distribution', 'inter_out_event_time_distribution') for u in ('none', 'node')],
    'C06': [('contracts.slice', 'TimeSlice', (cls,), {'t_to': t}) for cls in ('DynGraph', 'DynDiGraph') for t in ('int', 'none')]
           + [('contracts.iters', 'InteractionsIter', ('DynGraph',), {'t': 'none'}), ('contracts.iters', 'OutInteractionsIter', ('DynDiGraph',), {'t': 'none'})]
           + [('contracts.ctor', 'Init', (cls,), {'edge_removal': e}) for cls in ('DynGraph', 'DynDiGraph') for e in ('default', 'given')],
    'C08': _kernel_units('accum') + _observer_units('accum'),
    'C18': [('contracts.pure', 'CompactTimeslot', (), {})] + [('contracts.parsers', k, (cls,), {}) for k in ('ParseSnapshots', 'ParseInteractions') for cls in ('DynGraph', 'DynDiGraph')]
           + [('contracts.parsers', 'FileReader', (f, k), {}) for f in ('read_snapshots', 'read_interactions') for k in ('nokeys', 'keys')],
}

def _fw(names):
    return [('contracts.forward', 'Forwarder', (cls, f), {}) for f in names for cls in ('DynGraph', 'DynDiGraph') if not (f == 'neighbors' and cls == 'DynDiGraph')]


_FW_C02 = _fw(['nodes', 'interactions', 'degree', 'neighbors', 'number_of_nodes', 'number_of_interactions', 'all_neighbors'])
_FW_M = [('contracts.forward', 'Forwarder', (cls, f, None, True), {}) for (cls, f) in (('DynGraph', 'interactions'), ('DynDiGraph', 'interactions'),
         ('DynDiGraph', 'in_interactions'), ('DynDiGraph', 'out_interactions'), ('DynGraph', 'order'), ('DynDiGraph', 'has_successor'), ('DynDiGraph', 'has_predecessor'))]
_FW_C02 = _FW_C02 + _FW_M
PROOF_UNITS['C02'] = PROOF_UNITS['C02'] + _FW_C02
PROOF_UNITS['C08'] = PROOF_UNITS['C08'] + _FW_C02
PROOF_UNITS['C06'] = PROOF_UNITS['C06'] + _fw(['time_slice'])
PROOF_UNITS['C05'] = PROOF_UNITS['C05'] + _fw(['stream_interactions'])
PROOF_UNITS['C04'] = PROOF_UNITS['C04'] + _fw(['temporal_snapshots_ids', 'interactions_per_snapshots'])
PROOF_UNITS['C17'] = PROOF_UNITS['C17'] + _fw(['inter_event_time_distribution']) + [('contracts.readside', 'AvgNumberOfNodes', ('DynGraph',), {})]
_C02_ACCUM = [u for u in PROOF_UNITS['C02'] if u[0] == 'contracts.neighbours' and u[3].get('mode') == 'accum']
PROOF_UNITS['C08'] = PROOF_UNITS['C08'] + _C02_ACCUM

# property id -> list of bounded part names (functions in bounded/parts.py)
BOUNDED_PARTS = {
    'C01': ['c01_presence', 'engine_differential'],
    'C02': ['c02_queries', 'query_executor_differential'],
    'C03': ['c03_canonical', 'c03_derived_constructors'],
    'C04': ['c04_snapshots'],
    'C05': ['c05_stream'],
    'C06': ['c06_time_slice'],
    'C07': ['c07_rejected_leaves_no_trace'],
    'C08': ['c08_accumulative'],
    'C09': ['c09_snapshot_roundtrip'],
    'C10': ['c10_interaction_roundtrip'],
    'C11': ['c11_json_roundtrip'],
    'C12': ['c12_paths_genuine'],
    'C13': ['c13_paths_complete'],
    'C14': ['c14_annotate_paths'],
    'C15': ['c15_temporal_dag'],
    'C16': ['c16_conversions'],
    'C20': ['c20_conformity'],
    'C18': ['c18_reader_noise_and_compaction'],
    'C17': ['c17_statistics'],
    'C19': ['c19_blocked_and_frozen'],
}

STATIC_PARTS = {
    'C19': [('pyvc.frames', 'c19_static')],
}

LEVELS = {
    'C01': 'other', 'C03': 'other', 'C04': 'other', 'C05': 'other', 'C07': 'other', 'C08': 'other',
    'C02': 'other', 'C06': 'other', 'C16': 'other', 'C17': 'other', 'C19': 'other',
    'C09': 'other', 'C10': 'other', 'C11': 'other', 'C18': 'other',
    'C12': 'exploration', 'C13': 'exploration', 'C14': 'proof', 'C15': 'other', 'C20': 'other',
}

from .manifest_data import CLAIMS as _CLAIMS
EXPLANATIONS = {k: v['text'] for k, v in _CLAIMS.items()}
ASSUMPTIONS = {k: [v['note']] for k, v in _CLAIMS.items()}

TRUSTED_BASE = [
    'pyvc itself: the symbolic executor for the Python subset (DESIGN 1.3), the ownership-typed heap model (1.4), the SMT encoding; z3 5.1 / cvc5',
    'Python int treated as mathematical integers (exact for CPython)',
    'node ids: ==/hash consistent and side-effect free; no re-entrancy, threads or signals',
    'ownership layout of the representation for pre-states (I1); its preservation is checked',
    'networkx models: Graph.has_edge, __contains__, adjacency/attr dict factories return fresh empty dicts',
    'induction over the history (establish/preserve/encapsulate, DESIGN 2.3) is the textbook argument, not mechanised',
]
