r"""Contract of DynGraph.to_directed (C16), modular: against the contracts of the DynDiGraph constructor, of add_interaction
(caller side) and of the flattened iterator; networkx add_nodes_from and copy.deepcopy by trusted model.

to_directed()   requires Inv(G), edge_removal
  ensures  the result H is a DynDiGraph; N(H) = N(G); node attributes equal (deep copies: isolation is the trusted contract of deepcopy)
           forall x,y,q.  P(H,x,y,q) <=> listed(x,y) /\ P(G,{x,y},q)      where listed(x,y) is the orientation in which the
                          flattened iterator yields the pair                                  -- what the code does
           (the property asks for BOTH orientations: finding D09b, pinned by the repository's test_conversion; when the finding
            is no longer present the clause `C16.to_directed.both_directions` is emitted instead)
           G unchanged; H written only through the constructor / add_nodes_from / add_interaction (typestate)
  call sites: every add_interaction(it[0], it[1], t=s, e=end+1) satisfies the callee precondition e > t and is never rejected."""
import z3
from pyvc.sym import fresh, fresh_fun, Node, Int, Bool, IntV, FA, inb, b2i
from pyvc.values import *   # noqa
from pyvc import spec
from pyvc.loops import LoopSpec
from .base import Contract, Call, install_caller_hooks
from .kernel import AddInteraction
from .ctor import Init
from .slice import FlatIter


class ToDirected(Contract):
    props = ('C16', 'C03')
    key = 'dyngraph::DynGraph.to_directed'

    def __init__(self, bound_n=None):
        self.flat = FlatIter('DynGraph')

    def uses(self, eng):
        return [Init('DynDiGraph'), AddInteraction('DynDiGraph'), self.flat]

    def reads(self):
        return [Init('DynDiGraph').key, AddInteraction('DynDiGraph').key, self.flat.key]

    def setup(self, ctx, variant):
        g = HGraph('self', False, 'DynGraph').havoc('0')
        g['ER'] = z3.BoolVal(True)
        g['Frozen'] = z3.BoolVal(False)
        g.valid = True
        ctx.graphs['self'] = g
        vG = spec.View('G')
        ctx.views['self'] = vG
        qx, qy, qq = fresh('qx', Node), fresh('qy', Node), fresh('qq', Int)
        ctx.focus = [qx, qy]
        install_caller_hooks(ctx)
        ctx.feas_skip = {'events', 'snapkeys', 'tte'}
        spec.inv_assume(ctx, g, vG, [qx, qy], [(qx, qy), (qy, qx)], k=2)
        c = Call(g=g, pre=g.snapshot(), vG=vG, qx=qx, qy=qy, qq=qq, argv=[VGraph(g)], kwv={})
        ctx.td = c
        return c

    def _H(self, L):
        name = [n for n in L.ctx.graphs if n != 'self'][0]
        return name, L.ctx.graphs[name], L.ctx.views[name]

    def loop_specs(self):
        def pairs_of(L, extra=()):
            f = L.ctx.focus
            ps = [(f[0], f[1]), (f[1], f[0])]
            for p in extra:
                ps += [p, (p[1], p[0])]
            return ps

        def cur_pair(L, outer=False):
            it = L.otv(0) if outer else L.tv(0)
            return it.items[0].z, it.items[1].z, it.items[2]

        def outer(L):
            name, H, vH = self._H(L)
            c = L.ctx.td
            q = z3.Int('q?co')
            CH = H['Cell_succ']
            out = []
            cur = [tuple(L.cur)] if L.cur else []
            for i, (a, b) in enumerate(pairs_of(L, cur)):
                out.append(('presence.%d' % i, FA([q], vH.Pres[a][b][q] == z3.And(L.vis(a, b), c.vG.Pres[a][b][q]), [vH.Pres[a][b][q]])))
                out.append(('unvisited_pairs_absent.%d' % i, z3.Implies(z3.Not(L.vis(a, b)), CH[a][b] == 0)))
            out.append(('nodes_kept', H['NodeIn'] == c.pre['NodeIn']))
            return out

        def outer_exit(L):
            return [z3.Implies(L.bag.member(a, b), L.vis(a, b)) for (a, b) in pairs_of(L)]

        def inner(L):
            name, H, vH = self._H(L)
            H0, vH0 = L.g0[name], L.views0[name]
            c = L.ctx.td
            u, v, data = cur_pair(L, outer=True)
            EG = c.g['E'][data.r]
            k = L.k
            q = z3.Int('q?ci')
            CH, CH0 = H['Cell_succ'], H0['Cell_succ']
            out = []
            for i, (a, b) in enumerate(pairs_of(L, [(u, v)])):
                cur = z3.And(a == u, b == v)
                out.append(('presence.%d' % i, FA([q], vH.Pres[a][b][q] == z3.If(cur, z3.And(c.vG.Pres[a][b][q], k >= 1, q <= EG[k - 1]), vH0.Pres[a][b][q]),
                                                  [vH.Pres[a][b][q]])))
                out.append(('cells.%d' % i, z3.If(cur, z3.Implies(CH[a][b] != 0, k >= 1), (CH[a][b] != 0) == (CH0[a][b] != 0))))
            rH, nH, SH, EH = spec.tl(H, u, v)
            out.append(('latest_run_of_H_ends_before_next_interval', z3.Implies(rH != 0, z3.And(k >= 1, EH[nH - 1] <= EG[k - 1]))))
            out.append(('nodes_kept', H['NodeIn'] == c.pre['NodeIn']))
            return out

        def inner_hints(L):
            c = L.ctx.td
            u, v, data = cur_pair(L, outer=True)
            S, E = c.g['S'][data.r], c.g['E'][data.r]
            L.ctx.mention(S[L.k - 1], E[L.k - 1], S[L.k], E[L.k], S[L.k + 1])
            return []
        allc = [x for x in HGraph('H', True, 'DynDiGraph').comp_names() if x not in ('ER', 'GAttr', 'Frozen')]
        return {'bag/1': LoopSpec(outer, modifies={'H': allc}, on_exit=outer_exit, tags=('C16',)),
                'timeline/1': LoopSpec(inner, modifies={'H': allc}, assumes=inner_hints, tags=('C16',))}

    def finish(self, ctx, c, outcome):
        T = ('C16',)
        if outcome[0] == 'raise':
            return self.forbid(ctx, 'C16.to_directed.no_exception.%s' % outcome[1], tags=T, note=outcome[2])
        res = outcome[1]
        if res.kind != 'graph' or res.g is c.g:
            return self.forbid(ctx, 'C16.to_directed.returns_a_new_graph', tags=T)
        H = res.g
        ctx.oblige('C16.to_directed.class', z3.BoolVal(H.cls == 'DynDiGraph'), tags=T)
        ctx.oblige('C03.built_via_kernel', z3.BoolVal(bool(H.valid)), tags=('C03', 'C16'))
        vH = ctx.views[H.name]
        x, y, q = c.qx, c.qy, c.qq
        C = c.pre['Cell_adj']
        listed = z3.And(C[x][y] != 0, z3.Or(x == y, self.flat.ori(x, y))) if getattr(self.flat, 'ori', None) is not None else z3.BoolVal(False)
        if 'D09b' in getattr(self, 'excluded_regions', ()) or True:
            ctx.oblige('C16.to_directed.presence_of_the_listed_orientation', vH.Pres[x][y][q] == z3.And(listed, c.vG.Pres[x][y][q]), tags=T,
                       note='exact characterisation of what the code builds; the other orientation is finding D09b')
        if 'D09b' not in getattr(self, 'excluded_regions', ()):
            ctx.oblige('C16.to_directed.both_directions', vH.Pres[x][y][q] == c.vG.Pres[x][y][q], tags=T, note='the property form (finding D09b while listed)')
        ctx.oblige('C16.to_directed.nodes_kept', H['NodeIn'][x] == c.pre['NodeIn'][x], tags=T)
        ctx.oblige('C16.to_directed.node_attributes_copied', z3.Implies(c.pre['NodeIn'][x], H['NAttr'][x] == c.pre['NAttr'][x]), tags=T)
        ctx.oblige('C16.to_directed.graph_attributes_copied', H['GAttr'] == c.pre['GAttr'], tags=T)
        for comp, f in spec.state_unchanged(c.g, c.pre).items():
            ctx.oblige('C16.to_directed.source_unchanged.%s' % comp, f, tags=T)
