r"""Contract of generate_snapshots (C09: the row set of the snapshot edge-list writer), modular against the listing contract.

generate_snapshots(G, delimiter)     requires Inv(G) (canonical timelines), edge_removal
  ensures  (ghost Yrow(a,b,q) = how many times the row  a<delim>b<delim>q  is yielded)
           forall a,b,q.  Yrow(a,b,q) = [the listing yields (a,b)] * [P(G,a,b,q)]
           i.e. exactly one row per listed interaction and per instant at which it is present, with the listing's orientation
           (undirected: the one orientation interactions() lists; directed: out_interactions(), every stored edge, oriented);
           rows of one interaction are produced in increasing q;  G is not modified
  trusted  Row(u,v,t) = delimiter.join(map(make_str, [u,v,t])) is kept as an injective constructor (string codec, DESIGN C09)
Loops: outer over the listed interactions (ghost visited set), middle over the interval index k, inner over range(s_k, e_k + 1):
           Yrow(a,b,q) = [visited(a,b) /\ P(a,b,q)];   + [cur /\ P(cur,q) /\ k >= 1 /\ q <= e_{k-1}];   + [cur /\ s_k <= q < s]"""
import z3
from pyvc.sym import fresh, fresh_fun, Node, Int, Bool, IntV, FA, inb, b2i
from pyvc.values import *   # noqa
from pyvc import spec
from pyvc.loops import LoopSpec
from .base import Contract, Call
from .slice import FlatIter

YR = A(Node, A(Node, A(Int, Int)))


class GenerateSnapshots(Contract):
    props = ('C09',)
    key = 'edgelist::generate_snapshots'

    def __init__(self, cls, bound_n=None):
        self.cls = cls
        self.directed = cls == 'DynDiGraph'
        self.flat = FlatIter(cls)

    def uses(self, eng):
        return [self.flat]

    def reads(self):
        return [self.flat.key, ('dyndigraph::DynDiGraph.out_interactions' if self.directed else 'dyngraph::DynGraph.interactions')]

    def setup(self, ctx, variant):
        g = HGraph('G', self.directed, self.cls).havoc('0')
        g['ER'] = z3.BoolVal(True)
        ctx.graphs['G'] = g
        vG = spec.View('G')
        ctx.views['G'] = vG
        qa, qb, qq = fresh('qa', Node), fresh('qb', Node), fresh('qq', Int)
        ctx.focus = [qa, qb]
        ctx.inv_cats = ('shape', 'canon', 'link')
        spec.inv_assume(ctx, g, vG, [qa, qb], [(qa, qb), (qb, qa)])

        def on_focus(new_pairs):
            spec.inv_assume(ctx, g, vG, [p[0] for p in new_pairs], new_pairs)
        ctx.on_focus = on_focus
        c = Call(g=g, pre=g.snapshot(), vG=vG, qa=qa, qb=qb, qq=qq, argv=[VGraph(g), VStr(' ')], kwv={})
        ctx.gs = c
        self.ghost0 = {'$yrow': VOpaque(z3.K(Node, z3.K(Node, z3.K(Int, IntV(0)))), 'ghost')}
        return c

    def body(self, interp, call):
        interp.generator_ghost = dict(self.ghost0)
        return Contract.body(self, interp, call)

    def loop_specs(self):
        def pairs_of(L, extra=()):
            f = L.ctx.focus
            ps = [(f[0], f[1]), (f[1], f[0])]
            for p in extra:
                ps += [p, (p[1], p[0])]
            return ps

        def outer(L):
            c = L.ctx.gs
            Y = L.env['$yrow'].z
            q = z3.Int('q?go')
            cur = [tuple(L.cur)] if L.cur else []
            return [('rows_of_the_visited_interactions.%d' % i,
                     FA([q], Y[a][b][q] == b2i(z3.And(L.vis(a, b), c.vG.Pres[a][b][q])), [Y[a][b][q]])) for i, (a, b) in enumerate(pairs_of(L, cur))]

        def on_exit(L):
            return [z3.Implies(L.bag.member(a, b), L.vis(a, b)) for (a, b) in pairs_of(L)]

        def middle(L):
            c = L.ctx.gs
            Y, Y0 = L.env['$yrow'].z, L.env0['$yrow'].z
            u, v = L.otv(0).z, L.otv(1).z
            d = L.otv(2)
            E = c.g['E'][d.r]
            k = L.k
            q = z3.Int('q?gm')
            out = []
            for i, (a, b) in enumerate(pairs_of(L, [(u, v)])):
                cur = z3.And(a == u, b == v)
                out.append(('rows_of_the_intervals_so_far.%d' % i,
                            FA([q], Y[a][b][q] == Y0[a][b][q] + b2i(z3.And(cur, c.vG.Pres[a][b][q], k >= 1, q <= E[k - 1])), [Y[a][b][q]])))
            return out

        def middle_hints(L):
            c = L.ctx.gs
            d = L.otv(2)
            S, E = c.g['S'][d.r], c.g['E'][d.r]
            L.ctx.mention(S[L.k - 1], E[L.k - 1], S[L.k], E[L.k])
            return []

        def inner(L):
            c = L.ctx.gs
            Y, Y0 = L.env['$yrow'].z, L.env0['$yrow'].z
            stack = L.interp.loop_stack
            onode = stack[-3][0]
            import ast as _ast
            on = [n.id for n in _ast.walk(onode.target) if isinstance(n, _ast.Name)]
            u, v = L.env[on[0]].z, L.env[on[1]].z
            q = z3.Int('q?gi')
            out = []
            for i, (a, b) in enumerate(pairs_of(L, [(u, v)])):
                cur = z3.And(a == u, b == v)
                out.append(('rows_of_this_interval_so_far.%d' % i,
                            FA([q], Y[a][b][q] == Y0[a][b][q] + b2i(z3.And(cur, L.lo <= q, q < L.k)), [Y[a][b][q]])))
            return out
        return {'bag/3': LoopSpec(outer, modifies={}, on_exit=on_exit, tags=('C09',)),
                'timeline/1': LoopSpec(middle, modifies={}, assumes=middle_hints, tags=('C09',)),
                'range/1': LoopSpec(inner, modifies={}, tags=('C09',))}

    def finish(self, ctx, c, outcome):
        T = ('C09',)
        if outcome[0] == 'raise':
            return self.forbid(ctx, 'C09.rows.no_exception.%s' % outcome[1], tags=T, note=outcome[2])
        gh = getattr(outcome[1], 'ghost', None)
        if gh is None or '$yrow' not in gh or outcome[1].items:
            return self.shape(ctx, 'C09.rows.yields_rows', tags=T)
        Y = gh['$yrow'].z
        a, b, q = c.qa, c.qb, c.qq
        listed = self.flat_member(ctx, c, a, b)
        ctx.oblige('C09.rows.one_row_per_listed_interaction_and_present_instant', Y[a][b][q] == b2i(z3.And(listed, c.vG.Pres[a][b][q])), tags=T)
        for comp, f in spec.state_unchanged(c.g, c.pre).items():
            ctx.oblige('C09.rows.modifies_nothing.%s' % comp, f, tags=T)

    def flat_member(self, ctx, c, a, b):
        C = c.pre['Cell_' + c.pre.mainw()]
        if self.directed:
            return C[a][b] != 0
        ori = getattr(self.flat, 'ori', None)
        if ori is None:
            return z3.BoolVal(False)
        return z3.And(C[a][b] != 0, z3.Or(a == b, ori(a, b)))


class GenerateInteractions(Contract):
    r"""generate_interactions (C10: the rows of the interaction-list writer), modular against the contract of stream_interactions.
    ensures  the yielded rows are exactly Row(u,v,op,t) of the events of stream_interactions(), one per event, IN STREAM ORDER
             (ghost sequence ys, length n:  ys[i] = code(event i));  G is not modified"""
    props = ('C10',)
    key = 'edgelist::generate_interactions'

    def __init__(self, cls, bound_n=None):
        self.cls = cls
        self.directed = cls == 'DynDiGraph'

    def uses(self, eng):
        from .stream import StreamInteractions
        return [StreamInteractions(self.cls)]

    def reads(self):
        from .stream import StreamInteractions
        return [StreamInteractions(self.cls).key]

    def setup(self, ctx, variant):
        from pyvc.sym import EvRow
        g = HGraph('G', self.directed, self.cls).havoc('0')
        ctx.graphs['G'] = g
        ctx.assume(spec.tte_h(g), 'tte')
        self.ghost0 = {'$yseq': VOpaque(fresh('ys0', A(Int, EvRow)), 'ghost'), '$ylen': VInt(0)}
        c = Call(g=g, pre=g.snapshot(), qi=fresh('qi', Int), argv=[VGraph(g), VStr(' ')], kwv={})
        ctx.gi = c
        return c

    def body(self, interp, call):
        interp.generator_ghost = dict(self.ghost0)
        return Contract.body(self, interp, call)

    def loop_specs(self):
        def inv(L):
            from pyvc.sym import evrow
            ys, n = L.env['$yseq'].z, L.env['$ylen'].z
            seq = L.iterable
            i = z3.Int('i?gi')
            return [('as_many_rows_as_events_so_far', n == L.k),
                    ('row_i_is_event_i', FA([i], z3.Implies(inb(i, L.k), ys[i] == evrow(seq.meta['key'](i), seq.meta['time'](i))), [ys[i]]))]
        return {'seq/1': LoopSpec(inv, modifies={}, tags=('C10',))}

    def finish(self, ctx, c, outcome):
        from pyvc.sym import evrow
        T = ('C10',)
        if outcome[0] == 'raise':
            return self.forbid(ctx, 'C10.rows.no_exception.%s' % outcome[1], tags=T, note=outcome[2])
        gh = getattr(outcome[1], 'ghost', None)
        if gh is None or '$yseq' not in gh or outcome[1].items:
            return self.shape(ctx, 'C10.rows.yields_rows', tags=T)
        seq = getattr(ctx, 'gi_seq', None)
        ys, n = gh['$yseq'].z, gh['$ylen'].z
        if seq is None:
            return self.forbid(ctx, 'C10.rows.iterates_the_stream', tags=T)
        ctx.oblige('C10.rows.one_row_per_stream_event', n == seq.n, tags=T)
        ctx.oblige('C10.rows.in_stream_order', z3.Implies(inb(c.qi, seq.n), ys[c.qi] == evrow(seq.meta['key'](c.qi), seq.meta['time'](c.qi))), tags=T)
        for comp, f in spec.state_unchanged(c.g, c.pre).items():
            ctx.oblige('C10.rows.modifies_nothing.%s' % comp, f, tags=T)


class NodeLinkData(GenerateSnapshots):
    r"""node_link_data(G, attrs) (C11), modular against the listing contract.
    ensures  data['directed'] = G is directed;  data['nodes'] has exactly one entry per node of G (isolated ones included; the entry -
             attributes plus the id - is kept opaque);  data['links'] holds exactly one {source, target, time} per listed interaction and per
             instant at which it is present, with the listing's orientation (directed: out_interactions_iter);  G is not modified
    (JSON-serialisability and the decoder are outside the encoding: bounded part)"""
    props = ('C11',)
    key = 'node_link::node_link_data'

    def setup(self, ctx, variant):
        c = GenerateSnapshots.setup(self, ctx, variant)
        attrs = VDictLit([(VStr('id'), VStr('id')), (VStr('source'), VStr('source')), (VStr('target'), VStr('target'))])
        c.argv = [VGraph(c.g), attrs]
        self.ghost0 = {}
        return c

    def body(self, interp, call):
        return Contract.body(self, interp, call)

    @staticmethod
    def rows(L, env):
        data = [v for v in env.values() if getattr(v, 'kind', None) == 'dict' and any(k.kind == 'str' and k.s == 'links' for k, _ in v.pairs)]
        if not data:
            raise Undecided('the data dict of node_link_data was not found among the locals')
        links = dict((k.s, v) for k, v in data[0].pairs)['links']
        if links.kind == 'linkbag':
            return links.cnt
        if links.kind == 'list' and not links.items:
            return z3.K(Node, z3.K(Node, z3.K(Int, IntV(0))))
        raise Undecided('links slot of kind %s' % links.kind)

    def loop_specs(self):
        specs = GenerateSnapshots.loop_specs(self)

        class _Env(dict):
            pass

        def wrap(inv):
            def inv2(L):
                # the invariants of generate_snapshots, with the ghost row multiset read from data['links']
                e1 = _Env(L.env)
                e1['$yrow'] = VOpaque(self.rows(L, L.env), 'ghost')
                e0 = _Env(L.env0)
                e0['$yrow'] = VOpaque(self.rows(L, L.env0), 'ghost')
                saved = (L.env, L.env0)
                L.env, L.env0 = e1, e0
                try:
                    return inv(L)
                finally:
                    L.env, L.env0 = saved
            return inv2
        out = {}
        for k, sp in specs.items():
            out[k] = LoopSpec(wrap(sp.inv), modifies={}, assumes=sp.assumes, on_exit=sp.on_exit, tags=('C11',))
        return out

    def finish(self, ctx, c, outcome):
        T = ('C11',)
        if outcome[0] == 'raise':
            return self.forbid(ctx, 'C11.data.no_exception.%s' % outcome[1], tags=T, note=outcome[2])
        r = outcome[1]
        if r.kind != 'dict':
            return self.shape(ctx, 'C11.data.returns_a_dict', tags=T)
        slots = {k.s: v for k, v in r.pairs if k.kind == 'str'}
        for need in ('directed', 'nodes', 'links', 'graph'):
            if need not in slots:
                return self.shape(ctx, 'C11.data.has_key_%s' % need, tags=T)
        d = slots['directed']
        ctx.oblige('C11.data.records_directedness', (d.z == z3.BoolVal(self.directed)) if d.kind == 'bool' else z3.BoolVal(False), tags=T)
        nd = slots['nodes']
        ctx.oblige('C11.data.one_entry_per_node', (nd.member(c.qa) == c.pre['NodeIn'][c.qa]) if nd.kind == 'bag' else z3.BoolVal(False), tags=T)
        ctx.oblige('C11.data.graph_attributes', (slots['graph'].z == c.pre['GAttr']) if slots['graph'].kind == 'opaque' else z3.BoolVal(False), tags=T)
        links = slots['links']
        Y = links.cnt if links.kind == 'linkbag' else z3.K(Node, z3.K(Node, z3.K(Int, IntV(0))))
        a, b, q = c.qa, c.qb, c.qq
        listed = self.flat_member(ctx, c, a, b)
        ctx.oblige('C11.data.one_link_per_listed_interaction_and_present_instant', Y[a][b][q] == b2i(z3.And(listed, c.vG.Pres[a][b][q])), tags=T)
        for comp, f in spec.state_unchanged(c.g, c.pre).items():
            ctx.oblige('C11.data.modifies_nothing.%s' % comp, f, tags=T)
