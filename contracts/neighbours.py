r"""Contracts of the neighbourhood and degree queries (C02: "every snapshot and flattened query projects the one presence relation").

R_w(n, b) := the pair stored under n in map w (adj / succ / pred) exists  [t None]
             ... and is present at t: P(G, n, b, t) for adj / succ, P(G, b, n, t) for pred   [t given]

DynGraph.neighbors(n, t) / neighbors_iter(n, t), DynDiGraph.successors_iter / predecessors_iter(n, t)
  ensures  returns a collection that holds every b with  n in G /\ R_w(n, b)  exactly once and nothing else
           NetworkXError only if n is not in G (neighbors(n, t) with t given returns [] instead); no other exception; G not modified
DynGraph.degree_iter(None, t), DynDiGraph.in_degree_iter / out_degree_iter / degree_iter(None, t)
  ensures  (ghost Y(a) = number of pairs (a, d) yielded)   Y(a) = [a in G]   -- one pair per node
           every yielded d is the NUMBER OF ELEMENTS of a collection holding exactly the b with R_w(a, b), each once
           (DynDiGraph.degree_iter: the sum of two such numbers, for succ and for pred; DynGraph.degree_iter: plus one for a
           self-loop present, which the static graph counts twice - known finding D11: the code counts it once, so while D11 is listed
           the clause is stated for nodes without a self-loop present);  G not modified
  trusted  counting: a collection holding each of its members once has as many elements as any other such collection with the same
           members (the obligation proved is the equality of the membership predicates)."""
import z3
from pyvc.sym import fresh, Node, Int, Bool, IntV, FA, b2i
from pyvc.values import *   # noqa
from pyvc import spec
from pyvc.loops import LoopSpec
from .base import Contract, Call
from .queries import PresenceTest, presence_formula, maxsnap_of

T = ('C02', 'C08')          # (the accumulative-mode variants are also what C08's "all snapshot queries of C02 follow that presence" asks for)
MAPS = {'neighbors': 'adj', 'neighbors_iter': 'adj', 'successors_iter': 'succ', 'predecessors_iter': 'pred',
        'successors': 'succ', 'predecessors': 'pred',
        'degree_iter': None, 'in_degree_iter': 'pred', 'out_degree_iter': 'succ'}


class _NQ(Contract):
    props = T

    def __init__(self, cls, fname, bound_n=None):
        self.cls, self.fname = cls, fname
        self.directed = cls == 'DynDiGraph'
        self.mod = 'dyndigraph' if self.directed else 'dyngraph'
        self.key = '%s::%s.%s' % (self.mod, cls, fname)
        w = MAPS[fname]
        self.maps = [w] if w else (['succ', 'pred'] if self.directed else ['adj'])

    def variants(self):
        return [{'mode': m, 't': t} for m in ('removal', 'accum') for t in ('int', 'none')]

    def uses(self, eng):
        return [PresenceTest(self.cls)]

    def reads(self):
        return [PresenceTest(self.cls).key]

    def base(self, ctx, variant):
        g = HGraph('self', self.directed, self.cls).havoc('0')
        removal = variant['mode'] == 'removal'
        g['ER'] = z3.BoolVal(removal)
        ctx.graphs['self'] = g
        n, qb = fresh('n', Node), fresh('qb', Node)
        t = fresh('t', Int) if variant['t'] == 'int' else None
        view0 = spec.View('pre')
        ctx.focus = [n, qb]
        ctx.feas_skip = {'events', 'link'}
        if removal:
            ctx.inv_cats = ('shape', 'canon')
            spec.inv_assume(ctx, g, view0, [n, qb], [(n, qb), (qb, n)])

            def on_focus(new_pairs):
                spec.inv_assume(ctx, g, view0, [p[0] for p in new_pairs], new_pairs)
        else:
            from . import accum
            accum.inv_assume(ctx, g, view0, [n, qb], [(n, qb), (qb, n)])

            def on_focus(new_pairs):
                accum.inv_assume(ctx, g, view0, [p[0] for p in new_pairs], new_pairs)
        ctx.on_focus = on_focus
        return Call(g=g, pre=g.snapshot(), n=n, qb=qb, t=t, removal=removal, variant=variant, kwv={})

    def R(self, ctx, c, w, a, b):
        """b is a neighbour of a in map w (present at t when t is given)"""
        g = c.pre
        C = g['Cell_' + w]
        if c.t is None:
            return C[a][b] != 0
        u, v = (b, a) if w == 'pred' else (a, b)
        if c.removal:
            return z3.And(C[a][b] != 0, presence_formula(g, u, v, c.t, True))
        return z3.And(C[a][b] != 0, presence_formula(g, u, v, c.t, False, maxsnap_of(ctx, g)))

    def unchanged(self, ctx, c, what):
        for comp, f in spec.state_unchanged(c.g, c.pre).items():
            ctx.oblige('C02.%s.modifies_nothing.%s' % (what, comp), f, tags=T)


class NeighbourListing(_NQ):
    """neighbors / neighbors_iter / successors(_iter) / predecessors(_iter)"""

    def setup(self, ctx, variant):
        c = self.base(ctx, variant)
        c.argv = [VGraph(c.g), VNode(c.n), VInt(c.t) if c.t is not None else VNone]
        return c

    def finish(self, ctx, c, outcome):
        w = self.maps[0]
        Row = c.pre['Row_' + w]
        if outcome[0] == 'raise':
            if outcome[1] != 'NetworkXError':
                return self.forbid(ctx, 'C02.neighbours.no_exception.%s' % outcome[1], tags=T, note=outcome[2])
            ctx.oblige('C02.neighbours.NetworkXError_only_for_a_node_not_in_the_graph', z3.Not(Row[c.n]), tags=T)
            return
        r = outcome[1]
        if r.kind == 'list' and not r.items and not r.esc:
            member = lambda b: z3.BoolVal(False)
        elif r.kind == 'bag' and len(r.sorts) == 1 and r.sorts[0] == Node:
            member = r.member
            x = fresh('x', Node)
            e = r.make(x)
            if not (e.kind == 'node' and e.z.eq(x)):
                return self.shape(ctx, 'C02.neighbours.lists_node_ids', tags=T, note='element kind %s' % e.kind)
        else:
            return self.shape(ctx, 'C02.neighbours.returns_a_collection_of_nodes', tags=T, note='result kind %s' % r.kind)
        want = z3.And(Row[c.n], self.R(ctx, c, w, c.n, c.qb))
        ctx.oblige('C02.neighbours.lists_only_neighbours_present', z3.Implies(member(c.qb), want), tags=T)
        ctx.oblige('C02.neighbours.lists_every_neighbour_present', z3.Implies(want, member(c.qb)), tags=T)
        self.unchanged(ctx, c, 'neighbours')


class DegreeIter(_NQ):
    """degree_iter / in_degree_iter / out_degree_iter with nbunch = None, a node of the graph, or a one-element list [n] (n any node id)"""

    def variants(self):
        return [{'mode': m, 't': t, 'nb': nb} for m in ('removal', 'accum') for t in ('int', 'none') for nb in ('none', 'node', 'list1')]

    def setup(self, ctx, variant):
        c = self.base(ctx, variant)
        nb = variant.get('nb', 'none')
        c.nb = nb
        if nb == 'node':
            ctx.assume(c.g['NodeIn'][c.n])          # requires: a node given as nbunch is in the graph (degree() checks `nbunch in self`)
        nbv = {'none': VNone, 'node': VNode(c.n), 'list1': VList([VNode(c.n)])}[nb]
        c.argv = [VGraph(c.g), nbv, VInt(c.t) if c.t is not None else VNone]
        ctx.deg = c
        self.ghost0 = {'$ydeg': VOpaque(z3.K(Node, IntV(0)), 'ghost')}
        return c

    def uses(self, eng):
        return [PresenceTest(self.cls)]

    def body(self, interp, call):
        interp.generator_ghost = dict(self.ghost0)
        c = call
        me = self

        def on_yield(interp_, a, val):
            ctx = interp_.ctx
            cards = list(getattr(ctx, 'cards', []))[-len(me.maps):]
            if len(cards) != len(me.maps):
                return me.forbid(ctx, 'C02.degree.value_is_a_number_of_elements', tags=T, note='%d collection(s) counted, %d expected' % (len(cards), len(me.maps)))
            tot = IntV(0)
            for (cz, bag), w in zip(cards, me.maps):
                ctx.oblige('C02.degree.counts_only_neighbours_present.%s' % w, z3.Implies(bag.member(c.qb), me.R(ctx, c, w, a, c.qb)), tags=T, kind='yield')
                ctx.oblige('C02.degree.counts_every_neighbour_present.%s' % w, z3.Implies(me.R(ctx, c, w, a, c.qb), bag.member(c.qb)), tags=T, kind='yield')
                tot = tot + cz
            if me.fname == 'degree_iter' and not me.directed:
                # the static undirected graph counts a self-loop twice in the degree (networkx convention the property refers to);
                # the code counts it once: known finding D11 - while that finding is listed the clause is stated outside its region
                loop = me.R(ctx, c, 'adj', a, a)
                if 'D11' in getattr(me, 'excluded_regions', ()):
                    ctx.oblige('C02.degree.value_is_the_number_of_elements_counted', z3.Implies(z3.Not(loop), val.z == tot), tags=T, kind='yield')
                    ctx.oblige('C02.degree.value_counts_a_self_loop_once_or_twice', z3.And(tot <= val.z, val.z <= tot + b2i(loop)), tags=T, kind='yield')
                else:
                    ctx.oblige('C02.degree.value_is_the_number_of_elements_counted', val.z == tot + b2i(loop), tags=T, kind='yield')
            else:
                ctx.oblige('C02.degree.value_is_the_number_of_elements_counted', val.z == tot, tags=T, kind='yield')
        interp.on_yield_deg = on_yield
        return Contract.body(self, interp, call)

    def loop_specs(self):
        def inv(L):
            Y = L.env['$ydeg'].z
            a = z3.Const('a?dg', Node)
            return [('one_pair_per_visited_node', FA([a], Y[a] == b2i(L.vis(a)), [Y[a]]))]
        return {'bag/2': LoopSpec(inv, modifies={}, tags=T), 'bag/3': LoopSpec(inv, modifies={}, tags=T)}

    def finish(self, ctx, c, outcome):
        if outcome[0] == 'raise':
            return self.forbid(ctx, 'C02.degree.no_exception.%s' % outcome[1], tags=T, note=outcome[2])
        gh = getattr(outcome[1], 'ghost', None)
        if gh is None or '$ydeg' not in gh:
            return self.shape(ctx, 'C02.degree.yields_node_number_pairs', tags=T)
        Y = gh['$ydeg'].z
        if c.nb == 'none':
            ctx.oblige('C02.degree.one_pair_per_node_of_the_graph', Y[c.qb] == b2i(c.pre['NodeIn'][c.qb]), tags=T)
        else:
            ctx.oblige('C02.degree.one_pair_for_the_listed_node_if_it_is_in_the_graph',
                       Y[c.qb] == b2i(z3.And(c.qb == c.n, c.pre['NodeIn'][c.n])), tags=T)
        self.unchanged(ctx, c, 'degree')

    # ---- caller side
    def apply(self, interp, g, argv, kwv):
        """yields (a, D(a)) for the nodes selected by nbunch, D(a) = sum over the maps of Deg_w(a), Deg_w(a) the number of b with
        R_w(a, b): an uninterpreted non-negative number with the counting facts  Deg_w(a) > 0 <=> exists b. R_w(a, b)
        (DynGraph.degree_iter while finding D11 is listed: unspecified for a node with a self-loop present)"""
        from pyvc.sym import fresh_fun
        from pyvc.loops import VBag
        ctx = interp.ctx
        args = dict(zip(['nbunch', 't'], argv))
        args.update(kwv)
        nb, t = args.get('nbunch', VNone), args.get('t', VNone)
        if t.kind not in ('none', 'int'):
            raise Undecided('degree iterator called with t of kind %s' % t.kind)
        removal = z3.is_true(g['ER'])
        if not removal and not z3.is_false(g['ER']):
            raise Undecided('edge_removal not fixed at a degree iterator call')
        c = Call(pre=g, t=t.z if t.kind == 'int' else None, removal=removal)
        a, b = z3.Const('a?dq', Node), z3.Const('b?dq', Node)
        total = None
        for w in self.maps:
            deg = fresh_fun('Deg_' + w, Node, Int)
            wit = fresh_fun('wit_' + w, Node, Node)
            C = g['Cell_' + w]
            ctx.assume(FA([a], z3.And(deg(a) >= 0, z3.Implies(deg(a) > 0, self.R(ctx, c, w, a, wit(a)))), [deg(a)]), 'call')
            ctx.assume(FA([a, b], z3.Implies(self.R(ctx, c, w, a, b), deg(a) > 0), [C[a][b]]), 'call')
            total = (lambda f, prev: (lambda x: f(x) if prev is None else prev(x) + f(x)))(deg, total)
        if self.fname == 'degree_iter' and not self.directed:
            extra = fresh_fun('selfloop_extra', Node, Int)
            loop = lambda x: self.R(ctx, c, 'adj', x, x)
            if 'D11' in getattr(self, 'excluded_regions', ('D11',)):
                ctx.assume(FA([a], z3.And(0 <= extra(a), extra(a) <= b2i(loop(a))), [extra(a)]), 'call')
            else:
                ctx.assume(FA([a], extra(a) == b2i(loop(a)), [extra(a)]), 'call')
            D = lambda x: total(x) + extra(x)
        else:
            D = total
        ctx.notes.append('counting facts assumed at a degree iterator call: the number of elements of a collection is positive iff it has a member')
        ctx.last_degree = D
        ctx.last_degree_t = t
        if nb.kind == 'none':
            return VBag([Node], lambda x: g['NodeIn'][x], lambda x: VTuple([VNode(x), VInt(D(x))]), note='degree pairs')
        if nb.kind == 'node':
            ctx.oblige('pre.%s.node_in_graph' % self.fname, g['NodeIn'][nb.z], kind='pre')
            return VList([VTuple([nb, VInt(D(nb.z))])])
        if nb.kind == 'list' and not nb.esc and len(nb.items) == 1 and nb.items[0].kind == 'node':
            x = nb.items[0]
            if ctx.branch(g['NodeIn'][x.z], 'listed-node-in-graph'):
                return VList([VTuple([x, VInt(D(x.z))])])
            return VList([])
        raise Undecided('degree iterator called with an nbunch of kind %s' % nb.kind)


# ---- bounded search on the real code (triage of a refuted / undischarged clause) --------------------------------------------------

def _expected(M, w, n, t, nodes):
    out = []
    for b in nodes:
        u, v = (b, n) if w == 'pred' else (n, b)
        if (M.ever(u, v) if t is None else M.present(u, v, t)):
            out.append(b)
    return out


def run_case(cls, fname, removal, history, n, t):
    """the real query on the graph built by `history`; {clause: detail} of the violated clauses (oracle: union of the added spans)"""
    from bounded.core import run_history, Model
    history = [tuple(tuple(y) if isinstance(y, list) else y for y in c) for c in history]
    G, M, outs = run_history(cls, removal, history, probing=False)
    nodes = sorted(G.nodes(), key=repr)
    w = MAPS.get(fname)
    maps = [w] if w else (['succ', 'pred'] if cls == 'DynDiGraph' else ['adj'])
    out = {}
    both = ['succ', 'pred'] if cls == 'DynDiGraph' else ['adj']
    alive = lambda a: any(_expected(M, w_, a, t, nodes) for w_ in both)
    if fname == 'get_node_snapshots':
        try:
            res = list(G.get_node_snapshots(n))
        except Exception as ex:
            return {'C02.get_node_snapshots.no_exception.%s' % type(ex).__name__: repr(ex)}
        ids = G.temporal_snapshots_ids()
        if not M.removal:
            exp = [q for q in ids if n in nodes and any(M.present(*((n, b) if w_ != 'pred' else (b, n)), q) for w_ in both for b in nodes)]
        else:
            exp = [q for q in ids if n in nodes and any(_expected(M, w_, n, q, nodes) for w_ in both)]
        if sorted(res) != sorted(exp):
            return {'C02.get_node_snapshots.each_snapshot_with_the_node_once': 'get_node_snapshots(%r) = %r, expected %r' % (n, res, exp)}
        return {}
    if fname == 'is_empty':
        import dynetx as dn
        try:
            res = dn.is_empty(G)
        except Exception as ex:
            return {'C02.is_empty.no_exception.%s' % type(ex).__name__: repr(ex)}
        some = any(M.ever(a, b) for a in nodes for b in nodes)
        if bool(res) == (not some) and isinstance(res, bool):
            return {}
        return {('C02.is_empty.false_when_some_interaction_is_stored' if some else 'C02.is_empty.true_when_no_interaction_is_stored'):
                'is_empty(G) = %r, some interaction stored: %r' % (res, some)}
    if fname == 'number_of_interactions':
        try:
            res, exp = G.number_of_interactions(t=t), G.size(t)
        except Exception as ex:
            return {'C02.number_of_interactions_all.no_exception.%s' % type(ex).__name__: repr(ex)}
        return {} if res == exp else {'C02.number_of_interactions_all.returns_the_size': 'number_of_interactions(t=%r) = %r, size(%r) = %r' % (t, res, t, exp)}
    if fname == 'size':
        try:
            res = G.size(t)
        except Exception as ex:
            return {'C02.size.no_exception.%s' % type(ex).__name__: repr(ex)}
        if cls == 'DynDiGraph':
            pairs = [(a, b) for a in nodes for b in _expected(M, 'succ', a, t, nodes)]
        else:
            pairs = [(a, b) for i, a in enumerate(nodes) for b in _expected(M, 'adj', a, t, nodes) if b in nodes[i:]]
            if any(a == b for a, b in pairs):
                return {}               # a self-loop present: the region of known finding D11 (its own witness reports it)
        if res != len(pairs):
            return {'C02.size.is_half_the_sum_of_degrees': 'size(%r) = %r, interactions present: %r' % (t, res, pairs)}
        return {}
    if fname in ('has_node', 'nodes', 'nodes_iter', 'number_of_nodes'):
        try:
            res = getattr(G, fname)(n, t) if fname == 'has_node' else getattr(G, fname)(t)
        except Exception as ex:
            return {'C02.%s.no_exception.%s' % (fname.replace('_iter', ''), type(ex).__name__): repr(ex)}
        want_nodes = [a for a in nodes if (t is None or alive(a))]
        if fname == 'has_node':
            exp = (n in nodes) if t is None else (n in nodes and alive(n))
            if bool(res) != exp:
                out['C02.has_node.true_only_with_an_interaction_present' if res else 'C02.has_node.true_with_an_interaction_present'] = \
                    'has_node(%r, %r) = %r, expected %r' % (n, t, res, exp)
        elif fname == 'number_of_nodes':
            if res != len(want_nodes):
                out['C02.number_of_nodes.counts_only_nodes_with_an_interaction_present' if res > len(want_nodes) else
                    'C02.number_of_nodes.counts_every_node_with_an_interaction_present'] = 'number_of_nodes(%r) = %r, nodes with an interaction present: %r' % (t, res, want_nodes)
        else:
            got = sorted(map(repr, list(res)))
            if got != sorted(map(repr, want_nodes)):
                out['C02.nodes.lists_only_nodes_with_an_interaction_present' if set(got) - set(map(repr, want_nodes)) else
                    'C02.nodes.lists_every_node_with_an_interaction_present'] = '%s(%r) = %r, expected %r' % (fname, t, got, want_nodes)
        return out
    if fname in ITER_OF:
        nb = n[1] if isinstance(n, (list, tuple)) else n
        arg = [nb] if isinstance(n, (list, tuple)) else n
        try:
            res = getattr(G, fname)(arg, t)
        except Exception as ex:
            return {'C02.degree_query.no_exception.%s' % type(ex).__name__: repr(ex)}

        def D(a):
            d = sum(len(_expected(M, w_, a, t, nodes)) for w_ in maps)
            return (d, d + 1) if (fname == 'degree' and cls == 'DynGraph' and a in _expected(M, 'adj', a, t, nodes)) else (d,)
        if n is None:
            if not isinstance(res, dict) or sorted(map(repr, res)) != sorted(map(repr, nodes)):
                out['C02.degree_query.one_entry_per_node'] = '%s(None, %r) = %r, nodes %r' % (fname, t, res, nodes)
            else:
                for a in nodes:
                    if res[a] not in D(a):
                        out['C02.degree_query.entry_is_the_iterator_value'] = '%s(None, %r)[%r] = %r, neighbours present: %r' % (fname, t, a, res[a], D(a)[0])
        elif isinstance(n, (list, tuple)):
            exp_keys = [nb] if nb in nodes else []
            if not isinstance(res, dict) or sorted(map(repr, res)) != sorted(map(repr, exp_keys)):
                out['C02.degree_query.unknown_nodes_are_ignored' if nb not in nodes else 'C02.degree_query.listed_node_entry'] = '%s([%r], %r) = %r' % (fname, nb, t, res)
            elif exp_keys and res[nb] not in D(nb):
                out['C02.degree_query.listed_node_entry'] = '%s([%r], %r) = %r, neighbours present: %r' % (fname, nb, t, res, D(nb)[0])
        elif n in nodes and res not in D(n):
            out['C02.degree_query.single_node_value_is_the_iterator_value'] = '%s(%r, %r) = %r, neighbours present: %r' % (fname, n, t, res, D(n)[0])
        return out
    if fname.endswith('degree_iter'):
        try:
            pairs = list(getattr(G, fname)(None, t))
        except Exception as ex:
            return {'C02.degree.no_exception.%s' % type(ex).__name__: repr(ex)}
        if sorted((repr(a) for a, d in pairs)) != sorted(repr(a) for a in nodes):
            out['C02.degree.one_pair_per_node_of_the_graph'] = 'pairs %r, nodes %r' % (pairs, nodes)
        for a, d in pairs:
            exp = sum(len(_expected(M, w_, a, t, nodes)) for w_ in maps)
            if fname == 'degree_iter' and cls == 'DynGraph' and a in _expected(M, 'adj', a, t, nodes):
                if d == exp:
                    continue            # a self-loop counted once: known finding D11 (its own witness reports it)
                exp += 1
            if d != exp:
                out['C02.degree.value_is_the_number_of_elements_counted'] = '%s(None, %r) yields (%r, %r), %d neighbour(s) present' % (fname, t, a, d, exp)
        return out
    try:
        res = list(getattr(G, fname)(n, t))
    except Exception as ex:
        if type(ex).__name__ == 'NetworkXError' and n not in nodes:
            return out
        return {('C02.neighbours.NetworkXError_only_for_a_node_not_in_the_graph' if type(ex).__name__ == 'NetworkXError'
                 else 'C02.neighbours.no_exception.%s' % type(ex).__name__): repr(ex)}
    exp = _expected(M, w, n, t, nodes) if n in nodes else []
    if sorted(map(repr, res)) != sorted(map(repr, exp)):
        name = 'C02.neighbours.lists_every_neighbour_present' if set(map(repr, exp)) - set(map(repr, res)) else 'C02.neighbours.lists_only_neighbours_present'
        out[name] = '%s(%r, %r) = %r, present: %r' % (fname, n, t, res, exp)
    return out


def _search_real(self, engine):
    from bounded.core import histories, run_history, qs_of, jsonable
    import itertools
    for removal in (True, False):
        for cls, rem, h in itertools.islice(histories('quick', 1, classes=(self.cls,), modes=(removal,)), 600):
            G, M, outs = run_history(cls, rem, h, probing=False)
            if any(o[0] != o[1] for o in outs) or not M.keys():
                continue
            for t in ([None] + list(qs_of(M)) if self.fname not in ('get_node_snapshots', 'is_empty') else [None]):
                if self.fname.endswith('degree_iter') or self.fname in ('nodes', 'nodes_iter', 'number_of_nodes', 'size', 'number_of_interactions', 'is_empty'):
                    ns = (None,)
                elif self.fname in ITER_OF:
                    ns = (None, 1, 2, 3, ['list', 1], ['list', 3], ['list', 9])
                else:
                    ns = (1, 2, 3, 9)
                for n in ns:
                    if self.fname in ITER_OF and isinstance(n, int) and n not in G:
                        continue
                    v = run_case(cls, self.fname, rem, h, n, t)
                    if v:
                        return {'violated': v, 'call': '%s.%s(%r, %r) after %r (edge_removal=%s)' % (cls, self.fname, n, t, h, rem),
                                'replayer': {'module': 'contracts.neighbours', 'function': 'run_case', 'args': [cls, self.fname, rem, jsonable(h), n, t]}}
    return None


_NQ.search_real = _search_real


# ---- the wrappers over the degree iterators (modular: against DegreeIter.apply; degree() itself is inlined where it is only a step) --

ITER_OF = {'degree': 'degree_iter', 'in_degree': 'in_degree_iter', 'out_degree': 'out_degree_iter'}


class _OverDegree(_NQ):
    iter_name = 'degree_iter'

    def uses(self, eng):
        d = DegreeIter(self.cls, self.iter_name)
        d.excluded_regions = getattr(self, 'excluded_regions', set())
        return [d]

    def reads(self):
        ks = [DegreeIter(self.cls, self.iter_name).key]
        if self.fname not in ITER_OF:
            ks.append('%s::%s.degree' % (self.mod, self.cls))
        return ks

    def at_callers_t(self, ctx, c, what):
        """the degree iterator was asked at the caller's own t (None when the caller's t is None)"""
        t = getattr(ctx, 'last_degree_t', None)
        ok = t is not None and ((t.kind == 'none') if c.t is None else (t.kind == 'int' and t.z.eq(c.t)))
        ctx.oblige('C02.%s.asks_the_degrees_at_the_callers_t' % what, z3.BoolVal(bool(ok)), tags=T, kind='call-site')

    def some_neighbour(self, ctx, c, a, b):
        """b witnesses that a has an interaction present (t given) in one of the maps the degree counts"""
        return z3.Or(*[self.R(ctx, c, w, a, b) for w in (['succ', 'pred'] if self.directed else ['adj'])])


class DegreeQuery(_OverDegree):
    """degree / in_degree / out_degree (nbunch None -> dict over all nodes; a node of the graph -> its number; [n] -> dict with at most n)
    ensures  the answer is, node by node, exactly the number the degree iterator yields for that node (whose meaning is DegreeIter's
             contract: the number of neighbours present), for exactly the nodes selected by nbunch; G not modified"""

    def __init__(self, cls, fname, bound_n=None):
        MAPS[fname] = MAPS[ITER_OF[fname]]
        _NQ.__init__(self, cls, fname, bound_n)
        self.iter_name = ITER_OF[fname]

    def variants(self):
        return [{'mode': m, 't': t, 'nb': nb} for m in ('removal', 'accum') for t in ('int', 'none') for nb in ('none', 'node', 'list1')]

    def setup(self, ctx, variant):
        c = self.base(ctx, variant)
        c.nb = variant['nb']
        if c.nb == 'node':
            ctx.assume(c.g['NodeIn'][c.n])
        nbv = {'none': VNone, 'node': VNode(c.n), 'list1': VList([VNode(c.n)])}[c.nb]
        c.argv = [VGraph(c.g), nbv, VInt(c.t) if c.t is not None else VNone]
        return c

    def finish(self, ctx, c, outcome):
        if outcome[0] == 'raise':
            return self.forbid(ctx, 'C02.degree_query.no_exception.%s' % outcome[1], tags=T, note=outcome[2])
        r = outcome[1]
        D = getattr(ctx, 'last_degree', None)
        if D is None:
            return self.forbid(ctx, 'C02.degree_query.asks_the_degree_iterator', tags=T)
        self.at_callers_t(ctx, c, 'degree_query')
        if c.nb == 'none':
            if r.kind != 'nodemap':
                return self.shape(ctx, 'C02.degree_query.returns_a_dict_over_the_nodes', tags=T, note='result kind %s' % r.kind)
            ctx.oblige('C02.degree_query.one_entry_per_node', r.dom(c.qb) == c.pre['NodeIn'][c.qb], tags=T)
            v = r.get(c.qb)
            ctx.oblige('C02.degree_query.entry_is_the_iterator_value', z3.Implies(c.pre['NodeIn'][c.qb], v.z == D(c.qb)) if v.kind == 'int' else z3.BoolVal(False), tags=T)
        elif c.nb == 'node':
            ctx.oblige('C02.degree_query.single_node_value_is_the_iterator_value', (r.z == D(c.n)) if r.kind == 'int' else z3.BoolVal(False), tags=T)
        else:
            if r.kind != 'dict':
                return self.shape(ctx, 'C02.degree_query.returns_a_dict_for_a_list', tags=T, note='result kind %s' % r.kind)
            inn = c.pre['NodeIn'][c.n]
            if len(r.pairs) == 0:
                ctx.oblige('C02.degree_query.unknown_nodes_are_ignored', z3.Not(inn), tags=T)
            elif len(r.pairs) == 1 and r.pairs[0][0].kind == 'node' and r.pairs[0][1].kind == 'int':
                ctx.oblige('C02.degree_query.listed_node_entry', z3.And(inn, r.pairs[0][0].z == c.n, r.pairs[0][1].z == D(c.n)), tags=T)
            else:
                return self.shape(ctx, 'C02.degree_query.one_entry_for_one_listed_node', tags=T)
        self.unchanged(ctx, c, 'degree_query')


class HasNode(_OverDegree):
    """has_node(n, t)   ensures  t None: result <=> n in G;   t given: result <=> n in G and n has an interaction present at t"""

    def __init__(self, cls, bound_n=None):
        MAPS['has_node'] = None
        _NQ.__init__(self, cls, 'has_node', bound_n)

    def variants(self):
        return [{'mode': m, 't': t} for m in ('removal', 'accum') for t in ('int', 'none')]

    def setup(self, ctx, variant):
        c = self.base(ctx, variant)
        c.argv = [VGraph(c.g), VNode(c.n), VInt(c.t) if c.t is not None else VNone]
        return c

    def finish(self, ctx, c, outcome):
        if outcome[0] == 'raise':
            return self.forbid(ctx, 'C02.has_node.no_exception.%s' % outcome[1], tags=T, note=outcome[2])
        r = outcome[1]
        if r.kind != 'bool':
            return self.shape(ctx, 'C02.has_node.returns_bool', tags=T, note='result kind %s' % r.kind)
        inn = c.pre['NodeIn'][c.n]
        if c.t is None:
            ctx.oblige('C02.has_node.flattened_is_membership', r.z == inn, tags=T)
        else:
            b = z3.Const('b?hn', Node)
            ctx.oblige('C02.has_node.true_only_with_an_interaction_present', z3.Implies(r.z, z3.And(inn, z3.Exists([b], self.some_neighbour(ctx, c, c.n, b)))), tags=T)
            ctx.oblige('C02.has_node.true_with_an_interaction_present', z3.Implies(z3.And(inn, self.some_neighbour(ctx, c, c.n, c.qb)), r.z), tags=T)
        self.unchanged(ctx, c, 'has_node')


def has_node_symbol(ctx, g):
    """HN(u, t): `u is in G and some interaction of u is present at t` - the verified postcondition of has_node(u, t), kept as one
    uninterpreted predicate per graph state on the caller side (callers of has_node never need to unfold it)"""
    from pyvc.sym import fresh_fun
    key = ('HN', g.name, tuple(g[c_].get_id() for c_ in sorted(g.comp_names()) if c_.startswith('Cell_') or c_ in ('S', 'E', 'Len', 'NodeIn', 'SKey')))
    cache = ctx.__dict__.setdefault('_hn', {})
    if key not in cache:
        cache[key] = fresh_fun('HN', Node, Int, Bool)
        ctx.notes.append('has_node(u, t) by its verified contract (C02): an opaque predicate HN(u, t) of the graph state on the caller side')
    return cache[key]


def _has_node_apply(self, interp, g, argv, kwv):
    args = dict(zip(['n', 't'], argv))
    args.update(kwv)
    n, t = args['n'], args.get('t', VNone)
    if n.kind != 'node':
        raise Undecided('has_node called with a %s' % n.kind)
    if t.kind == 'none':
        return VBool(g['NodeIn'][n.z])
    if t.kind != 'int':
        raise Undecided('has_node called with t of kind %s' % t.kind)
    return VBool(has_node_symbol(interp.ctx, g)(n.z, t.z))


HasNode.apply = _has_node_apply


class NodesAt(_OverDegree):
    """nodes(t) / nodes_iter(t) (data False)   ensures  the nodes with an interaction present at t (t None: all nodes), each once"""

    def __init__(self, cls, fname='nodes', bound_n=None):
        MAPS[fname] = None
        _NQ.__init__(self, cls, fname, bound_n)

    def variants(self):
        return [{'mode': m, 't': t} for m in ('removal', 'accum') for t in ('int', 'none')]

    def reads(self):
        return _OverDegree.reads(self) + ['%s::%s.nodes_iter' % (self.mod, self.cls)]

    def setup(self, ctx, variant):
        c = self.base(ctx, variant)
        c.argv = [VGraph(c.g), VInt(c.t) if c.t is not None else VNone]
        return c

    def finish(self, ctx, c, outcome):
        if outcome[0] == 'raise':
            return self.forbid(ctx, 'C02.nodes.no_exception.%s' % outcome[1], tags=T, note=outcome[2])
        r = outcome[1]
        if r.kind == 'nodedict':
            member = lambda a: c.pre['NodeIn'][a]
        elif r.kind == 'bag' and len(r.sorts) == 1 and r.sorts[0] == Node:
            x = fresh('x', Node)
            e = r.make(x)
            if not (e.kind == 'node' and e.z.eq(x)):
                return self.shape(ctx, 'C02.nodes.lists_node_ids', tags=T, note='element kind %s' % e.kind)
            member = r.member
        else:
            return self.shape(ctx, 'C02.nodes.returns_a_collection_of_nodes', tags=T, note='result kind %s' % r.kind)
        inn = c.pre['NodeIn']
        if c.t is None:
            ctx.oblige('C02.nodes.flattened_lists_every_node', member(c.n) == inn[c.n], tags=T)
        else:
            b = z3.Const('b?na', Node)
            ctx.oblige('C02.nodes.lists_only_nodes_with_an_interaction_present',
                       z3.Implies(member(c.n), z3.And(inn[c.n], z3.Exists([b], self.some_neighbour(ctx, c, c.n, b)))), tags=T)
            ctx.oblige('C02.nodes.lists_every_node_with_an_interaction_present', z3.Implies(z3.And(inn[c.n], self.some_neighbour(ctx, c, c.n, c.qb)), member(c.n)), tags=T)
        self.unchanged(ctx, c, 'nodes')


class NumberOfNodes(_OverDegree):
    """number_of_nodes(t)   ensures  the result is the number of elements of a collection holding exactly the nodes with an interaction
    present at t (t None: all nodes), each once (counting trusted; the membership is what is proved)"""

    def __init__(self, cls, bound_n=None):
        MAPS['number_of_nodes'] = None
        _NQ.__init__(self, cls, 'number_of_nodes', bound_n)

    def variants(self):
        return [{'mode': m, 't': t} for m in ('removal', 'accum') for t in ('int', 'none')]

    def setup(self, ctx, variant):
        c = self.base(ctx, variant)
        c.argv = [VGraph(c.g), VInt(c.t) if c.t is not None else VNone]
        return c

    def finish(self, ctx, c, outcome):
        if outcome[0] == 'raise':
            return self.forbid(ctx, 'C02.number_of_nodes.no_exception.%s' % outcome[1], tags=T, note=outcome[2])
        r = outcome[1]
        cards = [(cz, bag) for (cz, bag) in getattr(ctx, 'cards', []) if r.kind == 'int' and cz.eq(r.z)]
        if not cards:
            return self.shape(ctx, 'C02.number_of_nodes.is_a_number_of_elements', tags=T, note='result kind %s' % r.kind)
        member = cards[-1][1].member
        inn = c.pre['NodeIn']
        if c.t is None:
            ctx.oblige('C02.number_of_nodes.flattened_counts_every_node', member(c.n) == inn[c.n], tags=T)
        else:
            b = z3.Const('b?nn', Node)
            ctx.oblige('C02.number_of_nodes.counts_only_nodes_with_an_interaction_present',
                       z3.Implies(member(c.n), z3.And(inn[c.n], z3.Exists([b], self.some_neighbour(ctx, c, c.n, b)))), tags=T)
            ctx.oblige('C02.number_of_nodes.counts_every_node_with_an_interaction_present',
                       z3.Implies(z3.And(inn[c.n], self.some_neighbour(ctx, c, c.n, c.qb)), member(c.n)), tags=T)
        self.unchanged(ctx, c, 'number_of_nodes')


class Size(_OverDegree):
    """size(t)   ensures  the result is  int(S / 2)  where S is the sum of the values of a map that has exactly one entry per node of G, the
    entry of a being the number the degree iterator yields for a at t (whose meaning is DegreeIter's contract: the number of neighbours
    present; `degree` is read through, the iterator is applied by contract);  S >= 0 is the counting fact assumed (a sum of numbers of
    elements);  G not modified.
    trusted  handshake lemma: the degrees of a static graph add up to twice its number of edges (a self-loop counting twice, which is
             the region of known finding D11 on DynGraph), so int(S / 2) is the number of interactions present at t"""

    def __init__(self, cls, bound_n=None):
        MAPS['size'] = None
        _NQ.__init__(self, cls, 'size', bound_n)

    def variants(self):
        return [{'mode': m, 't': t} for m in ('removal', 'accum') for t in ('int', 'none')]

    def setup(self, ctx, variant):
        c = self.base(ctx, variant)
        c.argv = [VGraph(c.g), VInt(c.t) if c.t is not None else VNone]
        return c

    def finish(self, ctx, c, outcome):
        if outcome[0] == 'raise':
            return self.forbid(ctx, 'C02.size.no_exception.%s' % outcome[1], tags=T, note=outcome[2])
        r = outcome[1]
        D = getattr(ctx, 'last_degree', None)
        sums = getattr(ctx, 'mapsums', [])
        if D is None or len(sums) != 1:
            return self.shape(ctx, 'C02.size.sums_one_degree_map', tags=T, note='%d sums over node maps' % len(sums))
        S, m = sums[0]
        ctx.assume(S >= 0, 'call')
        self.at_callers_t(ctx, c, 'size')
        ctx.oblige('C02.size.sums_one_entry_per_node', m.dom(c.qb) == c.pre['NodeIn'][c.qb], tags=T)
        v = m.get(c.qb)
        ctx.oblige('C02.size.sums_the_degree_of_every_node_at_the_callers_t',
                   z3.Implies(c.pre['NodeIn'][c.qb], v.z == D(c.qb)) if v.kind == 'int' else z3.BoolVal(False), tags=T)
        ctx.oblige('C02.size.is_half_the_sum_of_degrees', z3.And(2 * r.z <= S, S <= 2 * r.z + 1) if r.kind == 'int' else z3.BoolVal(False), tags=T)
        self.unchanged(ctx, c, 'size')


class GetNodeSnapshots(_OverDegree):
    """get_node_snapshots(n)   ensures  the returned list holds exactly the snapshot ids t with has_node(n, t), each once
    (modular against temporal_snapshots_ids and has_node; the ORDER of the list - ascending, as the ids are visited in ascending order -
    is not part of the ghost state and stays with the bounded stand-in)"""

    def __init__(self, cls, bound_n=None):
        MAPS['get_node_snapshots'] = None
        _NQ.__init__(self, cls, 'get_node_snapshots', bound_n)

    def variants(self):
        return [{'mode': m, 't': 'none'} for m in ('removal', 'accum')]

    def uses(self, eng):
        from .readside import TemporalSnapshotsIds
        return [TemporalSnapshotsIds(self.cls), HasNode(self.cls)]

    def reads(self):
        from .readside import TemporalSnapshotsIds
        return [TemporalSnapshotsIds(self.cls).key, HasNode(self.cls).key]

    def setup(self, ctx, variant):
        c = self.base(ctx, variant)
        c.argv = [VGraph(c.g), VNode(c.n)]
        c.HN = has_node_symbol(ctx, c.g)
        c.q = fresh('q', Int)
        ctx.gns = c
        return c

    def loop_specs(self):
        def cnt_of(L):
            vs = [v for v in L.env.values() if getattr(v, 'kind', None) == 'intbag']
            return vs[0].cnt if vs else z3.K(Int, IntV(0))

        def inv(L):
            c = L.ctx.gns
            it = L.iterable
            if it.kind != 'seq' or 'idx' not in it.meta:
                raise Undecided('loop does not run over the sorted snapshot ids')
            idx = it.meta['idx']
            q = z3.Int('q?gn')
            cnt = cnt_of(L)
            SK = c.pre['SKey']
            return [('collected_ids_are_the_visited_ids_with_the_node',
                     FA([q], cnt[q] == b2i(z3.And(SK[q], idx(q) < L.k, c.HN(c.n, q))), [cnt[q]]))]

        def hints(L):
            it = L.iterable
            L.ctx.mention(it.meta['idx'](it.meta['f'](L.k)))
            return []
        return {'seq/1': LoopSpec(inv, modifies={}, assumes=hints, tags=T)}

    def finish(self, ctx, c, outcome):
        if outcome[0] == 'raise':
            return self.forbid(ctx, 'C02.get_node_snapshots.no_exception.%s' % outcome[1], tags=T, note=outcome[2])
        r = outcome[1]
        if r.kind == 'list' and not r.items and not r.esc:
            cnt = z3.K(Int, IntV(0))
        elif r.kind == 'intbag' and not getattr(r, 'tainted', False):
            cnt = r.cnt
        else:
            return self.shape(ctx, 'C02.get_node_snapshots.returns_a_list_of_ids', tags=T, note='result kind %s' % r.kind)
        ctx.oblige('C02.get_node_snapshots.each_snapshot_with_the_node_once', cnt[c.q] == b2i(z3.And(c.pre['SKey'][c.q], c.HN(c.n, c.q))), tags=T)
        self.unchanged(ctx, c, 'get_node_snapshots')


def _size_apply(self, interp, g, argv, kwv):
    """size(t): an integer (the contract above says which); the t it was asked at is remembered for the caller's clause"""
    ctx = interp.ctx
    args = dict(zip(['t'], argv))
    args.update(kwv)
    extra = [k for k in args if k != 't']
    if extra:
        raise Undecided('size called with %r' % extra)
    tok = fresh('size_result', Int)
    if not hasattr(ctx, 'size_calls'):
        ctx.size_calls = []
    ctx.size_calls.append((args.get('t', VNone), tok))
    return VInt(tok)


Size.apply = _size_apply


class NumberOfInteractionsAll(_NQ):
    """number_of_interactions(u=None, v=None, t): the whole-graph form
    ensures  exactly one call of size, at the caller's own t (no argument or None when t is None); the result is that call's result
             (size's own contract says what it is); no exception; G not modified"""

    def __init__(self, cls, bound_n=None):
        MAPS['number_of_interactions'] = None
        _NQ.__init__(self, cls, 'number_of_interactions', bound_n)

    def variants(self):
        return [{'mode': m, 't': t} for m in ('removal', 'accum') for t in ('int', 'none')]

    def uses(self, eng):
        return [Size(self.cls)]

    def reads(self):
        return []

    def setup(self, ctx, variant):
        c = self.base(ctx, variant)
        c.argv = [VGraph(c.g), VNone, VNone, VInt(c.t) if c.t is not None else VNone]
        return c

    def finish(self, ctx, c, outcome):
        if outcome[0] == 'raise':
            return self.forbid(ctx, 'C02.number_of_interactions_all.no_exception.%s' % outcome[1], tags=T, note=outcome[2])
        r = outcome[1]
        calls = getattr(ctx, 'size_calls', [])
        if len(calls) != 1:
            return self.forbid(ctx, 'C02.number_of_interactions_all.asks_size_once', tags=T, note='%d calls of size' % len(calls))
        t, tok = calls[0]
        ok = (t.kind == 'none') if c.t is None else (t.kind == 'int' and t.z.eq(c.t))
        ctx.oblige('C02.number_of_interactions_all.asks_size_at_the_callers_t', z3.BoolVal(bool(ok)), tags=T, kind='call-site')
        ctx.oblige('C02.number_of_interactions_all.returns_the_size', (r.z == tok) if r.kind == 'int' else z3.BoolVal(False), tags=T)
        self.unchanged(ctx, c, 'number_of_interactions_all')


class IsEmpty(_NQ):
    """dn.is_empty(G)   ensures  True iff G holds no interaction at all (flattened: no pair was ever added), for both classes;
    no exception; G not modified.   (any() over the adjacency's row views is the trusted model stated in pyvc.engine.b_any.)"""

    def __init__(self, cls, bound_n=None):
        MAPS['is_empty'] = None
        _NQ.__init__(self, cls, 'is_empty', bound_n)
        self.key = 'function::is_empty'

    def variants(self):
        return [{'mode': m, 't': 'none'} for m in ('removal', 'accum')]

    def uses(self, eng):
        return []

    def reads(self):
        return []

    def setup(self, ctx, variant):
        c = self.base(ctx, variant)
        c.argv = [VGraph(c.g)]
        return c

    def finish(self, ctx, c, outcome):
        if outcome[0] == 'raise':
            return self.forbid(ctx, 'C02.is_empty.no_exception.%s' % outcome[1], tags=T, note=outcome[2])
        r = outcome[1]
        if r.kind != 'bool':
            return self.shape(ctx, 'C02.is_empty.returns_a_bool', tags=T, note='result kind %s' % r.kind)
        w = 'succ' if self.directed else 'adj'
        C, inn = c.pre['Cell_' + w], c.pre['NodeIn']
        a, b = z3.Const('a?ie', Node), z3.Const('b?ie', Node)
        ctx.oblige('C02.is_empty.false_when_some_interaction_is_stored', z3.Implies(z3.And(inn[c.n], C[c.n][c.qb] != 0), z3.Not(r.z)), tags=T)
        ctx.oblige('C02.is_empty.true_when_no_interaction_is_stored',
                   z3.Implies(z3.Not(r.z), z3.Exists([a, b], z3.And(inn[a], C[a][b] != 0))), tags=T)
        self.unchanged(ctx, c, 'is_empty')
