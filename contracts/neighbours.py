r"""Contracts of the neighbourhood and degree queries (C02: "every snapshot and flattened query projects the one presence relation").

R_w(n, b) := the pair stored under n in map w (adj / succ / pred) exists  [t None]
             ... and is present at t: P(G, n, b, t) for adj / succ, P(G, b, n, t) for pred   [t given]

DynGraph.neighbors(n, t) / neighbors_iter(n, t), DynDiGraph.successors_iter / predecessors_iter(n, t)
  ensures  returns a collection that holds every b with  n in G /\ R_w(n, b)  exactly once and nothing else
           NetworkXError only if n is not in G (neighbors(n, t) with t given returns [] instead); no other exception; G not modified
DynGraph.degree_iter(None, t), DynDiGraph.in_degree_iter / out_degree_iter / degree_iter(None, t)
  ensures  (ghost Y(a) = number of pairs (a, d) yielded)   Y(a) = [a in G]   -- one pair per node
           every yielded d is the NUMBER OF ELEMENTS of a collection holding exactly the b with R_w(a, b), each once
           (DynDiGraph.degree_iter: the sum of two such numbers, for succ and for pred; DynGraph.degree_iter: plus one for a
           self-loop present, which the static graph counts twice - known finding D11: the code counts it once, so while D11 is listed
           the clause is stated for nodes without a self-loop present);  G not modified
  trusted  counting: a collection holding each of its members once has as many elements as any other such collection with the same
           members (the obligation proved is the equality of the membership predicates)."""
import z3
from pyvc.sym import fresh, Node, Int, Bool, IntV, FA, b2i
from pyvc.values import *   # noqa
from pyvc import spec
from pyvc.loops import LoopSpec
from .base import Contract, Call
from .queries import PresenceTest, presence_formula, maxsnap_of

T = ('C02',)
MAPS = {'neighbors': 'adj', 'neighbors_iter': 'adj', 'successors_iter': 'succ', 'predecessors_iter': 'pred',
        'successors': 'succ', 'predecessors': 'pred',
        'degree_iter': None, 'in_degree_iter': 'pred', 'out_degree_iter': 'succ'}


class _NQ(Contract):
    props = T

    def __init__(self, cls, fname, bound_n=None):
        self.cls, self.fname = cls, fname
        self.directed = cls == 'DynDiGraph'
        self.mod = 'dyndigraph' if self.directed else 'dyngraph'
        self.key = '%s::%s.%s' % (self.mod, cls, fname)
        w = MAPS[fname]
        self.maps = [w] if w else (['succ', 'pred'] if self.directed else ['adj'])

    def variants(self):
        return [{'mode': m, 't': t} for m in ('removal', 'accum') for t in ('int', 'none')]

    def uses(self, eng):
        return [PresenceTest(self.cls)]

    def reads(self):
        return [PresenceTest(self.cls).key]

    def base(self, ctx, variant):
        g = HGraph('self', self.directed, self.cls).havoc('0')
        removal = variant['mode'] == 'removal'
        g['ER'] = z3.BoolVal(removal)
        ctx.graphs['self'] = g
        n, qb = fresh('n', Node), fresh('qb', Node)
        t = fresh('t', Int) if variant['t'] == 'int' else None
        view0 = spec.View('pre')
        ctx.focus = [n, qb]
        ctx.feas_skip = {'events', 'link'}
        if removal:
            ctx.inv_cats = ('shape', 'canon')
            spec.inv_assume(ctx, g, view0, [n, qb], [(n, qb), (qb, n)])

            def on_focus(new_pairs):
                spec.inv_assume(ctx, g, view0, [p[0] for p in new_pairs], new_pairs)
        else:
            from . import accum
            accum.inv_assume(ctx, g, view0, [n, qb], [(n, qb), (qb, n)])

            def on_focus(new_pairs):
                accum.inv_assume(ctx, g, view0, [p[0] for p in new_pairs], new_pairs)
        ctx.on_focus = on_focus
        return Call(g=g, pre=g.snapshot(), n=n, qb=qb, t=t, removal=removal, variant=variant, kwv={})

    def R(self, ctx, c, w, a, b):
        """b is a neighbour of a in map w (present at t when t is given)"""
        g = c.pre
        C = g['Cell_' + w]
        if c.t is None:
            return C[a][b] != 0
        u, v = (b, a) if w == 'pred' else (a, b)
        if c.removal:
            return z3.And(C[a][b] != 0, presence_formula(g, u, v, c.t, True))
        return z3.And(C[a][b] != 0, presence_formula(g, u, v, c.t, False, maxsnap_of(ctx, g)))

    def unchanged(self, ctx, c, what):
        for comp, f in spec.state_unchanged(c.g, c.pre).items():
            ctx.oblige('C02.%s.modifies_nothing.%s' % (what, comp), f, tags=T)


class NeighbourListing(_NQ):
    """neighbors / neighbors_iter / successors(_iter) / predecessors(_iter)"""

    def setup(self, ctx, variant):
        c = self.base(ctx, variant)
        c.argv = [VGraph(c.g), VNode(c.n), VInt(c.t) if c.t is not None else VNone]
        return c

    def finish(self, ctx, c, outcome):
        w = self.maps[0]
        Row = c.pre['Row_' + w]
        if outcome[0] == 'raise':
            if outcome[1] != 'NetworkXError':
                return self.forbid(ctx, 'C02.neighbours.no_exception.%s' % outcome[1], tags=T, note=outcome[2])
            ctx.oblige('C02.neighbours.NetworkXError_only_for_a_node_not_in_the_graph', z3.Not(Row[c.n]), tags=T)
            return
        r = outcome[1]
        if r.kind == 'list' and not r.items and not r.esc:
            member = lambda b: z3.BoolVal(False)
        elif r.kind == 'bag' and len(r.sorts) == 1 and r.sorts[0] == Node:
            member = r.member
            x = fresh('x', Node)
            e = r.make(x)
            if not (e.kind == 'node' and e.z.eq(x)):
                return self.forbid(ctx, 'C02.neighbours.lists_node_ids', tags=T, note='element kind %s' % e.kind)
        else:
            return self.forbid(ctx, 'C02.neighbours.returns_a_collection_of_nodes', tags=T, note='result kind %s' % r.kind)
        want = z3.And(Row[c.n], self.R(ctx, c, w, c.n, c.qb))
        ctx.oblige('C02.neighbours.lists_only_neighbours_present', z3.Implies(member(c.qb), want), tags=T)
        ctx.oblige('C02.neighbours.lists_every_neighbour_present', z3.Implies(want, member(c.qb)), tags=T)
        self.unchanged(ctx, c, 'neighbours')


class DegreeIter(_NQ):
    """degree_iter / in_degree_iter / out_degree_iter with nbunch=None"""

    def setup(self, ctx, variant):
        c = self.base(ctx, variant)
        c.argv = [VGraph(c.g), VNone, VInt(c.t) if c.t is not None else VNone]
        ctx.deg = c
        self.ghost0 = {'$ydeg': VOpaque(z3.K(Node, IntV(0)), 'ghost')}
        return c

    def body(self, interp, call):
        interp.generator_ghost = dict(self.ghost0)
        c = call
        me = self

        def on_yield(interp_, a, val):
            ctx = interp_.ctx
            cards = list(getattr(ctx, 'cards', []))[-len(me.maps):]
            if len(cards) != len(me.maps):
                return me.forbid(ctx, 'C02.degree.value_is_a_number_of_elements', tags=T, note='%d collection(s) counted, %d expected' % (len(cards), len(me.maps)))
            tot = IntV(0)
            for (cz, bag), w in zip(cards, me.maps):
                ctx.oblige('C02.degree.counts_only_neighbours_present.%s' % w, z3.Implies(bag.member(c.qb), me.R(ctx, c, w, a, c.qb)), tags=T, kind='yield')
                ctx.oblige('C02.degree.counts_every_neighbour_present.%s' % w, z3.Implies(me.R(ctx, c, w, a, c.qb), bag.member(c.qb)), tags=T, kind='yield')
                tot = tot + cz
            if me.fname == 'degree_iter' and not me.directed:
                # the static undirected graph counts a self-loop twice in the degree (networkx convention the property refers to);
                # the code counts it once: known finding D11 - while that finding is listed the clause is stated outside its region
                loop = me.R(ctx, c, 'adj', a, a)
                if 'D11' in getattr(me, 'excluded_regions', ()):
                    ctx.oblige('C02.degree.value_is_the_number_of_elements_counted', z3.Implies(z3.Not(loop), val.z == tot), tags=T, kind='yield')
                else:
                    ctx.oblige('C02.degree.value_is_the_number_of_elements_counted', val.z == tot + b2i(loop), tags=T, kind='yield')
            else:
                ctx.oblige('C02.degree.value_is_the_number_of_elements_counted', val.z == tot, tags=T, kind='yield')
        interp.on_yield_deg = on_yield
        return Contract.body(self, interp, call)

    def loop_specs(self):
        def inv(L):
            Y = L.env['$ydeg'].z
            a = z3.Const('a?dg', Node)
            return [('one_pair_per_visited_node', FA([a], Y[a] == b2i(L.vis(a)), [Y[a]]))]
        return {'bag/2': LoopSpec(inv, modifies={}, tags=T), 'bag/3': LoopSpec(inv, modifies={}, tags=T)}

    def finish(self, ctx, c, outcome):
        if outcome[0] == 'raise':
            return self.forbid(ctx, 'C02.degree.no_exception.%s' % outcome[1], tags=T, note=outcome[2])
        gh = getattr(outcome[1], 'ghost', None)
        if gh is None or '$ydeg' not in gh:
            return self.forbid(ctx, 'C02.degree.yields_node_number_pairs', tags=T)
        Y = gh['$ydeg'].z
        ctx.oblige('C02.degree.one_pair_per_node_of_the_graph', Y[c.qb] == b2i(c.pre['NodeIn'][c.qb]), tags=T)
        self.unchanged(ctx, c, 'degree')


# ---- bounded search on the real code (triage of a refuted / undischarged clause) --------------------------------------------------

def _expected(M, w, n, t, nodes):
    out = []
    for b in nodes:
        u, v = (b, n) if w == 'pred' else (n, b)
        if (M.ever(u, v) if t is None else M.present(u, v, t)):
            out.append(b)
    return out


def run_case(cls, fname, removal, history, n, t):
    """the real query on the graph built by `history`; {clause: detail} of the violated clauses (oracle: union of the added spans)"""
    from bounded.core import run_history, Model
    history = [tuple(tuple(y) if isinstance(y, list) else y for y in c) for c in history]
    G, M, outs = run_history(cls, removal, history, probing=False)
    nodes = sorted(G.nodes(), key=repr)
    w = MAPS[fname]
    maps = [w] if w else (['succ', 'pred'] if cls == 'DynDiGraph' else ['adj'])
    out = {}
    if fname.endswith('degree_iter'):
        try:
            pairs = list(getattr(G, fname)(None, t))
        except Exception as ex:
            return {'C02.degree.no_exception.%s' % type(ex).__name__: repr(ex)}
        if sorted((repr(a) for a, d in pairs)) != sorted(repr(a) for a in nodes):
            out['C02.degree.one_pair_per_node_of_the_graph'] = 'pairs %r, nodes %r' % (pairs, nodes)
        for a, d in pairs:
            exp = sum(len(_expected(M, w_, a, t, nodes)) for w_ in maps)
            if fname == 'degree_iter' and cls == 'DynGraph' and a in _expected(M, 'adj', a, t, nodes):
                if d == exp:
                    continue            # a self-loop counted once: known finding D11 (its own witness reports it)
                exp += 1
            if d != exp:
                out['C02.degree.value_is_the_number_of_elements_counted'] = '%s(None, %r) yields (%r, %r), %d neighbour(s) present' % (fname, t, a, d, exp)
        return out
    try:
        res = list(getattr(G, fname)(n, t))
    except Exception as ex:
        if type(ex).__name__ == 'NetworkXError' and n not in nodes:
            return out
        return {('C02.neighbours.NetworkXError_only_for_a_node_not_in_the_graph' if type(ex).__name__ == 'NetworkXError'
                 else 'C02.neighbours.no_exception.%s' % type(ex).__name__): repr(ex)}
    exp = _expected(M, w, n, t, nodes) if n in nodes else []
    if sorted(map(repr, res)) != sorted(map(repr, exp)):
        name = 'C02.neighbours.lists_every_neighbour_present' if set(map(repr, exp)) - set(map(repr, res)) else 'C02.neighbours.lists_only_neighbours_present'
        out[name] = '%s(%r, %r) = %r, present: %r' % (fname, n, t, res, exp)
    return out


def _search_real(self, engine):
    from bounded.core import histories, run_history, qs_of, jsonable
    import itertools
    for removal in (True, False):
        for cls, rem, h in itertools.islice(histories('quick', 1, classes=(self.cls,), modes=(removal,)), 600):
            G, M, outs = run_history(cls, rem, h, probing=False)
            if any(o[0] != o[1] for o in outs) or not M.keys():
                continue
            for t in [None] + list(qs_of(M)):
                for n in ((1, 2, 3, 9) if not self.fname.endswith('degree_iter') else (None,)):
                    v = run_case(cls, self.fname, rem, h, n, t)
                    if v:
                        return {'violated': v, 'call': '%s.%s(%r, %r) after %r (edge_removal=%s)' % (cls, self.fname, n, t, h, rem),
                                'replayer': {'module': 'contracts.neighbours', 'function': 'run_case', 'args': [cls, self.fname, rem, jsonable(h), n, t]}}
    return None


_NQ.search_real = _search_real
