r"""Contracts of the read side of the snapshot index (C04): temporal_snapshots_ids x2, interactions_per_snapshots x2.

temporal_snapshots_ids()        ensures  result ascending, duplicate-free, set(result) = dom Cnt; modifies nothing
interactions_per_snapshots(t)   ensures  t given: KAPPA * result = Cnt(t) if t in dom Cnt else result = 0
                                         t omitted: a dict with dom = dom Cnt and KAPPA * result[q] = Cnt(q)
By I3 (kernel clauses C04.snapshot_*_step + lemma L1) Cnt(q) = KAPPA * #{interactions present at q}."""
import z3
from pyvc.sym import fresh, Node, Int, Bool, IntV, FA, inb
from pyvc.values import *   # noqa
from pyvc import spec
from .base import Contract, Call
from .kernel import KAPPA


class _Read(Contract):
    props = ('C04',)
    fname = None

    def __init__(self, cls, bound_n=None):
        self.cls = cls
        self.directed = cls == 'DynDiGraph'
        self.mod = 'dyndigraph' if self.directed else 'dyngraph'
        self.key = '%s::%s.%s' % (self.mod, cls, self.fname)

    def base(self, ctx):
        g = HGraph('self', self.directed, self.cls).havoc('0')
        g['ER'] = z3.BoolVal(True)
        ctx.graphs['self'] = g
        return g

    def unchanged(self, ctx, c):
        for comp, f in spec.state_unchanged(c.g, c.pre).items():
            ctx.oblige('C04.%s.modifies_nothing.%s' % (self.fname, comp), f, tags=('C04',))


class TemporalSnapshotsIds(_Read):
    fname = 'temporal_snapshots_ids'

    def setup(self, ctx, variant):
        g = self.base(ctx)
        return Call(g=g, pre=g.snapshot(), argv=[VGraph(g)], kwv={}, i=fresh('i', Int), j=fresh('j', Int), q=fresh('q', Int))

    def finish(self, ctx, c, outcome):
        T = ('C04',)
        if outcome[0] == 'raise':
            self.forbid(ctx, 'C04.snapshot_ids.no_exception.%s' % outcome[1], tags=T, note=outcome[2])
            return
        r = outcome[1]
        if r.kind != 'seq' or r.meta.get('elem_kind') != 'int':
            self.shape(ctx, 'C04.snapshot_ids.returns_a_list_of_ints', tags=T, note='result kind %s' % r.kind)
            return
        i, j, q = c.i, c.j, c.q
        ctx.oblige('C04.snapshot_ids.ascending_duplicate_free', z3.Implies(z3.And(0 <= i, i < j, j < r.n), r.elem(i).z < r.elem(j).z), tags=T)
        ctx.oblige('C04.snapshot_ids.only_snapshot_ids', z3.Implies(inb(i, r.n), c.pre['SKey'][r.elem(i).z]), tags=T)
        w = z3.Int('w?ids')
        ctx.oblige('C04.snapshot_ids.every_snapshot_id', z3.Implies(c.pre['SKey'][q], z3.Exists([w], z3.And(inb(w, r.n), r.elem(w).z == q))), tags=T)
        self.unchanged(ctx, c)

    def apply(self, interp, g, argv, kwv):
        from pyvc.seqs import sorted_int_set
        return sorted_int_set(interp.ctx, lambda q: g['SKey'][q], lambda q: [g['SKey'][q]], 'snapshot_ids')


class InteractionsPerSnapshots(_Read):
    fname = 'interactions_per_snapshots'

    def variants(self):
        return [{'t': 'int'}, {'t': 'none'}]

    def setup(self, ctx, variant):
        g = self.base(ctx)
        t = fresh('t', Int)
        return Call(g=g, pre=g.snapshot(), t=t, tnone=variant['t'] == 'none', q=fresh('q', Int),
                    argv=[VGraph(g)] + ([] if variant['t'] == 'none' else [VInt(t)]), kwv={})

    def finish(self, ctx, c, outcome):
        T = ('C04',)
        if outcome[0] == 'raise':
            self.forbid(ctx, 'C04.count_per_snapshot.no_exception.%s' % outcome[1], tags=T, note=outcome[2])
            return
        r = outcome[1]
        pre = c.pre
        if not c.tnone:
            if r.kind != 'int':
                self.shape(ctx, 'C04.count_per_snapshot.returns_an_integer', tags=T, note='result kind %s' % r.kind)
                return
            ctx.oblige('C04.count_per_snapshot.value', z3.If(pre['SKey'][c.t], KAPPA * r.z == pre['SCnt'][c.t], r.z == 0), tags=T)
        else:
            if r.kind != 'vmap':
                self.shape(ctx, 'C04.count_per_snapshot.returns_a_dict', tags=T, note='result kind %s' % r.kind)
                return
            q = c.q
            ctx.oblige('C04.count_per_snapshot.dict_keys_are_snapshot_ids', r.dom(q) == pre['SKey'][q], tags=T)
            v = r.get(q)
            if v.kind != 'int':
                self.shape(ctx, 'C04.count_per_snapshot.dict_values_are_integers', tags=T, note='value kind %s' % v.kind)
                return
            ctx.oblige('C04.count_per_snapshot.dict_values', z3.Implies(pre['SKey'][q], KAPPA * v.z == pre['SCnt'][q]), tags=T)
        self.unchanged(ctx, c)


class AvgNumberOfNodes(_Read):
    """avg_number_of_nodes()   requires at least one snapshot
    ensures  result * |dom Cnt| = SUM over the ascending snapshot ids t of number_of_nodes(t)   (sum() trusted; what is proved is that
             the summed sequence has one element per snapshot id, in the order of temporal_snapshots_ids(), and that its i-th element is
             number_of_nodes(<i-th id>) - the callee by its verified contract (C02), opaque N(t) on the caller side); nothing is modified"""
    fname = 'avg_number_of_nodes'

    def uses(self, eng):
        from .neighbours import NumberOfNodes
        from . import stats          # noqa: F401  (installs the caller-side form of number_of_nodes)
        return [TemporalSnapshotsIds(self.cls), NumberOfNodes(self.cls)]

    def reads(self):
        from .neighbours import NumberOfNodes
        return [TemporalSnapshotsIds(self.cls).key, NumberOfNodes(self.cls).key]

    def setup(self, ctx, variant):
        g = self.base(ctx)
        q0 = fresh('q0', Int)
        ctx.assume(g['SKey'][q0])
        return Call(g=g, pre=g.snapshot(), argv=[VGraph(g)], kwv={}, i=fresh('i', Int))

    def finish(self, ctx, c, outcome):
        T = ('C04', 'C17')
        if outcome[0] == 'raise':
            return self.forbid(ctx, 'C04.avg_number_of_nodes.no_exception.%s' % outcome[1], tags=T, note=outcome[2])
        r = outcome[1]
        sums = getattr(ctx, 'seqsums', [])
        card = getattr(ctx, 'card_snap', None)
        if r.kind != 'real' or not sums or card is None:
            return self.shape(ctx, 'C04.avg_number_of_nodes.is_a_sum_divided_by_the_number_of_snapshots', tags=T, note='result kind %s' % r.kind)
        total, seq = sums[-1]
        ids = seq.meta.get('of')
        from .stats import _nn_symbol
        NV, NA = _nn_symbol(ctx, c.g)
        if ids is None or ids.kind != 'seq' or 'member' not in ids.meta:
            return self.shape(ctx, 'C04.avg_number_of_nodes.sums_over_the_snapshot_ids', tags=T)
        q = z3.Int('q?an')
        ok_ids = ids.meta['member'](q).eq(c.pre['SKey'][q])
        ctx.oblige('C04.avg_number_of_nodes.sums_over_the_snapshot_ids', z3.BoolVal(bool(ok_ids)), tags=T)
        ctx.oblige('C04.avg_number_of_nodes.one_term_per_snapshot_id', seq.n == ids.n, tags=T)
        e = seq.elem(c.i)
        ctx.oblige('C04.avg_number_of_nodes.term_is_the_number_of_nodes_at_that_id',
                   z3.Implies(inb(c.i, seq.n), e.z == NV(ids.elem(c.i).z)) if e.kind == 'int' else z3.BoolVal(False), tags=T)
        ctx.oblige('C04.avg_number_of_nodes.value', r.z * z3.ToReal(card) == z3.ToReal(total), tags=T)
        self.unchanged(ctx, c)
