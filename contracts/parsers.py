r"""Contract of the row loop of parse_snapshots (C09 reader, C18 noise skipping), on ABSTRACT lines (pyvc/linemodel.py).

parse_snapshots(lines, comments, directed, delimiter, nodetype, timestamptype, keys=None)       nodetype, timestamptype given
  a line is abstract: cpos (position of the comment marker or -1), cut (text before it), length, strip, nf (number of fields), fld(i);
  P(line) := strip(cut(line) if cpos(line) >= 0 else line) is the text that is split
  ensures  the result is a new graph of the class selected by `directed`
           per line, in order: no call of add_interaction when the text left of the comment marker is empty or P(line) has fewer than 3
           fields; otherwise EXACTLY ONE call  add_interaction(nodetype(f0), nodetype(f1), t=timestamptype(f2), e=timestamptype(f3) or None)
           with f_i the fields of P(line), e given iff there are at least 4 fields; nothing else touches the graph
           a failing conversion raises TypeError (whatever the converter raised)
  What split / strip / find return is NOT modelled (string codec, trusted); the kernel calls are observed, not executed: the state of the
  result is the fold of the kernel contract over these calls (C01), in file order."""
import z3
from pyvc.sym import fresh, fresh_fun, Node, Int, Bool, Obj, IntV
from pyvc.values import *   # noqa
from pyvc.loops import LoopSpec
from pyvc.linemodel import LineWorld, VLine
from .base import Contract, Call
from .ctor import Init

T = ('C09', 'C18')


class ParseSnapshots(Contract):
    props = T
    key = 'edgelist::parse_snapshots'

    def __init__(self, cls, bound_n=None):
        self.cls = cls
        self.directed = cls == 'DynDiGraph'

    def uses(self, eng):
        return [Init('DynGraph'), Init('DynDiGraph')]

    def reads(self):
        return [Init(self.cls).key]

    def setup(self, ctx, variant):
        w = LineWorld()
        n = fresh('n_lines', Int)
        lz = fresh_fun('line', Int, Obj)
        ctx.assume(n >= 0)
        lines = VSeq(n, lambda k: VLine(w, lz(k)), {'elem_kind': 'line'})

        def nodetype(interp, argv, kwv, fr):
            x = argv[0]
            if x.kind != 'opaque' or x.tag != 'field':
                raise Undecided('nodetype applied to something that is not a field')
            if interp.ctx.branch(w.nfail(x.z), 'nodetype-fails'):
                raise PyRaise('Exception', 'conversion of a node field')          # (a converter may raise anything)
            return VNode(w.nodeof(x.z))

        def timestamptype(interp, argv, kwv, fr):
            x = argv[0]
            if x.kind != 'opaque' or x.tag != 'field':
                raise Undecided('timestamptype applied to something that is not a field')
            if interp.ctx.branch(w.tfail(x.z), 'timestamptype-fails'):
                raise PyRaise('Exception', 'conversion of a time field')
            return VInt(w.timeof(x.z))
        c = Call(w=w, n=n, lz=lz, calls=[], graphs_made=[],
                 argv=[lines, VOpaque(fresh('comments', Obj), 'param'), VBool(self.directed), VOpaque(fresh('delimiter', Obj), 'param'),
                       VCallable(nodetype, 'nodetype'), VCallable(timestamptype, 'timestamptype'), VNone], kwv={})
        ctx.ps = c

        def hook(interp, g, name, argv, kwv):
            c.calls.append((g, list(argv), dict(kwv)))
            return VNone
        hook.names = {'add_interaction'}
        ctx.method_hook = hook
        return c

    def processed(self, c, k):
        w = c.w
        raw = c.lz(k)
        cutl = z3.If(w.cpos(raw) >= 0, w.cut(raw), raw)
        return cutl, w.strip(cutl)

    def loop_specs(self):
        def inv(L):
            c = L.ctx.ps
            if L.assuming or not z3.is_int_value(z3.simplify(L.k - 1)) and z3.is_int_value(z3.simplify(L.k)):
                return []                 # (nothing to carry: every iteration is judged on its own at the end of the body)
            if z3.is_int_value(z3.simplify(L.k)):
                return []
            k = z3.simplify(L.k - 1)      # the position just processed
            w = c.w
            cutl, P = self.processed(c, k)
            skip = z3.Or(w.length(cutl) == 0, w.nf(P) < 3)
            calls = c.calls
            out = [('no_kernel_call_for_a_row_that_is_skipped_and_exactly_one_otherwise', z3.BoolVal(len(calls) <= 1) if True else None)]
            if len(calls) == 0:
                out.append(('a_row_is_skipped_only_if_it_is_empty_or_has_fewer_than_three_fields', skip))
            elif len(calls) == 1:
                g, argv, kwv = calls[0]
                args = dict(zip(['u', 'v', 't', 'e'], argv))
                args.update(kwv)
                f = lambda i: w.fld(P, IntV(i))
                u, v, t, e = args.get('u'), args.get('v'), args.get('t'), args.get('e', VNone)
                ok_u = z3.BoolVal(False) if u is None or u.kind != 'node' else u.z == w.nodeof(f(0))
                ok_v = z3.BoolVal(False) if v is None or v.kind != 'node' else v.z == w.nodeof(f(1))
                ok_t = z3.BoolVal(False) if t is None or t.kind != 'int' else t.z == w.timeof(f(2))
                if e is None or e.kind == 'none':
                    ok_e = w.nf(P) == 3
                elif e.kind == 'int':
                    ok_e = z3.And(w.nf(P) >= 4, e.z == w.timeof(f(3)))
                else:
                    ok_e = z3.BoolVal(False)
                out += [('a_row_that_is_read_is_not_one_to_skip', z3.Not(skip)),
                        ('first_field_is_the_source', ok_u), ('second_field_is_the_target', ok_v), ('third_field_is_the_instant', ok_t),
                        ('fourth_field_is_the_vanishing_time_iff_present', ok_e),
                        ('the_call_is_made_on_the_graph_being_built', z3.BoolVal(g.cls == self.cls))]
            return out
        return {'seq/1': LoopSpec(inv, modifies={}, tags=T)}

    def finish(self, ctx, c, outcome):
        if outcome[0] == 'raise':
            if outcome[1] != 'TypeError':
                return self.forbid(ctx, 'C18.parse_snapshots.conversion_failures_raise_TypeError.%s' % outcome[1], tags=T, note=outcome[2])
            return
        r = outcome[1]
        if r.kind != 'graph':
            return self.shape(ctx, 'C09.parse_snapshots.returns_a_graph', tags=T, note='result kind %s' % r.kind)
        ctx.oblige('C09.parse_snapshots.class_selected_by_directed', z3.BoolVal(r.g.cls == self.cls), tags=T)


    def search_real(self, engine):
        """bounded search on the real parser with the graph classes replaced by recorders of the kernel calls"""
        cases = [['1 2 0'], ['1 2 0 3'], ['# c', '', '1 2 0', '1 2'], ['1 2 0 # tail', '   ', '3 4 5 9 extra'], ['1 2 x'], ['a 2 0'], ['1 2 0 z'], ['1 2 3 # c # d', '#'], ['1,2,0']]
        for lines in cases:
            for delim in (None, ','):
                for conv in ('int', 'lookup'):
                    v = run_parse_case(self.cls, lines, delim, conv)
                    if v:
                        return {'violated': v, 'call': 'parse_snapshots(%r, directed=%r, delimiter=%r, nodetype=%s, timestamptype=int) with the graph classes replaced by recorders'
                                % (lines, self.directed, delim, 'int' if conv == 'int' else 'a dict lookup (KeyError on unknown text)'),
                                'replayer': {'module': 'contracts.parsers', 'function': 'run_parse_case', 'args': [self.cls, lines, delim, conv]}}
        return None


def run_parse_case(cls, lines, delim, conv='int'):
    import dynetx as dn
    from dynetx.readwrite import edgelist as E
    calls = []

    def rec(base):
        def make(*a, **k):
            G = base(*a, **k)                      # (the classes cannot be subclassed: their __init__ uses super(self.__class__, self))
            G.add_interaction = lambda u, v, t=None, e=None: calls.append((u, v, t, e))
            return G
        return make
    real = (E.DynGraph, E.DynDiGraph)
    E.DynGraph, E.DynDiGraph = rec(dn.DynGraph), rec(dn.DynDiGraph)
    directed = cls == 'DynDiGraph'
    try:
        try:
            table = dict((str(i), i) for i in range(10))
            nodeconv = int if conv == 'int' else table.__getitem__          # (the lookup raises KeyError, not ValueError)
            G = E.parse_snapshots(list(lines), directed=directed, delimiter=delim, nodetype=nodeconv, timestamptype=int)
            outcome = 'return'
        except Exception as ex:
            G, outcome = None, type(ex).__name__
    finally:
        E.DynGraph, E.DynDiGraph = real
    exp, exp_outcome = [], 'return'
    for line in lines:
        p = line.find('#')
        if p >= 0:
            line = line[:p]
        if not len(line):
            continue
        f = line.strip().split(delim)
        if len(f) < 3:
            continue
        try:
            row = (int(f[0]), int(f[1]), int(f[2]), int(f[3]) if len(f) > 3 else None)
        except Exception:
            exp_outcome = 'TypeError'
            break
        exp.append(row)
    out = {}
    if outcome != exp_outcome:
        out['C18.parse_snapshots.conversion_failures_raise_TypeError.%s' % outcome] = 'outcome %s, expected %s' % (outcome, exp_outcome)
    elif calls != exp:
        out['loop.step.kernel_calls'] = 'kernel calls %r, rows say %r' % (calls, exp)
    elif G is not None and G.__class__.__name__ != cls:
        out['C09.parse_snapshots.class_selected_by_directed'] = G.__class__.__name__
    return out


# ---- node_link_graph (C11 reader): the two record loops, on abstract JSON records (pyvc/linemodel.py) ------------------------------
#
# node_link_graph(data, directed, attrs)    data = {'directed': D, 'graph': A, 'nodes': [node records], 'links': [link records]}
#   requires every node record to carry its id under attrs['id'];  link records carry source, target, time
#   ensures  the result is a DynDiGraph iff D (the flag recorded in the data), else a DynGraph; its graph attributes are A
#            per node record, in order: EXACTLY ONE call add_node(<its id>, **<its other attributes>)   (isolated and bare nodes included)
#            per link record, in order: EXACTLY ONE call add_interaction(<source>, <target>, <time>), no vanishing time
#            nothing else touches the graph: its state is the fold of these calls (kernel contract, C01), in list order
#   The calls are observed, not executed; `graph.to_directed()` of the still empty graph is taken as an empty DynDiGraph (its verified contract).

from pyvc.linemodel import RecWorld, VRecord          # noqa: E402

T11 = ('C11',)


class NodeLinkGraph(Contract):
    props = T11
    key = 'node_link::node_link_graph'

    def __init__(self, flag, bound_n=None):
        self.flag = flag                    # 'directed' / 'undirected': the flag recorded in the data

    def uses(self, eng):
        return [Init('DynGraph'), Init('DynDiGraph')]

    def reads(self):
        return [Init('DynGraph').key, Init('DynDiGraph').key]

    def setup(self, ctx, variant):
        w = RecWorld()
        ctx.recworld = w
        nn, nl = fresh('n_nodes', Int), fresh('n_links', Int)
        nz, lz = fresh_fun('node_rec', Int, Obj), fresh_fun('link_rec', Int, Obj)
        ctx.assume(z3.And(nn >= 0, nl >= 0))
        gattr = VOpaque(fresh('graph_attrs', Obj), 'param')
        data = VDictLit([(VStr('directed'), VBool(self.flag == 'directed')), (VStr('graph'), gattr),
                         (VStr('nodes'), VSeq(nn, lambda k: VRecord(w, nz(k), 'node'), {'elem_kind': 'record'})),
                         (VStr('links'), VSeq(nl, lambda k: VRecord(w, lz(k), 'link'), {'elem_kind': 'record'}))])
        attrs = VDictLit([(VStr('id'), VStr('id')), (VStr('source'), VStr('source')), (VStr('target'), VStr('target'))])
        c = Call(w=w, nz=nz, lz=lz, gattr=gattr, calls=[], converted=[], argv=[data, VBool(fresh('directed_arg', Bool)), attrs], kwv={})
        ctx.nlg = c
        eng = ctx.engine

        def hook(interp, g, name, argv, kwv):
            if name == 'to_directed':
                if argv or kwv:
                    raise Undecided('to_directed with arguments')
                c.converted.append(g)
                if c.calls:
                    raise Undecided('to_directed after the graph was written')
                return eng.construct(interp, 'DynDiGraph', [], {})
            c.calls.append((name, g, list(argv), dict(kwv)))
            return VNone
        hook.names = {'add_interaction', 'add_node', 'to_directed'}
        ctx.method_hook = hook
        return c

    def loop_specs(self):
        def judge(L, which):
            c = L.ctx.nlg
            if L.assuming or z3.is_int_value(z3.simplify(L.k)):
                return []
            k = z3.simplify(L.k - 1)
            w = c.w
            calls = c.calls
            if len(calls) != 1:
                return [('exactly_one_call_per_%s_record' % which, z3.BoolVal(False))]
            name, g, argv, kwv = calls[0]
            if which == 'node':
                rec = c.nz(k)
                ok_name = name == 'add_node'
                ok_id = z3.BoolVal(False) if not (argv and argv[0].kind == 'node') else argv[0].z == w.nid(rec)
                rest = kwv.get('**')
                ok_attrs = z3.BoolVal(False) if rest is None or rest.kind != 'opaque' else rest.z == w.attrs(rec)
                return [('exactly_one_call_per_node_record', z3.BoolVal(True)), ('the_call_is_add_node', z3.BoolVal(ok_name)),
                        ('the_node_is_the_id_of_the_record', ok_id), ('the_attributes_are_the_other_fields_of_the_record', ok_attrs)]
            rec = c.lz(k)
            args = dict(zip(['u', 'v', 't', 'e'], argv))
            args.update(kwv)
            u, v, t, e = args.get('u'), args.get('v'), args.get('t'), args.get('e', VNone)
            return [('exactly_one_call_per_link_record', z3.BoolVal(True)), ('the_call_is_add_interaction', z3.BoolVal(name == 'add_interaction')),
                    ('source_of_the_record', z3.BoolVal(False) if u is None or u.kind != 'node' else u.z == w.src(rec)),
                    ('target_of_the_record', z3.BoolVal(False) if v is None or v.kind != 'node' else v.z == w.tgt(rec)),
                    ('time_of_the_record', z3.BoolVal(False) if t is None or t.kind != 'int' else t.z == w.tm(rec)),
                    ('no_vanishing_time', z3.BoolVal(e is None or e.kind == 'none'))]
        return {0: LoopSpec(lambda L: judge(L, 'node'), modifies={}, tags=T11), 1: LoopSpec(lambda L: judge(L, 'link'), modifies={}, tags=T11)}

    def finish(self, ctx, c, outcome):
        if outcome[0] == 'raise':
            return self.forbid(ctx, 'C11.rebuild.no_exception.%s' % outcome[1], tags=T11, note=outcome[2])
        r = outcome[1]
        if r.kind != 'graph':
            return self.shape(ctx, 'C11.rebuild.returns_a_graph', tags=T11, note='result kind %s' % r.kind)
        want = 'DynDiGraph' if self.flag == 'directed' else 'DynGraph'
        ctx.oblige('C11.rebuild.class_follows_the_flag_recorded_in_the_data', z3.BoolVal(r.g.cls == want), tags=T11)
        ctx.oblige('C11.rebuild.graph_attributes_are_those_of_the_data', r.g['GAttr'] == c.gattr.z, tags=T11)
        ctx.oblige('C11.rebuild.no_call_outside_the_two_loops', z3.BoolVal(len(c.calls) == 0), tags=T11)

    def search_real(self, engine):
        cases = [([{'id': 1}, {'id': 2}], [{'source': 1, 'target': 2, 'time': 0}]),
                 ([{'id': 1}, {'id': 2, 'c': 'x'}, {'id': 7}], [{'source': 2, 'target': 1, 'time': 3}, {'source': 2, 'target': 1, 'time': 4}]),
                 ([{'id': 'a', 'w': 1}], []), ([], [])]
        for nodes, links in cases:
            v = run_nlg_case(self.flag, nodes, links)
            if v:
                return {'violated': v, 'call': 'node_link_graph({directed: %r, nodes: %r, links: %r}) with the graph methods replaced by recorders' % (self.flag == 'directed', nodes, links),
                        'replayer': {'module': 'contracts.parsers', 'function': 'run_nlg_case', 'args': [self.flag, nodes, links]}}
        return None


def run_nlg_case(flag, nodes, links):
    import dynetx as dn
    from dynetx.readwrite.json_graph import node_link as NL
    calls = []

    def patched(G):
        G.add_node = lambda n, **a: calls.append(('add_node', n, a))
        G.add_interaction = lambda u, v, t=None, e=None: calls.append(('add_interaction', u, v, t, e))
        G.to_directed = lambda: patched(dn.DynDiGraph())
        return G
    real = NL.dn.DynGraph
    NL.dn.DynGraph = lambda *a, **k: patched(real(*a, **k))
    try:
        try:
            H = NL.node_link_graph({'directed': flag == 'directed', 'graph': {'name': 'g'}, 'nodes': [dict(n) for n in nodes], 'links': [dict(l) for l in links]})
        except Exception as ex:
            return {'C11.rebuild.no_exception.%s' % type(ex).__name__: repr(ex)}
    finally:
        NL.dn.DynGraph = real
    exp = [('add_node', n['id'], {k: v for k, v in n.items() if k != 'id'}) for n in nodes] + \
          [('add_interaction', l['source'], l['target'], l['time'], None) for l in links]
    out = {}
    if calls != exp:
        out['loop.step.exactly_one_call_per_record'] = 'calls %r, the records ask for %r' % (calls, exp)
    if H.__class__.__name__ != ('DynDiGraph' if flag == 'directed' else 'DynGraph'):
        out['C11.rebuild.class_follows_the_flag_recorded_in_the_data'] = H.__class__.__name__
    if dict(H.graph) != {'name': 'g'}:
        out['C11.rebuild.graph_attributes_are_those_of_the_data'] = repr(H.graph)
    return out


# ---- parse_interactions (C10 reader): the row loop on abstract lines ---------------------------------------------------------------
#
# per line, in order (P(line) as above):  skipped unless the text left of the comment marker is non-empty and P(line) has exactly 4 fields
#   '+' row:  EXACTLY ONE call add_interaction(nodetype(f0), nodetype(f1), t=timestamptype(f3)), no vanishing time
#   other  :  with [a, b] the LATEST run of the pair in the graph built so far:  if b < s := timestamptype(f3) EXACTLY ONE call
#             add_interaction(u, v, t=a, e=s) ("the pair stays present from its latest appearance through s - 1"), otherwise no call
#             (a KeyError for a pair that was never added is neither required nor forbidden by the contract)
# The graph built so far is an arbitrary graph satisfying the representation invariant (the calls are observed, not executed; the loop
# invariant is just Inv(G), which the kernel contract preserves).

from .base import install_caller_hooks          # noqa: E402
from pyvc import spec as _spec          # noqa: E402
from pyvc import linemodel as _lm          # noqa: E402


class ParseInteractions(Contract):
    props = ('C10', 'C18')
    key = 'edgelist::parse_interactions'

    def __init__(self, cls, bound_n=None):
        self.cls = cls
        self.directed = cls == 'DynDiGraph'

    def uses(self, eng):
        return [Init('DynGraph'), Init('DynDiGraph')]

    def reads(self):
        return [Init(self.cls).key]

    def setup(self, ctx, variant):
        w = LineWorld()
        _lm.CURRENT_WORLD = w
        n = fresh('n_lines', Int)
        lz = fresh_fun('line', Int, Obj)
        ctx.assume(n >= 0)
        lines = VSeq(n, lambda k: VLine(w, lz(k)), {'elem_kind': 'line'})
        install_caller_hooks(ctx, cats=('shape', 'canon'))
        ctx.focus = []

        def nodetype(interp, argv, kwv, fr):
            x = argv[0]
            if x.kind != 'opaque' or x.tag != 'field':
                raise Undecided('nodetype applied to something that is not a field')
            if interp.ctx.branch(w.nfail(x.z), 'nodetype-fails'):
                raise PyRaise('Exception', 'conversion of a node field')
            nd = w.nodeof(x.z)
            interp.ctx.add_focus([nd])
            return VNode(nd)

        def timestamptype(interp, argv, kwv, fr):
            x = argv[0]
            if x.kind != 'opaque' or x.tag != 'field':
                raise Undecided('timestamptype applied to something that is not a field')
            if interp.ctx.branch(w.tfail(x.z), 'timestamptype-fails'):
                raise PyRaise('Exception', 'conversion of a time field')
            return VInt(w.timeof(x.z))
        c = Call(w=w, n=n, lz=lz, calls=[],
                 argv=[lines, VOpaque(fresh('comments', Obj), 'param'), VBool(self.directed), VOpaque(fresh('delimiter', Obj), 'param'),
                       VCallable(nodetype, 'nodetype'), VCallable(timestamptype, 'timestamptype'), VNone], kwv={})
        ctx.pi = c

        def hook(interp, g, name, argv, kwv):
            c.calls.append((g, list(argv), dict(kwv)))
            return VNone
        hook.names = {'add_interaction'}
        ctx.method_hook = hook
        return c

    def loop_specs(self):
        def inv(L):
            c = L.ctx.pi
            if L.assuming or z3.is_int_value(z3.simplify(L.k)):
                return []
            k = z3.simplify(L.k - 1)
            w = c.w
            raw = c.lz(k)
            cutl = z3.If(w.cpos(raw) >= 0, w.cut(raw), raw)
            P = w.strip(cutl)
            skip = z3.Or(w.length(cutl) == 0, w.nf(P) != 4)
            f = lambda i: w.fld(P, IntV(i))
            u, v, s_ = w.nodeof(f(0)), w.nodeof(f(1)), w.timeof(f(3))
            plus = w.is_text(f(2), '+')
            g = L.ctx.graphs.get('H')
            calls = c.calls
            out = [('at_most_one_kernel_call_per_row', z3.BoolVal(len(calls) <= 1))]
            if g is None:
                return out + [('a_graph_is_being_built', z3.BoolVal(False))]
            r = g.cell(u, v)
            Lr = g['Len'][r]
            closes = z3.And(r != 0, Lr > 0, g['E'][r][Lr - 1] < s_)
            if len(calls) == 0:
                out.append(('no_call_only_for_a_skipped_row_or_a_vanishing_that_changes_nothing', z3.Or(skip, z3.And(z3.Not(plus), z3.Not(closes)))))
            elif len(calls) == 1:
                g2, argv, kwv = calls[0]
                args = dict(zip(['u', 'v', 't', 'e'], argv))
                args.update(kwv)
                a_u, a_v, a_t, a_e = args.get('u'), args.get('v'), args.get('t'), args.get('e', VNone)
                ok_uv = z3.BoolVal(False) if not (a_u is not None and a_v is not None and a_u.kind == 'node' and a_v.kind == 'node') else z3.And(a_u.z == u, a_v.z == v)
                if a_e is None or a_e.kind == 'none':
                    shape = z3.And(plus, z3.BoolVal(False) if a_t is None or a_t.kind != 'int' else a_t.z == s_)
                elif a_e.kind == 'int' and a_t is not None and a_t.kind == 'int':
                    shape = z3.And(z3.Not(plus), closes, a_t.z == g['S'][r][Lr - 1], a_e.z == s_)
                else:
                    shape = z3.BoolVal(False)
                out += [('a_row_that_is_read_is_not_one_to_skip', z3.Not(skip)), ('endpoints_are_the_first_two_fields', ok_uv),
                        ('appearance_at_t_or_vanishing_of_the_latest_run_at_t', shape)]
            return out
        comps = None

        def modifies():
            from pyvc.values import HGraph
            return {'H': HGraph('H', self.directed, self.cls).comp_names()}
        return {'seq/1': LoopSpec(inv, modifies=modifies(), tags=('C10', 'C18'))}

    def finish(self, ctx, c, outcome):
        T_ = ('C10', 'C18')
        if outcome[0] == 'raise':
            if outcome[1] not in ('TypeError', 'KeyError'):
                return self.forbid(ctx, 'C18.parse_interactions.conversion_failures_raise_TypeError.%s' % outcome[1], tags=T_, note=outcome[2])
            return
        r = outcome[1]
        if r.kind != 'graph':
            return self.shape(ctx, 'C10.parse_interactions.returns_a_graph', tags=T_, note='result kind %s' % r.kind)
        ctx.oblige('C10.parse_interactions.class_selected_by_directed', z3.BoolVal(r.g.cls == self.cls), tags=T_)

    def search_real(self, engine):
        cases = [['1 2 + 0', '1 2 - 3'], ['1 2 + 0', '2 1 + 4', '1 2 - 8'], ['1 2 + 0', '1 2 + 1', '1 2 - 2', '1 2 + 5', '1 2 - 9'],
                 ['# c', '1 2 + 0 # t', '1 2 +', '1 2 + 0 1', '1 2 - 0'], ['1 2 + x'], ['a 2 + 0'], ['1 2 + 3', '3 1 + 3', '1 2 - 4', '3 1 - 6']]
        for lines in cases:
            v = run_parse_interactions_case(self.cls, lines)
            if v:
                return {'violated': v, 'call': 'parse_interactions(%r, directed=%r, nodetype=int, timestamptype=int) with add_interaction recorded' % (lines, self.directed),
                        'replayer': {'module': 'contracts.parsers', 'function': 'run_parse_interactions_case', 'args': [self.cls, lines]}}
        return None


def run_parse_interactions_case(cls, lines):
    import dynetx as dn
    from dynetx.readwrite import edgelist as E
    calls = []

    def rec(base):
        def make(*a, **k):
            G = base(*a, **k)
            real_add = G.add_interaction

            def add(u, v, t=None, e=None):
                calls.append((u, v, t if not isinstance(t, list) else ('LIST', tuple(t)), e))
                return real_add(u, v, t, e)
            G.add_interaction = add
            return G
        return make
    real = (E.DynGraph, E.DynDiGraph)
    E.DynGraph, E.DynDiGraph = rec(dn.DynGraph), rec(dn.DynDiGraph)
    directed = cls == 'DynDiGraph'
    try:
        try:
            E.parse_interactions(list(lines), directed=directed, nodetype=int, timestamptype=int)
            outcome = 'return'
        except Exception as ex:
            outcome = type(ex).__name__
    finally:
        E.DynGraph, E.DynDiGraph = real
    ref = getattr(dn, cls)()
    exp, exp_outcome = [], 'return'
    for line in lines:
        p = line.find('#')
        if p >= 0:
            line = line[:p]
        if not len(line):
            continue
        f = line.strip().split(None)
        if len(f) != 4:
            continue
        try:
            u, v, s = int(f[0]), int(f[1]), int(f[3])
        except Exception:
            exp_outcome = 'TypeError'
            break
        if f[2] == '+':
            exp.append((u, v, s, None))
            ref.add_interaction(u, v, s)
        else:
            try:
                tl = ref.adj[u][v]['t']
            except KeyError:
                exp_outcome = 'KeyError'
                break
            if len(tl) > 0 and tl[-1][1] < s:
                exp.append((u, v, tl[-1][0], s))
                ref.add_interaction(u, v, tl[-1][0], s)
    out = {}
    if outcome != exp_outcome:
        out['C18.parse_interactions.conversion_failures_raise_TypeError.%s' % outcome] = 'outcome %s, expected %s' % (outcome, exp_outcome)
    elif calls != exp:
        out['loop.step.appearance_at_t_or_vanishing_of_the_latest_run_at_t'] = 'kernel calls %r, the rows ask for %r' % (calls, exp)
    return out


# ---- write_snapshots / write_interactions (C09 / C10 writers' file layer) -----------------------------------------------------------
#
# write_X(G, path, delimiter, encoding)     (@open_file: `path` is the opened file object - trusted)
#   ensures  generate_X is called once, with the caller's own G and delimiter;
#            for every line it yields, in order, EXACTLY ONE  path.write((line + "\n").encode(encoding))  with the caller's own encoding;
#            nothing else is written.   (generate_X by its verified contract: contracts/writers.py; text + "\n" and .encode are opaque)

class _GenerateLinesCallSite(Contract):
    """caller side of generate_snapshots / generate_interactions inside the file writers: site obligations, an abstract sequence of lines"""

    def __init__(self, key):
        self.key = key

    def apply(self, interp, g, argv, kwv):
        ctx = interp.ctx
        c = ctx.fw_
        env = interp.bind_args(interp.engine.fn(self.key).fdef, argv, kwv)
        T_ = c.tags
        G, d = env.get('G'), env.get('delimiter')
        ctx.oblige('%s.writer.generates_the_rows_of_its_own_graph' % T_[0], z3.BoolVal(G is not None and G.kind == 'graph' and G.g is c.g), tags=T_, kind='call-site')
        ctx.oblige('%s.writer.passes_its_own_delimiter' % T_[0], z3.BoolVal(d is not None and d.kind == 'opaque' and d.z.eq(c.delim.z)), tags=T_, kind='call-site')
        c.generated += 1
        return VSeq(c.n, lambda k: VOpaque(c.line(k), 'text'), {'elem_kind': 'text'})


class FileWriter(Contract):
    def __init__(self, cls, fname, bound_n=None):
        self.cls, self.fname = cls, fname
        self.directed = cls == 'DynDiGraph'
        self.key = 'edgelist::%s' % fname
        self.gen = 'edgelist::generate_%s' % fname.split('_', 1)[1]
        self.props = ('C09',) if 'snapshots' in fname else ('C10',)

    def uses(self, eng):
        return [_GenerateLinesCallSite(self.gen)]

    def setup(self, ctx, variant):
        g = HGraph('G', self.directed, self.cls).havoc('0')
        g['ER'] = z3.BoolVal(True)
        ctx.graphs['G'] = g
        enc = fresh_fun('encode', Obj, Obj, Obj)
        addnl = fresh_fun('add_newline', Obj, Obj)
        ctx.textworld = {'enc': enc, 'addnl': addnl}
        n = fresh('n_rows', Int)
        line = fresh_fun('row', Int, Obj)
        ctx.assume(n >= 0)
        delim, encoding = VOpaque(fresh('delimiter', Obj), 'param'), VOpaque(fresh('encoding', Obj), 'param')
        c = Call(g=g, pre=g.snapshot(), n=n, line=line, delim=delim, encoding=encoding, enc=enc, addnl=addnl, writes=[], generated=0, tags=self.props,
                 argv=[VGraph(g), VOpaque(fresh('file', Obj), 'file'), delim, encoding], kwv={})
        ctx.fw_ = c

        def on_write(interp, f, argv, kwv):
            c.writes.append(list(argv))
            return VNone
        ctx.file_write_hook = on_write
        return c

    def loop_specs(self):
        def inv(L):
            c = L.ctx.fw_
            T_ = c.tags
            if L.assuming or z3.is_int_value(z3.simplify(L.k)):
                return []
            k = z3.simplify(L.k - 1)
            if len(c.writes) != 1 or len(c.writes[0]) != 1:
                return [('exactly_one_write_per_row', z3.BoolVal(False))]
            x = c.writes[0][0]
            ok = z3.BoolVal(False) if not (x.kind == 'opaque' and x.tag == 'bytes') else x.z == c.enc(c.addnl(c.line(k)), c.encoding.z)
            return [('exactly_one_write_per_row', z3.BoolVal(True)), ('the_row_plus_newline_in_the_callers_encoding', ok)]
        return {'seq/1': LoopSpec(inv, modifies={}, tags=self.props)}

    def finish(self, ctx, c, outcome):
        T_ = c.tags
        if outcome[0] == 'raise':
            return self.forbid(ctx, '%s.writer.no_exception.%s' % (T_[0], outcome[1]), tags=T_, note=outcome[2])
        ctx.oblige('%s.writer.asks_the_row_generator_once' % T_[0], z3.BoolVal(c.generated == 1), tags=T_)
        ctx.oblige('%s.writer.writes_nothing_outside_the_row_loop' % T_[0], z3.BoolVal(len(c.writes) == 0), tags=T_)
        from pyvc import spec as sp
        for comp, f in sp.state_unchanged(c.g, c.pre).items():
            ctx.oblige('%s.writer.modifies_nothing.%s' % (T_[0], comp), f, tags=T_)

    def search_real(self, engine):
        for enc in ('utf-8', 'latin-1', 'utf-16-le'):
            for delim in (' ', ';'):
                v = run_writer_case(self.cls, self.fname, delim, enc)
                if v:
                    return {'violated': v, 'call': '%s(G, <BytesIO>, delimiter=%r, encoding=%r) on a %s with a non-ASCII node id' % (self.fname, delim, enc, self.cls),
                            'replayer': {'module': 'contracts.parsers', 'function': 'run_writer_case', 'args': [self.cls, self.fname, delim, enc]}}
        return None


def run_writer_case(cls, fname, delim, enc):
    """the real writer into a BytesIO: the bytes must be the generator's rows, each followed by a newline, in the given encoding"""
    import io
    import dynetx as dn
    from dynetx.readwrite import edgelist as E
    G = getattr(dn, cls)()
    G.add_interaction(u'\xe9', 'b', 0, 3)
    G.add_interaction('b', 'c', 2)
    gen = getattr(E, 'generate_' + fname.split('_', 1)[1])
    exp = b''.join((row + '\n').encode(enc) for row in gen(G, delim))
    buf = io.BytesIO()
    try:
        getattr(E, fname)(G, buf, delimiter=delim, encoding=enc)
    except Exception as ex:
        return {'%s.writer.no_exception.%s' % ('C09' if 'snapshots' in fname else 'C10', type(ex).__name__): repr(ex)}
    if buf.getvalue() != exp:
        return {'loop.step.the_row_plus_newline_in_the_callers_encoding': 'wrote %r, expected %r' % (buf.getvalue()[:80], exp[:80])}
    return {}


# ---- read_snapshots / read_interactions (C09 / C10 readers' file layer) --------------------------------------------------------------
#
# read_X(path, comments, directed, delimiter, nodetype, timestamptype, encoding, keys)      (@open_file: `path` is the opened file - trusted)
#   ensures  parse_X is called exactly once with: lines = the raw lines of the file, each decoded with the caller's own encoding, in order;
#            comments, directed, delimiter, nodetype, timestamptype = the caller's own;
#            keys = None when keys is false, else the result of read_ids(path.name, delimiter, timestamptype, comments, encoding[, interactions=True])
#            called with the caller's own arguments;   the value returned is the result of parse_X

class _ReaderCallSites(Contract):
    def __init__(self, key):
        self.key = key

    def apply(self, interp, g, argv, kwv):
        ctx = interp.ctx
        c = ctx.rd
        T_ = c.tags
        env = interp.bind_args(interp.engine.fn(self.key).fdef, argv, kwv)
        P = T_[0]
        if self.key.endswith('read_ids'):
            c.ids_calls += 1
            nm = env.get('path')
            ctx.oblige('%s.reader.read_ids_gets_the_name_of_the_file' % P, z3.BoolVal(nm is not None and nm.kind == 'opaque' and nm.tag == 'filename'), tags=T_, kind='call-site')
            for p in ('delimiter', 'timestamptype', 'comments', 'encoding'):
                got = env.get(p)
                ctx.oblige('%s.reader.read_ids_gets_its_own.%s' % (P, p), z3.BoolVal(got is not None and got.kind == 'opaque' and got.z.eq(c.params[p].z)), tags=T_, kind='call-site')
            if 'interactions' in [a.arg for a in interp.engine.fn(self.key).fdef.args.args]:
                it = env.get('interactions')
                want = c.fname == 'read_interactions'
                ctx.oblige('%s.reader.read_ids_is_told_the_row_format' % P, z3.BoolVal(it is not None and it.kind == 'bool' and (z3.is_true(it.z) if want else z3.is_false(it.z))), tags=T_, kind='call-site')
            c.ids_token = VOpaque(fresh('ids', Obj), 'ids')
            return c.ids_token
        c.parse_calls += 1
        for p in ('comments', 'directed', 'delimiter', 'nodetype', 'timestamptype'):
            got = env.get(p)
            ctx.oblige('%s.reader.parser_gets_its_own.%s' % (P, p), z3.BoolVal(got is not None and got.kind == 'opaque' and got.z.eq(c.params[p].z)), tags=T_, kind='call-site')
        ks = env.get('keys')
        if c.keys_on:
            ok = ks is not None and ks.kind == 'opaque' and c.ids_token is not None and ks.z.eq(c.ids_token.z)
        else:
            ok = ks is not None and ks.kind == 'none'
        ctx.oblige('%s.reader.parser_gets_the_ranks_iff_keys' % P, z3.BoolVal(bool(ok)), tags=T_, kind='call-site')
        ln = env.get('lines')
        if ln is None or ln.kind != 'seq':
            self.shape(ctx, '%s.reader.parser_gets_the_decoded_lines' % P, tags=T_, note='lines kind %s' % (ln.kind if ln is not None else None))
        else:
            k = c.k
            e = ln.elem(k)
            ctx.oblige('%s.reader.parser_gets_every_line_of_the_file' % P, ln.n == c.fw['n'], tags=T_, kind='call-site')
            ctx.oblige('%s.reader.lines_are_decoded_with_the_callers_encoding' % P,
                       z3.BoolVal(False) if not (e.kind == 'opaque' and e.tag == 'decoded') else e.z == c.fw['dec'](c.fw['raw'](k), c.params['encoding'].z), tags=T_, kind='call-site')
        c.parse_token = VOpaque(fresh('parsed_graph', Obj), 'result')
        return c.parse_token


class FileReader(Contract):
    def __init__(self, fname, keys, bound_n=None):
        self.fname, self.keys_on = fname, keys == 'keys'
        self.key = 'edgelist::%s' % fname
        self.parse = 'edgelist::parse_%s' % fname.split('_', 1)[1]
        self.props = ('C09', 'C18') if 'snapshots' in fname else ('C10', 'C18')

    def uses(self, eng):
        return [_ReaderCallSites(self.parse), _ReaderCallSites('edgelist::read_ids')]

    def setup(self, ctx, variant):
        fw = {'n': fresh('n_lines', Int), 'raw': fresh_fun('raw_line', Int, Obj), 'dec': fresh_fun('decode', Obj, Obj, Obj), 'name': fresh('file_name', Obj)}
        ctx.assume(fw['n'] >= 0)
        ctx.fileworld = fw
        names = ('comments', 'directed', 'delimiter', 'nodetype', 'timestamptype', 'encoding')
        params = {n_: VOpaque(fresh(n_, Obj), 'param') for n_ in names}
        c = Call(fw=fw, params=params, keys_on=self.keys_on, fname=self.fname, tags=self.props, parse_calls=0, ids_calls=0, ids_token=None, parse_token=None,
                 k=fresh('k', Int), argv=[VOpaque(fresh('file', Obj), 'file')] + [params[n_] for n_ in names] + [VBool(self.keys_on)], kwv={})
        ctx.rd = c
        return c

    def finish(self, ctx, c, outcome):
        T_ = c.tags
        P = T_[0]
        if outcome[0] == 'raise':
            return self.forbid(ctx, '%s.reader.no_exception_of_its_own.%s' % (P, outcome[1]), tags=T_, note=outcome[2])
        r = outcome[1]
        ctx.oblige('%s.reader.exactly_one_parser_call' % P, z3.BoolVal(c.parse_calls == 1), tags=T_)
        ctx.oblige('%s.reader.read_ids_iff_keys' % P, z3.BoolVal(c.ids_calls == (1 if c.keys_on else 0)), tags=T_)
        ctx.oblige('%s.reader.returns_the_parsed_graph' % P, z3.BoolVal(c.parse_token is not None and r.kind == 'opaque' and r.z.eq(c.parse_token.z)), tags=T_)
