r"""Contract of the PREFIX of temporal_dag (C15; the window logic C12 / C13 / C20 inherit through it).

temporal_dag(G, u, v=None, start=None, end=None) up to the head of its main loop `for tid in ids` (pyvc.loops.PrefixCut: the loop
that builds the DAG out of string-encoded node occurrences and everything after it is NOT under contract - bounded stand-in).

  let ids0 = G.temporal_snapshots_ids()  (callee contract: ascending, duplicate free, = dom Cnt),  lo / hi = least / greatest id,
      s' = start if given else lo,  e' = end if given else hi
  ensures  no snapshot at all          =>  returns (empty DiGraph, [], [], int, int)      and only then
           ValueError                  <=> not (lo <= s' <= e' <= hi)                      (and no other exception)
           at the loop head               ids = the snapshot ids q with s' <= q <= e', ascending, each once
                                           (the window is taken BY VALUE: ids between start and end, not list positions)
           G is not modified
  lo, hi: the minimum and maximum of the finite, non-empty key set of G.snapshots (definition; finiteness trusted)."""
import z3
from pyvc.sym import fresh, Node, Int, Bool, IntV, inb
from pyvc.values import *   # noqa
from pyvc import spec
from pyvc.loops import PrefixCut
from .base import Contract, Call
from .readside import TemporalSnapshotsIds

T = ('C15', 'C12', 'C13')


class TemporalDagWindow(Contract):
    props = T
    key = 'paths::temporal_dag'

    def __init__(self, cls, bound_n=None):
        self.cls = cls
        self.directed = cls == 'DynDiGraph'
        self.ids = TemporalSnapshotsIds(cls)

    def variants(self):
        return [{'start': s, 'end': e} for s in ('none', 'int') for e in ('none', 'int')]

    def uses(self, eng):
        return [self.ids]

    def reads(self):
        return [self.ids.key]

    def setup(self, ctx, variant):
        g = HGraph('G', self.directed, self.cls).havoc('0')
        g['ER'] = fresh('er', Bool)
        ctx.graphs['G'] = g
        u = fresh('u', Node)
        start = fresh('start', Int) if variant['start'] == 'int' else None
        end = fresh('end', Int) if variant['end'] == 'int' else None
        lo, hi = fresh('lo', Int), fresh('hi', Int)
        q = z3.Int('q?mm')
        SK = g['SKey']
        # definition of lo / hi (vacuous when there is no snapshot)
        ctx.assume(z3.ForAll([q], z3.Implies(SK[q], z3.And(SK[lo], SK[hi], lo <= q, q <= hi)), patterns=[SK[q]]))
        s1 = start if start is not None else lo
        e1 = end if end is not None else hi
        c = Call(g=g, pre=g.snapshot(), u=u, start=start, end=end, lo=lo, hi=hi, s1=s1, e1=e1,
                 k=fresh('k', Int), k2=fresh('k2', Int), q=fresh('q', Int), q0=fresh('q0', Int),
                 argv=[VGraph(g), VNode(u), VNone, VInt(start) if start is not None else VNone, VInt(end) if end is not None else VNone], kwv={})
        ctx.dagc = c
        return c

    def loop_specs(self):
        def at_loop_head(interp, fr, it):
            ctx = interp.ctx
            c = ctx.dagc
            SK = c.pre['SKey']
            if it.kind != 'seq' or it.meta.get('elem_kind') != 'int':
                return self.shape(ctx, 'C15.window.loop_runs_over_a_list_of_snapshot_ids', tags=T, note='iterable kind %s' % it.kind)
            at = lambda k: it.elem(k).z
            ctx.oblige('C15.window.no_error_only_for_a_proper_window', z3.And(c.lo <= c.s1, c.s1 <= c.e1, c.e1 <= c.hi, SK[c.lo]), tags=T)
            ctx.oblige('C15.window.ids_are_snapshot_ids_inside_the_window',
                       z3.Implies(inb(c.k, it.n), z3.And(SK[at(c.k)], c.s1 <= at(c.k), at(c.k) <= c.e1)), tags=T)
            w = z3.Int('w?dw')
            ctx.oblige('C15.window.every_snapshot_id_inside_the_window_is_visited',
                       z3.Implies(z3.And(SK[c.q], c.s1 <= c.q, c.q <= c.e1), z3.Exists([w], z3.And(inb(w, it.n), at(w) == c.q))), tags=T)
            ctx.oblige('C15.window.ids_ascending_each_once', z3.Implies(z3.And(0 <= c.k, c.k < c.k2, c.k2 < it.n), at(c.k) < at(c.k2)), tags=T)
            for comp, f in spec.state_unchanged(c.g, c.pre).items():
                ctx.oblige('C15.window.modifies_nothing.%s' % comp, f, tags=T)
        return {'seq/1': PrefixCut(at_loop_head, note='main loop of temporal_dag: not under contract')}

    def finish(self, ctx, c, outcome):
        SK = c.pre['SKey']
        if outcome[0] == 'raise':
            if outcome[1] != 'ValueError':
                return self.forbid(ctx, 'C15.window.no_exception.%s' % outcome[1], tags=T, note=outcome[2])
            ctx.oblige('C15.window.ValueError_only_for_an_improper_window',
                       z3.And(SK[c.lo], z3.Or(c.s1 < c.lo, c.s1 > c.e1, c.e1 > c.hi)), tags=T)
            return
        # a return before the main loop: the graph has no snapshot
        r = outcome[1]
        ctx.oblige('C15.empty.returns_before_the_loop_only_without_snapshots', z3.Not(SK[c.q0]), tags=T)
        ok = (r.kind == 'tuple' and len(r.items) == 5 and r.items[0].kind == 'opaque' and r.items[0].tag == 'nxdigraph'
              and all(x.kind == 'list' and not x.items for x in r.items[1:3]))
        if not ok:
            return self.forbid(ctx, 'C15.empty.returns_an_empty_dag_and_no_sources_or_targets', tags=T, note='result kind %s' % r.kind)
        for comp, f in spec.state_unchanged(c.g, c.pre).items():
            ctx.oblige('C15.empty.modifies_nothing.%s' % comp, f, tags=T)

    def search_real(self, engine):
        """bounded search for a failing input on the REAL function (used when a clause is refuted)"""
        import itertools
        for k in range(0, 4):
            for ids in itertools.combinations((0, 2, 3, 7), k):
                for start in (None, -1, 0, 1, 2, 3, 5, 7, 8):
                    for end in (None, -1, 0, 2, 3, 6, 7, 8):
                        v = run_case(self.cls, list(ids), start, end)
                        if v:
                            return {'violated': v, 'call': 'temporal_dag(G, 1, None, %r, %r) on a %s with one interaction 1-2 at each of the instants %r'
                                    % (start, end, self.cls, list(ids)), 'args': [self.cls, list(ids), start, end],
                                    'replayer': {'module': 'contracts.dag', 'function': 'run_case', 'args': [self.cls, list(ids), start, end]}}
        return None


def run_case(cls, ids, start, end):
    """temporal_dag of the real code on the graph with the interaction 1->2 at every instant of `ids`, root 1: the clauses of the
    prefix contract evaluated on the outcome; returns {clause: detail} of the violated ones"""
    import dynetx as dn
    from dynetx.algorithms.paths import temporal_dag
    G = getattr(dn, cls)()
    for q in ids:
        G.add_interaction(1, 2, q)
    out = {}
    proper = bool(ids) and (ids[0] if start is None else start) >= ids[0] and (ids[-1] if end is None else end) <= ids[-1] \
        and (ids[0] if start is None else start) <= (ids[-1] if end is None else end)
    try:
        DAG, sources, targets, _, _ = temporal_dag(G, 1, None, start, end)
    except ValueError as ex:
        if not ids:
            out['C15.window.no_exception.ValueError'] = 'graph without snapshots: %r' % (ex,)
        elif proper:
            out['C15.window.ValueError_only_for_an_improper_window'] = 'proper window [%r, %r] of ids %r rejected: %r' % (start, end, ids, ex)
        return out
    except Exception as ex:
        out['C15.window.no_exception.%s' % type(ex).__name__] = repr(ex)
        return out
    if not ids:
        if DAG.number_of_nodes() or sources or targets:
            out['C15.empty.returns_an_empty_dag_and_no_sources_or_targets'] = repr((list(DAG.nodes()), sources, targets))
        return out
    if not proper:
        out['C15.window.no_error_only_for_a_proper_window'] = 'improper window [%r, %r] of ids %r accepted' % (start, end, ids)
        return out
    s1, e1 = (ids[0] if start is None else start), (ids[-1] if end is None else end)
    want = sorted('1_%d' % q for q in ids if s1 <= q <= e1)
    if sorted(sources) != want:
        # node 1 has its neighbour 2 at every snapshot id, so its occurrences at the ids inside the window are the sources
        name = 'C15.window.every_snapshot_id_inside_the_window_is_visited' if set(want) - set(sources) else 'C15.window.ids_are_snapshot_ids_inside_the_window'
        out[name] = 'sources %r, snapshot ids inside [%r, %r] give %r' % (sorted(sources), s1, e1, want)
    return out
