r"""Forwarding contracts of the functional forms in dynetx/classes/function.py (C02 names them: dn.nodes, dn.interactions, dn.degree,
dn.neighbors, dn.number_of_nodes, dn.number_of_interactions, dn.all_neighbors; likewise dn.time_slice (C06), dn.stream_interactions (C05),
dn.temporal_snapshots_ids, dn.interactions_per_snapshots (C04), dn.inter_event_time_distribution (C17)).

f(G, p1, ..., pk)   ensures  exactly one method call on G: G.<f>(...) with every parameter p_i of the method bound to the caller's own p_i
                             (whatever mix of positional / keyword passing is used) and every other parameter of the method at its default;
                             the value returned is that call's result; nothing else is done to G
all_neighbors(graph, node, t)  undirected: one call neighbors(node, t);  directed: predecessors(node, t) and successors(node, t), the result
                             is the chain of the two results
Every method call on G is observed through a hook (it is not executed): the contract is about the forwarding only; what the methods
return is their own contracts' business.  The method's parameter list is read from the real source of the class on every run."""
import z3
from pyvc.sym import fresh, Obj, Bool
from pyvc.values import *   # noqa
from .base import Contract, Call

FORWARDS = {
    # function: (method, properties)
    'nodes': ('nodes', ('C02', 'C08')), 'interactions': ('interactions', ('C02', 'C08')), 'degree': ('degree', ('C02', 'C08')),
    'neighbors': ('neighbors', ('C02', 'C08')), 'number_of_nodes': ('number_of_nodes', ('C02', 'C08')),
    'number_of_interactions': ('number_of_interactions', ('C02', 'C08')),
    'time_slice': ('time_slice', ('C06',)), 'stream_interactions': ('stream_interactions', ('C05',)),
    'temporal_snapshots_ids': ('temporal_snapshots_ids', ('C04',)), 'interactions_per_snapshots': ('interactions_per_snapshots', ('C04',)),
    'inter_event_time_distribution': ('inter_event_time_distribution', ('C17',)),
    'all_neighbors': (None, ('C02', 'C08')),
}


ALIAS = {'all_neighbors': {'n': 'node'}, 'has_predecessor': {'u': 'v', 'v': 'u'}}          # (has_predecessor(u, v, t) asks has_interaction(v, u, t))          # method parameter -> parameter of the functional form, where the names differ


METHOD_FORWARDS = {
    # method: (target method, properties): thin methods of the classes that only forward (list(...) of the iterator, an alias)
    'interactions': ('interactions_iter', ('C02', 'C08')), 'in_interactions': ('in_interactions_iter', ('C02', 'C08')),
    'out_interactions': ('out_interactions_iter', ('C02', 'C08')), 'order': ('number_of_nodes', ('C02', 'C08')),
    'has_successor': ('has_interaction', ('C02', 'C08')), 'has_predecessor': ('has_interaction', ('C02', 'C08')),
}


class Forwarder(Contract):
    def __init__(self, cls, fname, bound_n=None, method=False):
        self.cls, self.fname = cls, fname
        self.directed = cls == 'DynDiGraph'
        if method:
            self.key = '%s::%s.%s' % ('dyndigraph' if self.directed else 'dyngraph', cls, fname)
            self.method, self.props = METHOD_FORWARDS[fname]
        else:
            self.key = 'function::%s' % fname
            self.method, self.props = FORWARDS[fname]
        self.T = self.props

    def setup(self, ctx, variant):
        import ast
        g = HGraph('G', self.directed, self.cls).havoc('0')
        g['ER'] = fresh('er', Bool)
        ctx.graphs['G'] = g
        c = Call(g=g, pre=g.snapshot(), calls=[], params={}, argv=None, kwv={})
        c.names = None
        ctx.fw = c

        def hook(interp, g_, name, argv, kwv):
            if name == 'is_directed' and g_ is g and not argv and not kwv:
                return VBool(self.directed)             # (a property of the class)
            tok = VOpaque(fresh('result_of_' + name, Obj), 'result')
            c.calls.append((g_ is g, name, list(argv), dict(kwv), tok))
            return tok
        ctx.method_hook = hook
        return c

    def body(self, interp, call):
        fi = interp.engine.fn(self.key)
        names = [a.arg for a in fi.fdef.args.args]
        call.names = names
        call.interp = interp
        call.params = {n: VOpaque(fresh('arg_' + n, Obj), 'param') for n in names[1:]}
        call.argv = [VGraph(call.g)] + [call.params[n] for n in names[1:]]
        return interp.engine.inline(interp, fi, call.argv, {})

    def expect(self, interp, c, method, call):
        """the call (is_G, name, argv, kwv, token) forwards the caller's own arguments to `method`"""
        T = self.T
        ctx = interp.ctx
        is_g, name, argv, kwv, tok = call
        if not is_g or name != method:
            return self.forbid(ctx, '%s.functional_form.%s.calls_the_method_of_the_same_name_on_G' % (T[0], self.fname), tags=T, note='G.%s called' % name)
        fi = interp.engine.classes.get(self.cls, {}).get(method)
        if fi is None:
            raise Undecided('%s.%s has no source in /repo (inherited)' % (self.cls, method))
        env = interp.bind_args(fi.fdef, [VGraph(c.g)] + argv, kwv)
        mnames = [a.arg for a in fi.fdef.args.args][1:]
        al = ALIAS.get(self.fname, {})
        for p in mnames:
            got = env.get(p)
            q = al.get(p, p)
            if q in c.params:
                ok = got is not None and got.kind == 'opaque' and got.z.eq(c.params[q].z)
                ctx.oblige('%s.functional_form.%s.passes_its_own.%s' % (T[0], self.fname, p), z3.BoolVal(bool(ok)), tags=T, kind='call-site')
            else:
                d = self._default_of(interp, fi, p)
                same = d is not None and got is not None and got.kind == d.kind and (got.kind == 'none' or (hasattr(got, 'z') and got.z.eq(d.z)))
                ctx.oblige('%s.functional_form.%s.leaves_at_its_default.%s' % (T[0], self.fname, p), z3.BoolVal(bool(same)), tags=T, kind='call-site')
        for p in c.params:
            if p not in [al.get(m, m) for m in mnames]:
                self.forbid(ctx, '%s.functional_form.%s.method_has_the_parameter.%s' % (T[0], self.fname, p), tags=T)

    def _defaulted(self, fi):
        a = fi.fdef.args
        names = [x.arg for x in a.args]
        return names[len(names) - len(a.defaults):] if a.defaults else []

    def _default_of(self, interp, fi, p):
        a = fi.fdef.args
        names = [x.arg for x in a.args]
        dn_ = names[len(names) - len(a.defaults):] if a.defaults else []
        if p not in dn_:
            return None
        return interp.const(a.defaults[dn_.index(p)])

    def finish(self, ctx, c, outcome):
        T = self.T
        interp = c.interp
        if outcome[0] == 'raise':
            return self.forbid(ctx, '%s.functional_form.%s.no_exception_of_its_own.%s' % (T[0], self.fname, outcome[1]), tags=T, note=outcome[2])
        r = outcome[1]
        if self.fname == 'all_neighbors':
            want = ['predecessors', 'successors'] if self.directed else ['neighbors']
            got = [x[1] for x in c.calls if x[1] != 'is_directed']
            if sorted(got) != sorted(want):
                return self.forbid(ctx, 'C02.functional_form.all_neighbors.asks_%s' % '_and_'.join(want), tags=T, note='calls %r' % got)
            toks = []
            for call in c.calls:
                if call[1] == 'is_directed':
                    continue
                self.expect(interp, c, call[1], call)
                toks.append(call[4])
            parts = r.parts if r.kind == 'chain' else [r]
            ok = len(parts) == len(toks) and all(any(p.kind == 'opaque' and p.z.eq(t.z) for p in parts) for t in toks)
            ctx.oblige('C02.functional_form.all_neighbors.returns_all_the_results', z3.BoolVal(bool(ok)), tags=T)
            return
        if len(c.calls) != 1:
            return self.forbid(ctx, '%s.functional_form.%s.exactly_one_method_call' % (T[0], self.fname), tags=T, note='%d calls' % len(c.calls))
        self.expect(interp, c, self.method, c.calls[0])
        ok = r.kind == 'opaque' and r.z.eq(c.calls[0][4].z)
        ctx.oblige('%s.functional_form.%s.returns_the_result_of_the_call' % (T[0], self.fname), z3.BoolVal(bool(ok)), tags=T)


def run_case(cls, fname):
    """the real functional form on a graph whose methods are replaced (on the instance) by recorders; {clause: detail}"""
    import inspect
    import dynetx as dn
    from dynetx.classes import function as F
    G = getattr(dn, cls)()
    method, props = FORWARDS[fname]
    P = props[0]
    calls = []

    class Tok(object):
        def __init__(self, n):
            self.n = n

        def __iter__(self):
            return iter([self])

    def rec(name):
        real = getattr(type(G), name)
        sig = inspect.signature(real)

        def f(*a, **k):
            b = sig.bind(G, *a, **k)
            b.apply_defaults()
            t = Tok(name)
            calls.append((name, dict(b.arguments), t))
            return t
        return f
    names = ['predecessors', 'successors', 'neighbors'] if fname == 'all_neighbors' else [method]
    for n in names:
        if hasattr(type(G), n):
            setattr(G, n, rec(n))
    fn = getattr(F, fname)
    params = list(inspect.signature(fn).parameters)[1:]
    args = {p: Tok('arg_' + p) for p in params}
    try:
        res = fn(G, *[args[p] for p in params])
    except Exception as ex:
        return {'%s.functional_form.%s.no_exception_of_its_own.%s' % (P, fname, type(ex).__name__): repr(ex)}
    out = {}
    al = {v: k for k, v in ALIAS.get(fname, {}).items()}
    want = ([['neighbors'], ['predecessors', 'successors']][cls == 'DynDiGraph']) if fname == 'all_neighbors' else [method]
    if sorted(c[0] for c in calls) != sorted(want):
        return {'%s.functional_form.%s.exactly_one_method_call' % (P, fname): 'calls %r, expected %r' % ([c[0] for c in calls], want)}
    for name, bound, tok in calls:
        sig = inspect.signature(getattr(type(G), name))
        for p, prm in list(sig.parameters.items())[1:]:
            src = [q for q in params if al.get(q, q) == p]
            if src:
                if bound.get(p) is not args[src[0]]:
                    out['%s.functional_form.%s.passes_its_own.%s' % (P, fname, p)] = 'G.%s received %s=%r' % (name, p, getattr(bound.get(p), 'n', bound.get(p)))
            elif prm.default is not inspect.Parameter.empty and bound.get(p) != prm.default:
                out['%s.functional_form.%s.leaves_at_its_default.%s' % (P, fname, p)] = 'G.%s received %s=%r' % (name, p, getattr(bound.get(p), 'n', bound.get(p)))
    toks = [c[2] for c in calls]
    got = list(res) if fname == 'all_neighbors' else [res]
    if len(got) != len(toks) or any(t not in got for t in toks):
        out['%s.functional_form.%s.returns_the_result_of_the_call' % (P, fname)] = 'returned %r' % (res,)
    return out


def run_method_case(cls, fname):
    """has_successor / has_predecessor of the real class against has_interaction on a small directed graph; {clause: detail}"""
    import dynetx as dn
    G = getattr(dn, cls)()
    G.add_interaction(1, 2, 0, 3)
    G.add_interaction(3, 1, 2, 5)
    for u in (1, 2, 3):
        for v in (1, 2, 3):
            for t in (None, 0, 2, 4, 9):
                exp = G.has_interaction(u, v, t) if fname == 'has_successor' else G.has_interaction(v, u, t)
                try:
                    got = getattr(G, fname)(u, v, t)
                except Exception as ex:
                    return {'C02.functional_form.%s.no_exception_of_its_own.%s' % (fname, type(ex).__name__): repr(ex)}
                if got != exp:
                    return {'C02.functional_form.%s.passes_its_own.u' % fname: '%s(%r, %r, %r) = %r after add(1,2,0,3); add(3,1,2,5); has_interaction gives %r'
                            % (fname, u, v, t, got, exp)}
    return {}


def _search(self, engine):
    if not self.key.startswith('function::') and self.fname in ('has_successor', 'has_predecessor'):
        v = run_method_case(self.cls, self.fname)
        if v:
            return {'violated': v, 'call': '%s.%s on the graph add(1,2,0,3); add(3,1,2,5)' % (self.cls, self.fname),
                    'replayer': {'module': 'contracts.forward', 'function': 'run_method_case', 'args': [self.cls, self.fname]}}
        return None
    if not self.key.startswith('function::'):
        return None             # (method-to-method forwarding: the bounded tier compares the two results on real graphs)
    v = run_case(self.cls, self.fname)
    if v:
        return {'violated': v, 'call': 'dn.%s(G, <one distinct token per parameter>) with the methods of the %s G replaced by recorders' % (self.fname, self.cls),
                'replayer': {'module': 'contracts.forward', 'function': 'run_case', 'args': [self.cls, self.fname]}}
    return None


Forwarder.search_real = _search
