"""Accumulative mode (edge_removal=False): invariant and kernel post-conditions (C08)."""
import z3
from pyvc import spec


def inv_assume(ctx, g, view, nodes, pairs):
    ctx.assume(spec.shape_h(g, nodes, pairs), 'shape')
    ctx.assume(spec.tte_h(g), 'tte')


def post_kernel(contract, ctx, c):
    pass
