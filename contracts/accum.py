r"""Accumulative mode (edge_removal=False): invariant and kernel post-conditions (C08).

Presence in this mode is  P(a,b,q) := Ever(a,b) /\ s_0(a,b) <= q <= max(dom Cnt)  - a function of three
observables: which pairs exist, the first start of each pair, and the set of snapshot ids.  The kernel
clauses pin exactly those three (plus the event log), so that the presence statement of C08 follows from
the contract of __presence_test."""
import z3
from pyvc import spec
from pyvc.sym import (fresh, Node, Int, Op, OP_PLUS, OP_MINUS, FA, FA_idx, inb, concrete_int, IntV, evk)


def events_h(g, a, b):
    r, n, S, E = spec.tl(g, a, b)
    q = z3.Int('q?aev')
    op = z3.Const('op?aev', Op)
    Evq = g['Ev'][q]
    pats = [Evq[evk(a, b, OP_PLUS)]] + ([] if g.directed else [Evq[evk(b, a, OP_PLUS)]])
    hs = [z3.Implies(r == 0, FA([q, op], z3.Not(spec.ev_pair(g, q, a, b, op)),
                                [Evq[evk(a, b, op)]] + ([] if g.directed else [Evq[evk(b, a, op)]]))),
          z3.Implies(r != 0, FA([q], z3.Implies(spec.ev_pair(g, q, a, b, OP_PLUS), q == S[0]), pats)),
          z3.Implies(r != 0, spec.ev_pair(g, S[0], a, b, OP_PLUS)),
          FA([q], z3.Not(spec.ev_pair(g, q, a, b, OP_MINUS)),
             [Evq[evk(a, b, OP_MINUS)]] + ([] if g.directed else [Evq[evk(b, a, OP_MINUS)]]))]
    if not g.directed:
        hs.append(z3.Implies(a != b, FA([q, op], z3.Not(z3.And(spec.ev_at(g, q, a, b, op), spec.ev_at(g, q, b, a, op))),
                                        [z3.MultiPattern(Evq[evk(a, b, op)], Evq[evk(b, a, op)])])))
    return hs


def events_goals(g, a, b, q, op):
    r, n, S, E = spec.tl(g, a, b)
    goals = {
        'no_event_without_pair': z3.Implies(r == 0, z3.Not(spec.ev_pair(g, q, a, b, op))),
        'plus_only_at_first_appearance': z3.Implies(z3.And(r != 0, spec.ev_pair(g, q, a, b, OP_PLUS)), q == S[0]),
        'plus_at_first_appearance': z3.Implies(r != 0, spec.ev_pair(g, S[0], a, b, OP_PLUS)),
        'no_minus_event': z3.Not(spec.ev_pair(g, q, a, b, OP_MINUS)),
    }
    if not g.directed:
        goals['one_orientation'] = z3.Implies(a != b, z3.Not(z3.And(spec.ev_at(g, q, a, b, op), spec.ev_at(g, q, b, a, op))))
    return goals


def inv_assume(ctx, g, view, nodes, pairs, shape_pairs=None):
    ctx.assume(spec.shape_h(g, nodes, list(pairs) + list(shape_pairs or []), quantified=not getattr(ctx, 'bounded', False)), 'shape')
    ctx.assume(spec.tte_h(g), 'tte')
    for (a, b) in pairs:
        ctx.assume(spec.canon_h(g, a, b), 'canon')
        ctx.assume(spec.snapkeys_h(g, a, b), 'snapkeys')
        ctx.assume(events_h(g, a, b), 'events')


def post_kernel(contract, ctx, c):
    g, pre = c.g, c.pre
    u, v, x, y, x2, y2, q, op = c.u, c.v, c.qx, c.qy, c.qx2, c.qy2, c.qq, c.qop
    same = spec.samepair(g, x, y, u, v)
    T = ('C08',)
    ctx.oblige('C08.ever', spec.ever(g, x, y) == z3.Or(spec.ever(pre, x, y), same), tags=T, use=('shape',))
    r1, n1, S1, E1 = spec.tl(g, x, y)
    r0, n0, S0, E0 = spec.tl(pre, x, y)
    ctx.oblige('C08.first_appearance_kept', z3.Implies(r0 != 0, S1[0] == S0[0]), tags=T, use=('shape',))
    ctx.oblige('C08.first_appearance_of_new_pair', z3.Implies(z3.And(r0 == 0, same), S1[0] == c.t), tags=T, use=('shape',))
    ctx.oblige('C08.snapshot_ids_are_accepted_adds', g['SKey'][q] == z3.Or(pre['SKey'][q], q == c.t), tags=T,
               use=('shape', 'snapkeys'))
    for name, f in spec.snapkeys_goals(g, x, y, q).items():
        ctx.oblige('C08.' + name, f, tags=T, use=('shape', 'canon', 'snapkeys'))
    for name, f in spec.canon_goals(g, x, y).items():
        ctx.oblige('C08.timeline.' + name, f, tags=T, use=('shape', 'canon'))
    for name, f in events_goals(g, x, y, q, op).items():
        ctx.oblige('C08.events.' + name, f, tags=T, use=('shape', 'events', 'tte'))
    for name, f in spec.tte_goals(g, q).items():
        ctx.oblige('C08.events.' + name, f, tags=T, use=('shape', 'tte'))
    for name, f in spec.shape_goals(g, x, y, x2, y2).items():
        ctx.oblige('C08.shape.' + name, f, tags=T, use=('shape',))
    ctx.oblige('C08.nodes', g['NodeIn'][x] == z3.Or(pre['NodeIn'][x], x == u, x == v), tags=T, use=('shape',))
    ctx.oblige('C08.node_attributes_kept', z3.Implies(pre['NodeIn'][x], g['NAttr'][x] == pre['NAttr'][x]), tags=T, use=('shape',))
    for comp in ('GAttr', 'ER', 'Frozen'):
        ctx.oblige('C08.frame.' + comp, g[comp] == pre[comp] if not g[comp].eq(pre[comp]) else z3.BoolVal(True), tags=T)
