r"""Contracts of the presence-counting statistics (C17).

edge_contribution(u, v)    requires Inv(G), dom Cnt non-empty when the pair exists (I3 key half gives it)
    ensures  result = 0                                   if the pair never interacted
             result * |dom Cnt| = sum_i (e_i - s_i + 1)   otherwise      (real division, DESIGN 8.2)
    By counting lemma L4 (assumed) the sum is |T_uv| for a canonical timeline, i.e. the property's |T_uv| / |T|.
    loop invariant: count = sumlen(k), sumlen(0) = 0, sumlen(j) = sumlen(j-1) + e_{j-1} - s_{j-1} + 1."""
import z3
from pyvc.sym import fresh, fresh_fun, Node, Int, Bool, IntV, FA, inb
from pyvc.values import *   # noqa
from pyvc import spec
from pyvc.loops import LoopSpec
from .base import Contract, Call
from .queries import HasInteraction


class EdgeContribution(Contract):
    props = ('C17',)
    key = 'dyngraph::DynGraph.edge_contribution'

    def __init__(self, bound_n=None):
        pass

    def uses(self, eng):
        return [HasInteraction('DynGraph')]

    def reads(self):
        return [HasInteraction('DynGraph').key]

    def setup(self, ctx, variant):
        g = HGraph('self', False, 'DynGraph').havoc('0')
        g['ER'] = z3.BoolVal(True)
        ctx.graphs['self'] = g
        u, v = fresh('u', Node), fresh('v', Node)
        view0 = spec.View('pre')
        ctx.inv_cats = ('shape', 'canon', 'snapkeys')
        spec.inv_assume(ctx, g, view0, [u, v], [(u, v)], shape_pairs=[(v, u)])
        r, n, S, E = spec.tl(g, u, v)
        sumlen = fresh_fun('sumlen', Int, Int)
        j = z3.Int('j?sl')
        ctx.assume(sumlen(0) == 0)
        ctx.assume(FA([j], z3.Implies(z3.And(1 <= j, j <= n), sumlen(j) == sumlen(j - 1) + E[j - 1] - S[j - 1] + 1), [sumlen(j)]))
        c = Call(g=g, pre=g.snapshot(), u=u, v=v, sumlen=sumlen, argv=[VGraph(g), VNode(u), VNode(v)], kwv={})
        ctx.ec = c
        return c

    def loop_specs(self):
        def inv(L):
            return [('count_is_the_sum_of_the_interval_lengths_so_far', L.env[L.augmented[0]].z == L.ctx.ec.sumlen(L.k))]
        return {'timeline/1': LoopSpec(inv, modifies={}, tags=('C17',))}

    def finish(self, ctx, c, outcome):
        T = ('C17',)
        if outcome[0] == 'raise':
            return self.forbid(ctx, 'C17.edge_contribution.no_exception.%s' % outcome[1], tags=T, note=outcome[2])
        res = outcome[1]
        r, n, S, E = spec.tl(c.pre, c.u, c.v)
        ever = z3.And(c.pre['Row_adj'][c.u], r != 0)
        if res.kind == 'int':
            ctx.oblige('C17.edge_contribution.zero_only_if_never_interacting', z3.And(res.z == 0, z3.Not(ever)), tags=T)
        elif res.kind == 'real':
            card = getattr(ctx, 'card_snap', None)
            if card is None:
                return self.forbid(ctx, 'C17.edge_contribution.divides_by_the_number_of_snapshots', tags=T)
            ctx.oblige('C17.edge_contribution.value', z3.And(ever, res.z * z3.ToReal(card) == z3.ToReal(c.sumlen(n))), tags=T)
        else:
            return self.forbid(ctx, 'C17.edge_contribution.returns_a_number', tags=T, note='kind %s' % res.kind)
        for comp, f in spec.state_unchanged(c.g, c.pre).items():
            ctx.oblige('C17.edge_contribution.modifies_nothing.%s' % comp, f, tags=T)
