r"""Contracts of the presence-counting statistics (C17).

edge_contribution(u, v)    requires Inv(G), dom Cnt non-empty when the pair exists (I3 key half gives it)
    ensures  result = 0                                   if the pair never interacted
             result * |dom Cnt| = sum_i (e_i - s_i + 1)   otherwise      (real division, DESIGN 8.2)
    By counting lemma L4 (assumed) the sum is |T_uv| for a canonical timeline, i.e. the property's |T_uv| / |T|.
    loop invariant: count = sumlen(k), sumlen(0) = 0, sumlen(j) = sumlen(j-1) + e_{j-1} - s_{j-1} + 1."""
import z3
from pyvc.sym import fresh, fresh_fun, Node, Int, Bool, IntV, FA, inb
from pyvc.values import *   # noqa
from pyvc import spec
from pyvc.loops import LoopSpec
from .base import Contract, Call
from .queries import HasInteraction


class EdgeContribution(Contract):
    props = ('C17',)
    key = 'dyngraph::DynGraph.edge_contribution'

    def __init__(self, bound_n=None):
        pass

    def uses(self, eng):
        return [HasInteraction('DynGraph')]

    def reads(self):
        return [HasInteraction('DynGraph').key]

    def setup(self, ctx, variant):
        g = HGraph('self', False, 'DynGraph').havoc('0')
        g['ER'] = z3.BoolVal(True)
        ctx.graphs['self'] = g
        u, v = fresh('u', Node), fresh('v', Node)
        view0 = spec.View('pre')
        ctx.inv_cats = ('shape', 'canon', 'snapkeys')
        spec.inv_assume(ctx, g, view0, [u, v], [(u, v)], shape_pairs=[(v, u)])
        r, n, S, E = spec.tl(g, u, v)
        sumlen = fresh_fun('sumlen', Int, Int)
        j = z3.Int('j?sl')
        ctx.assume(sumlen(0) == 0)
        ctx.assume(FA([j], z3.Implies(z3.And(1 <= j, j <= n), sumlen(j) == sumlen(j - 1) + E[j - 1] - S[j - 1] + 1), [sumlen(j)]))
        c = Call(g=g, pre=g.snapshot(), u=u, v=v, sumlen=sumlen, argv=[VGraph(g), VNode(u), VNode(v)], kwv={})
        ctx.ec = c
        return c

    def loop_specs(self):
        def inv(L):
            return [('count_is_the_sum_of_the_interval_lengths_so_far', L.env[L.augmented[0]].z == L.ctx.ec.sumlen(L.k))]
        return {'timeline/1': LoopSpec(inv, modifies={}, tags=('C17',))}

    def finish(self, ctx, c, outcome):
        T = ('C17',)
        if outcome[0] == 'raise':
            return self.forbid(ctx, 'C17.edge_contribution.no_exception.%s' % outcome[1], tags=T, note=outcome[2])
        res = outcome[1]
        r, n, S, E = spec.tl(c.pre, c.u, c.v)
        ever = z3.And(c.pre['Row_adj'][c.u], r != 0)
        if res.kind == 'int':
            ctx.oblige('C17.edge_contribution.zero_only_if_never_interacting', z3.And(res.z == 0, z3.Not(ever)), tags=T)
        elif res.kind == 'real':
            card = getattr(ctx, 'card_snap', None)
            if card is None:
                return self.shape(ctx, 'C17.edge_contribution.divides_by_the_number_of_snapshots', tags=T)
            ctx.oblige('C17.edge_contribution.value', z3.And(ever, res.z * z3.ToReal(card) == z3.ToReal(c.sumlen(n))), tags=T)
        else:
            return self.shape(ctx, 'C17.edge_contribution.returns_a_number', tags=T, note='kind %s' % res.kind)
        for comp, f in spec.state_unchanged(c.g, c.pre).items():
            ctx.oblige('C17.edge_contribution.modifies_nothing.%s' % comp, f, tags=T)


# ---- measures that count snapshot ids (C17): node_contribution, pair_density, node_presence, coverage ---------------------------------
#
# for t in self.snapshots: <counter> += 1 under a condition c(t)       (the snapshot ids are visited once each, in unspecified order)
#   ghost visited set Vis;  invariant  counter = #c(Vis)  where  #c(S) := |{t in S : c(t)}|  is an uninterpreted function of the set with
#   its DEFINING equations  #c({}) = 0,  #c(S + {x}) = #c(S) + [c(x)]  for x not in S  (the instance for the element being visited is
#   supplied at each step).  What is proved is that the code's condition is the contract's c; the value is then #c(dom Cnt) = |T_c|.
#   has_node / has_interaction / number_of_nodes are used by their verified contracts (opaque HN(u,t); closed presence formula; N(t)).

from pyvc.sym import b2i          # noqa: E402
from .neighbours import HasNode, NumberOfNodes, has_node_symbol          # noqa: E402
from .queries import presence_formula          # noqa: E402

SETI = z3.ArraySort(Int, Bool)


def _nn_symbol(ctx, g):
    key = ('NN', g.name, g['SKey'].get_id())
    cache = ctx.__dict__.setdefault('_nn', {})
    if key not in cache:
        cache[key] = (fresh_fun('NodesAt', Int, Int), fresh('NodesAll', Int))
        ctx.notes.append('number_of_nodes(t) by its verified contract (C02): an opaque non-negative number N(t) of the graph state on the caller side')
    return cache[key]


def _number_of_nodes_apply(self, interp, g, argv, kwv):
    args = dict(zip(['t'], argv))
    args.update(kwv)
    t = args.get('t', VNone)
    NV, NA = _nn_symbol(interp.ctx, g)
    if t.kind == 'none':
        interp.ctx.assume(NA >= 0, 'call')
        return VInt(NA)
    if t.kind != 'int':
        raise Undecided('number_of_nodes called with t of kind %s' % t.kind)
    interp.ctx.assume(NV(t.z) >= 0, 'call')
    return VInt(NV(t.z))


NumberOfNodes.apply = _number_of_nodes_apply


class _SnapCount(Contract):
    props = ('C17',)
    fname = None
    counters = ()

    def __init__(self, bound_n=None):
        self.key = 'dyngraph::DynGraph.%s' % self.fname

    def uses(self, eng):
        return [HasNode('DynGraph'), HasInteraction('DynGraph'), NumberOfNodes('DynGraph')]

    def reads(self):
        return [HasNode('DynGraph').key, HasInteraction('DynGraph').key, NumberOfNodes('DynGraph').key]

    def setup(self, ctx, variant):
        g = HGraph('self', False, 'DynGraph').havoc('0')
        g['ER'] = z3.BoolVal(True)
        ctx.graphs['self'] = g
        u, v = fresh('u', Node), fresh('v', Node)
        view0 = spec.View('pre')
        ctx.inv_cats = ('shape', 'canon', 'snapkeys')
        spec.inv_assume(ctx, g, view0, [u, v], [(u, v)], shape_pairs=[(v, u)])
        q0 = fresh('q0', Int)
        ctx.assume(g['SKey'][q0])            # requires: the graph has at least one snapshot (C17's quantifier)
        cnt = {k: fresh_fun('Count_' + k, SETI, Int) for k in self.counters}
        for f in cnt.values():
            ctx.assume(f(z3.K(Int, z3.BoolVal(False))) == 0)
        c = Call(g=g, pre=g.snapshot(), u=u, v=v, cnt=cnt, q=fresh('q', Int), HN=has_node_symbol(ctx, g), argv=self.args(g, u, v), kwv={})
        ctx.sc = c
        return c

    def body(self, interp, call):
        interp.pure_calls = True             # callee contracts in closed form: the conditions are compared syntactically with the contract's
        return Contract.body(self, interp, call)

    def cond(self, c, k, x):
        raise NotImplementedError

    def counter_value(self, L, i):
        return L.env[L.augmented[i]].z

    def loop_specs(self):
        def inv(L):
            c = L.ctx.sc
            return [('%s_counts_the_visited_ids' % k, self.counter_value(L, i) == c.cnt[k](L.Vis)) for i, k in enumerate(self.counters)]

        def step_facts(L):
            c = L.ctx.sc
            if not L.cur:
                return []
            x = L.cur[0]
            return [c.cnt[k](z3.Store(L.Vis, x, True)) == c.cnt[k](L.Vis) + self.weight(c, k, x) for k in self.counters]

        def on_exit(L):
            return [L.Vis == L.ctx.sc.pre['SKey']]          # extensionality: Vis is a subset of the ids and every id was visited
        return {'bag/1': LoopSpec(inv, modifies={}, assumes=step_facts, on_exit=on_exit, tags=('C17',))}

    def weight(self, c, k, x):
        return b2i(self.cond(c, k, x))

    def common(self, ctx, c, outcome, name):
        if outcome[0] == 'raise':
            self.forbid(ctx, 'C17.%s.no_exception.%s' % (name, outcome[1]), tags=('C17',), note=outcome[2])
            return None
        for comp, f in spec.state_unchanged(c.g, c.pre).items():
            ctx.oblige('C17.%s.modifies_nothing.%s' % (name, comp), f, tags=('C17',))
        return outcome[1]


class NodeContribution(_SnapCount):
    """node_contribution(u) = |{t in T : has_node(u, t)}| / |T|"""
    fname = 'node_contribution'
    counters = ('Tu',)

    def args(self, g, u, v):
        return [VGraph(g), VNode(u)]

    def cond(self, c, k, x):
        return c.HN(c.u, x)

    def finish(self, ctx, c, outcome):
        r = self.common(ctx, c, outcome, 'node_contribution')
        if r is None:
            return
        card = getattr(ctx, 'card_snap', None)
        if r.kind != 'real' or card is None:
            return self.shape(ctx, 'C17.node_contribution.divides_by_the_number_of_snapshots', tags=('C17',), note='result kind %s' % r.kind)
        ctx.oblige('C17.node_contribution.value', r.z * z3.ToReal(card) == z3.ToReal(c.cnt['Tu'](c.pre['SKey'])), tags=('C17',))


class PairDensity(_SnapCount):
    """pair_density(u, v) = |{t : has_interaction(u, v, t)}| / |{t : has_node(u, t) and has_node(v, t)}|, 0 when the denominator is 0"""
    fname = 'pair_density'
    counters = ('TuTv', 'Tuv')          # in the order of the augmented assignments in the body: denominator, numerator

    def args(self, g, u, v):
        return [VGraph(g), VNode(u), VNode(v)]

    def cond(self, c, k, x):
        if k == 'TuTv':
            return z3.And(c.HN(c.u, x), c.HN(c.v, x))
        return z3.And(spec.ever(c.pre, c.u, c.v), presence_formula(c.pre, c.u, c.v, x, True))

    def finish(self, ctx, c, outcome):
        r = self.common(ctx, c, outcome, 'pair_density')
        if r is None:
            return
        den, num = c.cnt['TuTv'](c.pre['SKey']), c.cnt['Tuv'](c.pre['SKey'])
        if r.kind == 'int':
            ctx.oblige('C17.pair_density.zero_only_without_common_presence', z3.And(r.z == 0, den == 0), tags=('C17',))
        elif r.kind == 'real':
            ctx.oblige('C17.pair_density.value', z3.And(den != 0, r.z * z3.ToReal(den) == z3.ToReal(num)), tags=('C17',))
        else:
            self.shape(ctx, 'C17.pair_density.returns_a_number', tags=('C17',), note='result kind %s' % r.kind)


class Coverage(_SnapCount):
    """coverage() = sum_{t in T} number_of_nodes(t) / (|T| * number_of_nodes());  requires a non-zero denominator"""
    fname = 'coverage'
    counters = ('sumVt',)

    def args(self, g, u, v):
        return [VGraph(g)]

    def setup(self, ctx, variant):
        c = _SnapCount.setup(self, ctx, variant)
        NV, NA = _nn_symbol(ctx, c.g)
        ctx.assume(NA >= 1)                 # requires: non-zero denominator (C17's quantifier)
        c.NV, c.NA = NV, NA
        return c

    def weight(self, c, k, x):
        return c.NV(x)

    def finish(self, ctx, c, outcome):
        r = self.common(ctx, c, outcome, 'coverage')
        if r is None:
            return
        card = getattr(ctx, 'card_snap', None)
        if r.kind != 'real' or card is None:
            return self.shape(ctx, 'C17.coverage.divides_by_snapshots_times_nodes', tags=('C17',), note='result kind %s' % r.kind)
        ctx.oblige('C17.coverage.value', r.z * z3.ToReal(card * c.NA) == z3.ToReal(c.cnt['sumVt'](c.pre['SKey'])), tags=('C17',))


class NodePresence(_SnapCount):
    """node_presence(u) = {t in T : has_node(u, t)}"""
    fname = 'node_presence'
    counters = ()

    def args(self, g, u, v):
        return [VGraph(g), VNode(u)]

    def loop_specs(self):
        def cnt_of(L):
            vs = [v for v in L.env.values() if getattr(v, 'kind', None) == 'intbag']
            if vs:
                return vs[0].cnt
            return z3.K(Int, IntV(0))           # before the loop: the empty list

        def inv(L):
            c = L.ctx.sc
            q = z3.Int('q?np')
            cnt = cnt_of(L)
            return [('collected_ids_are_the_visited_ids_with_the_node', FA([q], cnt[q] == b2i(z3.And(L.vis(q), c.HN(c.u, q))), [cnt[q]]))]
        return {'bag/1': LoopSpec(inv, modifies={}, tags=('C17',))}

    def finish(self, ctx, c, outcome):
        r = self.common(ctx, c, outcome, 'node_presence')
        if r is None:
            return
        if r.kind != 'vset':
            return self.shape(ctx, 'C17.node_presence.returns_a_set_of_ids', tags=('C17',), note='result kind %s' % r.kind)
        ctx.oblige('C17.node_presence.members', r.member_z(c.q) == z3.And(c.pre['SKey'][c.q], c.HN(c.u, c.q)), tags=('C17',))


# ---- bounded search on the real code (triage) ---------------------------------------------------------------------------------

def run_case(fname, history, u, v):
    """the real measure on the graph built by `history` (DynGraph, removal mode) against its definition computed from the union of the
    added spans; {clause: detail} of the violated clauses"""
    from fractions import Fraction
    from bounded.core import run_history
    history = [tuple(tuple(y) if isinstance(y, list) else y for y in c) for c in history]
    G, M, outs = run_history('DynGraph', True, history, probing=False)
    nodes = list(G.nodes())
    T = sorted(G.temporal_snapshots_ids())
    Tn = lambda a: set(t for t in T if any(M.present(a, b, t) for b in nodes))
    Tuv = set(t for t in T if M.present(u, v, t))
    name = fname
    try:
        if fname == 'node_contribution':
            got, exp = G.node_contribution(u), Fraction(len(Tn(u)), len(T))
        elif fname == 'pair_density':
            den = len(Tn(u) & Tn(v))
            got, exp = G.pair_density(u, v), (Fraction(len(Tuv), den) if den else 0)
        elif fname == 'coverage':
            got, exp = G.coverage(), Fraction(sum(len([a for a in nodes if t in Tn(a)]) for t in T), len(T) * len(nodes))
        else:
            got, exp = G.node_presence(u), Tn(u)
            if got != exp:
                return {'C17.node_presence.members': 'node_presence(%r) = %r, expected %r' % (u, sorted(got), sorted(exp))}
            return {}
    except Exception as ex:
        return {'C17.%s.no_exception.%s' % (name, type(ex).__name__): repr(ex)}
    if abs(float(got) - float(exp)) > 1e-9:
        return {'C17.%s.value' % name: '%s = %r, definition gives %s' % (fname, got, exp)}
    return {}


def _search_real(self, engine):
    import itertools
    from bounded.core import histories, run_history, jsonable
    for cls, rem, h in itertools.islice(histories('quick', 1, classes=('DynGraph',), modes=(True,)), 800):
        if any(c[0] == 'add' and c[1] == c[2] for c in h):
            continue                        # C17 is stated for graphs without self-loops
        G, M, outs = run_history(cls, rem, h, probing=False)
        if any(o[0] != o[1] for o in outs) or not M.keys():
            continue
        ns = list(G.nodes())
        for u in ns:
            for v in (ns if self.fname == 'pair_density' else ns[:1]):
                if self.fname == 'pair_density' and u == v:
                    continue
                viol = run_case(self.fname, h, u, v)
                if viol:
                    return {'violated': viol, 'call': 'DynGraph.%s on %r (u=%r, v=%r)' % (self.fname, h, u, v),
                            'replayer': {'module': 'contracts.stats', 'function': 'run_case', 'args': [self.fname, jsonable(h), u, v]}}
    return None


_SnapCount.search_real = _search_real


# ---- inter_event_time_distribution (C17, second half): the histogram of gaps between consecutive events of the stream ------------------
#
# inter_event_time_distribution()        (u None)      modular against the verified contract of stream_interactions (chronological
#                                                       enumeration e_0 .. e_{n-1} of the logged events, each once)
#   ensures  Mass(result) = n - 1 (0 when n = 0)        Mass(d) := sum of the values of d   (total mass of the histogram)
#            WSum(result) = time(e_{n-1}) - time(e_0)   WSum(d) := sum over the keys k of k * d[k]   (0 when n = 0)
#            no exception; the graph is not modified
# inter_event_time_distribution(u)       (v None)      the same for the sub-sequence of the events that involve u:
#            Mass = #u - 1 (0 when #u = 0),  WSum = time of the last event involving u - time of the first one
#            (#u, first_u, last_u are defined by recursion over the positions of the stream; the instance for the position being
#            visited is supplied at each step)
# Mass / WSum are uninterpreted functions of the histogram with their defining equations emitted at every store (pyvc/accmodel.py).

from pyvc.accmodel import VIntDict, AIB, AII          # noqa: E402
from .stream import StreamInteractions          # noqa: E402


class InterEventTimes(Contract):
    props = ('C17',)

    def __init__(self, cls, fname='inter_event_time_distribution', bound_n=None):
        self.cls, self.fname = cls, fname
        self.directed = cls == 'DynDiGraph'
        self.mod = 'dyndigraph' if self.directed else 'dyngraph'
        self.key = '%s::%s.%s' % (self.mod, cls, fname)
        # which events count for a node u: any endpoint / the target (in-events) / the source (out-events)
        self.match = {'inter_event_time_distribution': 'any', 'inter_in_event_time_distribution': 'in', 'inter_out_event_time_distribution': 'out'}[fname]

    def variants(self):
        return [{'u': 'none'}, {'u': 'node'}]

    def uses(self, eng):
        return [StreamInteractions(self.cls)]

    def reads(self):
        return [StreamInteractions(self.cls).key]

    def setup(self, ctx, variant):
        g = HGraph('self', self.directed, self.cls).havoc('0')
        ctx.graphs['self'] = g
        ctx.assume(spec.tte_h(g), 'tte')
        Mass, WSum = fresh_fun('Mass', AIB, AII, Int), fresh_fun('WSum', AIB, AII, Int)
        empty = VIntDict()
        ctx.assume(z3.And(Mass(empty.has, empty.val) == 0, WSum(empty.has, empty.val) == 0))
        ctx.hist_sums = (Mass, WSum)
        u = fresh('u', Node) if variant['u'] == 'node' else None
        # ghost recursion over the stream positions for the per-node variant
        cnt, first, last = fresh_fun('cnt_u', Int, Int), fresh_fun('first_u', Int, Int), fresh_fun('last_u', Int, Int)
        ctx.assume(cnt(0) == 0)
        c = Call(g=g, pre=g.snapshot(), u=u, Mass=Mass, WSum=WSum, cnt=cnt, first=first, last=last,
                 argv=[VGraph(g)] + ([VNode(u)] if u is not None else []), kwv={})
        ctx.iet = c

        def override(name, v, tag):
            if v.kind == 'dict' and not v.pairs and not v.esc and getattr(v, 'symset', None) is None:
                return VIntDict().havoc(tag)
            if v.kind == 'none':
                # the previous event (None before the first one): an arbitrary event tuple, only read once one was stored
                from pyvc.sym import Op
                return VTuple([VNode(fresh('pa' + tag, Node)), VNode(fresh('pb' + tag, Node)), VOp(fresh('pop' + tag, Op)), VInt(fresh('pt' + tag, Int))])
            return None
        ctx.havoc_override = override
        return c

    @staticmethod
    def _hist(env):
        vs = [v for v in env.values() if getattr(v, 'kind', None) == 'intdict']
        if vs:
            return vs[0]
        return VIntDict()

    def loop_specs(self):
        def prev_time(L):
            """time of the remembered previous event: the last component of the local that holds an event tuple"""
            cands = [v for n_, v in L.env.items() if getattr(v, 'kind', None) == 'tuple' and len(v.items) == 4 and v.items[3].kind == 'int'
                     and n_ not in L.tnames]
            if len(cands) != 1:
                raise Undecided('expected one local holding the previous event')
            return cands[0].items[3].z

        def flag(L):
            bs = [v for n_, v in L.env.items() if getattr(v, 'kind', None) == 'bool' and n_ not in L.tnames]
            if len(bs) != 1:
                raise Undecided('expected one boolean flag among the locals')
            return bs[0].z

        def inv(L):
            c = L.ctx.iet
            it = L.iterable
            if it.kind != 'seq' or 'time' not in it.meta:
                raise Undecided('the loop does not run over the event stream')
            tm, key = it.meta['time'], it.meta['key']
            d = self._hist(L.env)
            k = L.k
            M, W = c.Mass(d.has, d.val), c.WSum(d.has, d.val)
            if c.u is None:
                out = [('flag_says_whether_an_event_was_seen', flag(L) == (k == 0)),
                       ('mass_is_events_minus_one', M == z3.If(k >= 1, k - 1, 0)),
                       ('weighted_sum_is_last_minus_first', W == z3.If(k >= 1, tm(k - 1) - tm(0), 0))]
                if not (L.env is L.env0) and any(getattr(v, 'kind', None) == 'tuple' for v in L.env.values()):
                    out.append(('previous_event_is_the_last_one_visited', z3.Implies(k >= 1, prev_time(L) == tm(k - 1))))
                return out
            n_u = c.cnt(k)
            return [('flag_says_whether_an_event_of_u_was_seen', flag(L) == (n_u >= 1)),
                    ('count_is_non_negative', n_u >= 0),
                    ('mass_is_events_of_u_minus_one', M == z3.If(n_u >= 1, n_u - 1, 0)),
                    ('weighted_sum_is_last_minus_first_of_u', W == z3.If(n_u >= 1, c.last(k) - c.first(k), 0)),
                    ('previous_event_is_the_last_event_of_u', z3.Implies(n_u >= 1, prev_time(L) == c.last(k)))]

        def step_facts(L):
            c = L.ctx.iet
            if c.u is None:
                return []
            from pyvc.sym import ea, eb
            it = L.iterable
            tm, key = it.meta['time'], it.meta['key']
            k = L.k
            match = {'any': z3.Or(ea(key(k)) == c.u, eb(key(k)) == c.u), 'in': eb(key(k)) == c.u, 'out': ea(key(k)) == c.u}[self.match]
            return [c.cnt(k + 1) == c.cnt(k) + z3.If(match, 1, 0),
                    c.last(k + 1) == z3.If(match, tm(k), c.last(k)),
                    c.first(k + 1) == z3.If(z3.And(match, c.cnt(k) == 0), tm(k), c.first(k))]
        return {'seq/1': LoopSpec(inv, modifies={}, assumes=step_facts, tags=('C17',))}

    def finish(self, ctx, c, outcome):
        T = ('C17',)
        if outcome[0] == 'raise':
            return self.forbid(ctx, 'C17.inter_event.no_exception.%s' % outcome[1], tags=T, note=outcome[2])
        r = outcome[1]
        if r.kind == 'dict' and not r.pairs:
            r = VIntDict()
        if r.kind != 'intdict':
            return self.shape(ctx, 'C17.inter_event.returns_a_histogram', tags=T, note='result kind %s' % r.kind)
        seq = getattr(ctx, 'gi_seq', None)
        if seq is None:
            return self.shape(ctx, 'C17.inter_event.reads_the_stream', tags=T)
        n, tm = seq.n, seq.meta['time']
        M, W = c.Mass(r.has, r.val), c.WSum(r.has, r.val)
        if c.u is None:
            ctx.oblige('C17.inter_event.total_mass_is_events_minus_one', M == z3.If(n >= 1, n - 1, 0), tags=T)
            ctx.oblige('C17.inter_event.weighted_sum_is_last_minus_first_event_time', W == z3.If(n >= 1, tm(n - 1) - tm(0), 0), tags=T)
        else:
            nu = c.cnt(n)
            ctx.oblige('C17.inter_event.node.total_mass_is_events_of_the_node_minus_one', M == z3.If(nu >= 1, nu - 1, 0), tags=T)
            ctx.oblige('C17.inter_event.node.weighted_sum_is_last_minus_first_event_time_of_the_node', W == z3.If(nu >= 1, c.last(n) - c.first(n), 0), tags=T)
        for comp, f in spec.state_unchanged(c.g, c.pre).items():
            ctx.oblige('C17.inter_event.modifies_nothing.%s' % comp, f, tags=T)


def run_iet_case(cls, history, u, fname='inter_event_time_distribution'):
    """the real inter_event_time_distribution(u) (or its in / out form) against total mass / weighted sum computed from the real stream; {clause: detail}"""
    from bounded.core import run_history
    history = [tuple(tuple(y) if isinstance(y, list) else y for y in c) for c in history]
    G, M, outs = run_history(cls, True, history, probing=False)
    sel = {'inter_event_time_distribution': lambda e: e[0] == u or e[1] == u, 'inter_in_event_time_distribution': lambda e: e[1] == u,
           'inter_out_event_time_distribution': lambda e: e[0] == u}[fname]
    ev = [e for e in G.stream_interactions() if u is None or sel(e)]
    try:
        d = getattr(G, fname)() if u is None else getattr(G, fname)(u)
    except Exception as ex:
        return {'C17.inter_event.no_exception.%s' % type(ex).__name__: repr(ex)}
    mass, wsum = sum(d.values()), sum(k * v for k, v in d.items())
    exp_m = max(len(ev) - 1, 0)
    exp_w = (ev[-1][3] - ev[0][3]) if ev else 0
    pre = 'C17.inter_event.' + ('' if u is None else 'node.')
    out = {}
    if mass != exp_m:
        out[pre + ('total_mass_is_events_minus_one' if u is None else 'total_mass_is_events_of_the_node_minus_one')] = 'mass %r, %d event(s): %r' % (mass, len(ev), d)
    if wsum != exp_w:
        out[pre + ('weighted_sum_is_last_minus_first_event_time' if u is None else 'weighted_sum_is_last_minus_first_event_time_of_the_node')] = \
            'weighted sum %r, first/last event times %r: %r' % (wsum, (ev[0][3], ev[-1][3]) if ev else None, d)
    return out


def _search_iet(self, engine):
    import itertools
    from bounded.core import histories, run_history, jsonable
    for cls, rem, h in itertools.islice(histories('quick', 1, classes=(self.cls,), modes=(True,)), 500):
        G, M, outs = run_history(cls, rem, h, probing=False)
        if any(o[0] != o[1] for o in outs) or not M.keys():
            continue
        for u in [None] + list(G.nodes())[:3]:
            v = run_iet_case(cls, h, u, self.fname)
            if v:
                return {'violated': v, 'call': '%s.inter_event_time_distribution(%s) after %r' % (cls, '' if u is None else repr(u), h),
                        'replayer': {'module': 'contracts.stats', 'function': 'run_iet_case', 'args': [cls, jsonable(h), u, self.fname]}}
    return None


InterEventTimes.search_real = _search_iet
