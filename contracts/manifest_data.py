"""Claims per property: level, text, trusted base.  tools/gen_manifest.py turns this into MANIFEST.json."""

KERNEL_NOTE = ('Trusted: pyvc itself (executor semantics of the Python subset, heap model, SMT encoding) and z3/cvc5; Python int = mathematical '
               'integers; node ids with consistent ==/hash; ownership layout of pre-states (its preservation is checked); networkx has_edge / dict '
               'factories by model; the induction over histories (establish/preserve/encapsulate) is the textbook argument, not mechanised; '
               'calls with e <= t are outside the contract (finding D23).')

CLAIMS = {
    'C01': {'level': 'other', 'technique': 'contract-based deductive verification (pyvc: AST symbolic execution -> z3/cvc5 VCs) of add_interaction x2',
            'text': 'Every path of the real add_interaction (both classes, removal mode, t/e present or None) is enumerated from /repo source and the clauses '
                    'presence_union (forall pair, instant), ever, nodes, raises-iff (NetworkXError / ValueError), no-other-exception are discharged with no bound; '
                    'has_interaction/__presence_test and the bulk helpers are not yet under contract, hence level other.',
            'note': KERNEL_NOTE},
    'C03': {'level': 'other', 'technique': 'contract-based deductive verification (pyvc) of add_interaction x2: canonical-timeline invariant I2 + shape I1 as postconditions',
            'text': 'I2 (start<=end, transitive separation e_i+1<s_j) and I1 (mirror cells share one edge-data object, distinct pairs own distinct objects) are proved '
                    'preserved on every path of add_interaction for every pair; derived constructors not yet under contract.',
            'note': KERNEL_NOTE},
    'C04': {'level': 'other', 'technique': 'contract-based deductive verification (pyvc) of add_interaction x2: snapshot index step clauses + range-loop invariant',
            'text': 'snapshot_ids_step / snapshot_count_step (counter grows by exactly the newly present instants, loop invariant over range) and runs_are_snapshot_ids proved for all inputs; '
                    'read side (temporal_snapshots_ids, interactions_per_snapshots) not yet under contract; cardinality lemma L1 assumed.',
            'note': KERNEL_NOTE + ' Counting lemma L1 (card changes by +-1 when one membership changes) assumed.'},
    'C05': {'level': 'other', 'technique': 'contract-based deductive verification (pyvc) of add_interaction x2: event-log invariant I4 as postcondition',
            'text': 'I4 (plus only/at every run start, minus only after a run end, runs closed, one orientation, no default entries) proved preserved on every path; the property form '
                    '"runs longer than one instant are closed" proved outside the region of known finding D06; stream_interactions not yet under contract.',
            'note': KERNEL_NOTE},
    'C07': {'level': 'other', 'technique': 'contract-based deductive verification (pyvc) of add_interaction x2: frame clauses on both exceptional exits',
            'text': 'On both rejection exits (ValueError, NetworkXError), in both modes, every representation component is proved equal to its pre-value; bulk helpers not yet under contract.',
            'note': KERNEL_NOTE},
    'C08': {'level': 'other', 'technique': 'contract-based deductive verification (pyvc) of add_interaction x2 with edge_removal=False',
            'text': 'Accumulative-mode clauses (ever, first appearance kept, snapshot ids = accepted adds, exactly one + per pair at first appearance, no - event) proved on every path; '
                    '__presence_test accumulative branch not yet under contract.',
            'note': KERNEL_NOTE},
}

_WIP = 'check not built yet in this session (work in progress; see DESIGN.md section 4 for the plan)'
NOT_CLAIMED = {p: _WIP for p in ('C02', 'C06', 'C09', 'C10', 'C11', 'C12', 'C13', 'C14', 'C15', 'C16', 'C17', 'C18', 'C19', 'C20')}

NOTES = ('Technique family: contract-based deductive verification of the real code. pyvc re-extracts every function from /repo on every run (ast), '
         'contracts are sidecar modules under contracts/. Levels: proof = all clauses of the property discharged unboundedly; other = mixed (evidence says which '
         'clauses are proved and which parts are bounded stand-in). Known findings: known_findings.json.')
