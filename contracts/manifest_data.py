"""Claims per property: level, text, trusted base.  tools/gen_manifest.py turns this into MANIFEST.json."""

KERNEL_NOTE = ('Trusted: pyvc itself (executor semantics of the Python subset, heap model, SMT encoding) and z3/cvc5; Python int = mathematical '
               'integers; node ids with consistent ==/hash; ownership layout of pre-states (its preservation is checked); networkx has_edge / dict '
               'factories by model; the induction over histories (establish/preserve/encapsulate) is the textbook argument, not mechanised; '
               'calls with e <= t are outside the contract (finding D23). The bounded stand-in parts are exhaustive/sampled over a small scope '
               '(<=3 nodes, instants 0..4 and shifted windows, histories <=7 calls) and are labelled bounded, never counted as proved.')
BOUNDED_NOTE = ('Bounded stand-in only (labelled as such, never counted as proved): oracle written from the property text, real library run on an '
                'enumerated small scope stated in the evidence (rule/bound). Nothing beyond the bound is covered.')

DAG = ("The PREFIX of temporal_dag (the code up to the head of its main loop) is under contract and proved for all graphs of both classes and every "
       "start/end combination: without snapshots it returns an empty DAG and no sources/targets (and only then returns early); ValueError is raised exactly when "
       "not (first id <= start' <= end' <= last id) (start', end' = the given bounds or the first / last id) and no other exception; at the loop head the ids that will be "
       "visited are exactly the snapshot ids q with start' <= q <= end', ascending, each once - the window is taken by VALUE, not by list position; G is not "
       "modified (modular against temporal_snapshots_ids). The main loop (string-encoded node occurrences, a plain networkx DiGraph) and everything after it is not under contract. ")
DAGNOTE = (' Deductive part: trusted pyvc/z3, Python int = mathematical integers, min()/max() of a non-empty int list by contract, the key set of G.snapshots finite; '
           'temporal_snapshots_ids by its verified contract (C04).')

CLAIMS = {
    'C01': {'level': 'other', 'technique': 'contract-based deductive verification (pyvc: AST symbolic execution -> z3/cvc5 VCs) of add_interaction x2, __presence_test x2, has_interaction x2; bounded stand-in for the bulk helpers',
            'text': 'Every path of the real add_interaction (both classes, t/e present or None) is enumerated from /repo source and the clauses presence_union '
                    '(forall pair, instant), ever, nodes, raises-iff (NetworkXError / ValueError), no-other-exception are discharged with no bound; __presence_test '
                    '(loop invariant over the timeline; the envelope shortcut proved sound from I2) and has_interaction (modular: against the contract of '
                    '__presence_test) are proved to return exactly the presence relation. add_interactions_from / add_path / add_star / add_cycle and the '
                    'whole-history statement are covered by the bounded stand-in, hence level other.',
            'note': KERNEL_NOTE},
    'C02': {'level': 'other', 'technique': 'contract-based deductive verification (pyvc) of DynGraph.interactions_iter (seen de-duplication: each interaction once), DynDiGraph.out_interactions_iter, number_of_interactions(u,v,t) x2, has_interaction x2 (modular, against __presence_test); bounded stand-in for the other entry points',
            'text': 'Proved for all states: the listing generators yield each interaction present at t (ever, for t None) exactly once - undirected: in one orientation, nested loop invariants over the visited set, which the helper dict `seen` is shown to equal; directed out-listing: oriented - with the right third component and without modifying the graph; number_of_interactions(u,v,t) is 1 iff the pair is present at t (ever, for t None) else 0, in both modes, and has_interaction likewise. All ~30 query entry points (methods and dn.* forms, nbunch subsets with an unknown node) are compared with networkx on the static graph '
                    '{(u,v): present at t} for every reachable state of the small scope, every t around the inhabited instants and t=None, both classes, both modes. '
                    'Deviations pinned by the repository tests are listed known findings (D10, D11, D12).',
            'note': KERNEL_NOTE},
    'C03': {'level': 'other', 'technique': 'contract-based deductive verification (pyvc) of add_interaction x2: canonical-timeline invariant I2 + shape I1 as postconditions; bounded stand-in for derived constructors',
            'text': 'I2 (start<=end, transitive separation e_i+1<s_j) and I1 (mirror cells share one edge-data object, distinct pairs own distinct objects) are proved '
                    'preserved on every path of add_interaction for every pair; the graphs produced by time_slice, conversions, readers and node_link_graph are checked '
                    'canonical (and not sharing interval objects with their source) by the bounded stand-in.',
            'note': KERNEL_NOTE},
    'C04': {'level': 'other', 'technique': 'contract-based deductive verification (pyvc) of add_interaction x2 (snapshot index step, range-loop invariant), temporal_snapshots_ids x2, interactions_per_snapshots x2',
            'text': 'Write side: snapshot_ids_step / snapshot_count_step (the counter grows by exactly the newly present instants) and runs_are_snapshot_ids proved for all '
                    'inputs; read side: temporal_snapshots_ids returns the ascending duplicate-free enumeration of dom Cnt, interactions_per_snapshots returns Cnt(t) / 0 '
                    '/ the whole map. "Cnt(t) = number of present interactions" needs the cardinality lemma L1 (assumed); avg_number_of_nodes is bounded only.',
            'note': KERNEL_NOTE + ' Counting lemma L1 (card changes by +-1 when one membership changes) assumed; sorted() and dict() by trusted contract.'},
    'C05': {'level': 'other', 'technique': 'contract-based deductive verification (pyvc) of add_interaction x2: event-log invariant I4 as postcondition; stream_interactions x2 (generator ghost: yield multiset and last yield time)',
            'text': 'I4 (plus only/at every run start, minus only after a run end, runs closed, one orientation, no default entries) proved preserved on every path; the property '
                    'form "runs longer than one instant are closed" proved outside the region of known finding D06; stream_interactions x2 proved to yield every logged event exactly once, in non-decreasing time, without modifying the graph '
                    '(nested loop invariants over the sorted keys and the keys of one instant); the replay-reconstructs-presence statement is a consequence of I4 and is also exercised by the bounded part.',
            'note': KERNEL_NOTE},
    'C06': {'level': 'other', 'technique': 'contract-based deductive verification (pyvc) of time_slice x2, modular: against the contracts of __init__, add_interaction (caller side) and the flattened iterator; bounded stand-in for slice-of-slice and well-formedness',
            'text': 'time_slice is proved for all graphs and all windows: nested loop invariants (visited-pairs ghost set; interval index with "latest run of H ends before the next interval", which discharges the callee precondition "never rejected" and "e > t"), presence of H = window /\\ presence of G for every pair and instant, nodes = endpoints with attributes of G, G unchanged, H written only through the kernel (typestate), ValueError iff t_to < t_from. Also, for every reachable state of the small scope and every window around its instants: class, presence inside the window, nodes = endpoints with attributes, '
                    'source unchanged, slice well formed (C03/C04/C05 oracles on its own presence), slice of slice = intersection, invalid window raises ValueError.',
            'note': KERNEL_NOTE + ' The callee contract of the flattened iterators (interactions_iter() / out_interactions_iter() with t=None) is proved by its own units (contracts/iters.py); its restatement as a bag with an orientation choice is by inspection.'},
    'C07': {'level': 'other', 'technique': 'contract-based deductive verification (pyvc) of add_interaction x2: frame clauses on both exceptional exits; bounded stand-in for bulk helpers and continuations',
            'text': 'On both rejection exits (ValueError, NetworkXError), in both modes, every representation component is proved equal to its pre-value; "legal continuations '
                    'behave as if the call had never been made" then follows from determinism; bulk-helper prefix state and continuations are also exercised by the bounded part.',
            'note': KERNEL_NOTE},
    'C08': {'level': 'other', 'technique': 'contract-based deductive verification (pyvc) of add_interaction x2, __presence_test x2, has_interaction x2 with edge_removal=False; bounded stand-in for the queries',
            'text': 'Accumulative-mode clauses (ever, first appearance kept, snapshot ids = accepted adds, exactly one + per pair at first appearance, no - event, canonical '
                    'timeline) proved on every path of the kernel; __presence_test/has_interaction proved to return s_0 <= t <= max(dom Cnt); the C02-style queries in this '
                    'mode are bounded.',
            'note': KERNEL_NOTE + ' max() and sorted() by trusted contract.'},
    'C09': {'level': 'other', 'technique': 'contract-based deductive verification (pyvc) of generate_snapshots (row multiset; three nested loop invariants, modular against the listing contract); bounded stand-in (real files) for bytes, codecs and the reader',
            'text': 'generate_snapshots is proved to yield exactly one row (u,v,q) per listed interaction and per instant q at which it is present, with the listing orientation (directed: out_interactions), for all graphs with canonical timelines, without modifying the graph; the row string is kept as an injective constructor (trusted codec axiom). Bounded: exact multiset of rows written, orientation, and presence after reading back, over the small scope x targets x delimiters x encodings x id types; '
                    'four-column rows. File system and codecs are outside the reach of a contract.', 'note': KERNEL_NOTE + ' Trusted: delimiter.join(map(make_str, [u,v,t])) as an injective row constructor.'},
    'C10': {'level': 'other', 'technique': 'contract-based deductive verification (pyvc) of generate_interactions (modular, against stream_interactions) and stream_interactions x2; bounded stand-in (real files) for the reader and the round trip',
            'text': 'generate_interactions is proved to yield exactly one row per event of stream_interactions(), in stream order (ghost yield sequence), and stream_interactions to enumerate every logged event once in non-decreasing time. Bounded: rows = stream events in order; presence and stream after the round trip; ~20k well-formed logs fed directly to the reader and compared with the oracle '
                    'meaning of the log. Known finding D06 reported.', 'note': KERNEL_NOTE + ' Trusted: the row string as an injective constructor of (u, v, op, t).'},
    'C11': {'level': 'other', 'technique': 'contract-based deductive verification (pyvc) of node_link_data (links multiset, node entries, directedness; modular against the listing contract); bounded stand-in (real json.dumps/loads) for serialisability and node_link_graph',
            'text': 'node_link_data is proved to record directedness, to list exactly one entry per node (isolated ones included) and exactly one link {source,target,time} per listed interaction and per instant at which it is present, oriented as the listing (directed: out_interactions_iter), without modifying G; node entries (attributes + id) are kept opaque. Bounded: directed flag, nodes incl. isolated ones and attributes, one link per interaction and instant with orientation, rebuilt class/nodes/attributes/presence, '
                    'custom attrs id, directed argument used only when the data does not say.', 'note': KERNEL_NOTE + ' json.dumps/loads, attribute dict contents and node_link_graph are bounded only.'},
    'C12': {'level': 'exploration', 'technique': 'bounded stand-in (clause-by-clause path checker from the property text on all small temporal graphs); side clauses by contract-based deductive verification (pyvc) of the window prefix of temporal_dag',
            'text': DAG + 'Bounded (what decides the property): '
                    'Every returned path of time_respecting_paths / all_time_respecting_paths checked against each clause of the property on all 511 undirected presence '
                    'relations over 3 nodes x 3 instants, directed and shifted variants, string ids, confusable ids / instants (node 1 at instant 11 vs node 11 at instant 1), planted walks, random larger graphs.', 'note': BOUNDED_NOTE + DAGNOTE},
    'C13': {'level': 'exploration', 'technique': 'bounded stand-in (brute-force enumeration); the deductive technique does not decide completeness (external all_simple_paths + protocol-level invariant); side clauses by contract-based deductive verification (pyvc) of the window prefix of temporal_dag',
            'text': DAG + 'Bounded (what decides the property): '
                    'Result compared with a brute-force enumerator written from C12 on the same spaces; empty result when u absent at start; sample<1 subset; '
                    'all_time_respecting_paths against per-source calls. Known finding D19 (self-loop hops).', 'note': BOUNDED_NOTE + DAGNOTE},
    'C14': {'level': 'proof', 'technique': 'contract-based deductive verification (pyvc) of annotate_paths (loop invariant over the processed prefix, modular against path_length / path_duration), path_length, path_duration',
            'text': 'annotate_paths is proved for every non-empty list of non-empty paths: shortest / fastest / foremost list exactly the input paths that minimise hop count / duration / arrival (loop invariant: running minimum attained and a lower bound, the list holds exactly the minimal positions of the prefix), fastest_shortest / shortest_fastest are exactly the best members of shortest / fastest (dict comprehension keyed by content, min over its values, filter), every listed path is an input path, no exception; path_length = hop count and path_duration = last minus first time. A path is abstracted to what the function reads (hop count, first and last time, identity under ==). The bounded part re-checks annotate_paths / path_length / path_duration compared with set comprehensions from the property text over generated path lists.',
            'note': 'Trusted: pyvc itself and z3; copy.copy(p) == p; min() over dict values; dict comprehension keyed by tuple(path) collapses equal contents; list vs tuple representation of a path is not distinguished (sets of paths are compared by content). ' + BOUNDED_NOTE},
    'C15': {'level': 'other', 'technique': 'contract-based deductive verification (pyvc) of the window prefix of temporal_dag (empty case, ValueError iff improper window, ids visited = snapshot ids inside the window by value); bounded stand-in (DAG checker from the property text on all small temporal graphs, all roots/targets/windows) for the DAG structure',
            'text': DAG + 'Bounded: '
                    'Acyclicity, edge soundness, window, sources/targets, ValueError for invalid windows, empty DAG without snapshots; ids not 0-based, negative, with gaps. '
                    'Known finding D19 (self-loop on the root).', 'note': BOUNDED_NOTE + DAGNOTE},
    'C16': {'level': 'other', 'technique': 'contract-based deductive verification (pyvc) of DynGraph.to_directed, modular: against the contracts of the DynDiGraph constructor, add_interaction (caller side) and the flattened iterator; bounded stand-in for to_undirected and isolation',
            'text': 'to_directed is proved for all graphs: result class, node set and node/graph attributes kept, presence of the listed orientation = presence in G for every pair and instant, every add_interaction call site satisfies the callee precondition (t an int - not an aliased interval list -, e > t, never rejected), G unchanged, result written only through contracted operations (typestate). The property clause "both orientations" is known finding D09b. Bounded: class, nodes kept, presence relation per the property (union / reciprocal intersection / both directions), source unchanged, result well formed, deep-copy '
                    'isolation incl. growing a run of the result in place. Known finding D09b (to_directed creates one direction).', 'note': KERNEL_NOTE + ' Trusted models: networkx add_nodes_from(graph) (new-node rows only, per the C19 frame analysis), copy.deepcopy (equal value, no sharing).'},
    'C17': {'level': 'other', 'technique': 'contract-based deductive verification (pyvc) of edge_contribution (loop invariant: running sum of interval lengths); bounded stand-in (exact Fraction recomputation) for the other measures',
            'text': 'edge_contribution(u,v) proved equal to sum_i(e_i - s_i + 1) / |dom Cnt| (0 for a pair that never interacts, no ZeroDivisionError), modularly against has_interaction; with counting lemma L4 (assumed) this is |T_uv|/|T|. All eleven stream-graph measures and the inter-event histograms (global, per node, in/out) recomputed exactly on the small scope. Known finding D24.',
            'note': KERNEL_NOTE + ' Counting lemmas L1 (instance: non-empty set has cardinality >= 1) and L4 assumed; / is real division. Floats are compared with tolerance 1e-9 against exact rationals in the bounded part.'},
    'C18': {'level': 'other', 'technique': 'contract-based deductive verification (pyvc) of compact_timeslot; bounded stand-in (row grammar on real parsers) for the readers',
            'text': 'compact_timeslot proved to be a strictly increasing bijection from the input set onto 0..k-1 for all finite int sets (sorted/enumerate by trusted contract, '
                    'dict comprehension with exact overwrite semantics); noise skipping, delimiters, TypeError, keys=True rank substitution are bounded (string handling is '
                    'outside the encoding).', 'note': KERNEL_NOTE},
    'C19': {'level': 'other', 'technique': 'static frame (write-effect) analysis of every inherited networkx callable from the installed source + AST obligations on /repo; bounded stand-in sweep',
            'text': 'Exhaustive over the installed networkx API: every public callable of DynGraph/DynDiGraph defined in networkx is classified pure / blocked before any adjacency '
                    'write / new-node rows only, anything else fails C19.frame.<name>; each listed mutator is decorated with not_implemented() whose body is a single raise; '
                    'freeze() rebinds every listed mutator to frozen(*args, **kwargs); no function of /repo outside the kernel, its helpers, __init__ and clear writes the edge '
                    'representation. The dynamic sweep (every callable x synthesised arguments x small states) is the bounded part. Known finding D21.',
            'note': 'Trusted: the conservative taint rules of pyvc/frames.py (aliases through local names, .values()/.items(), iteration; a write through an object attribute '
                    'other than self is not seen), inspect.getsource of the installed networkx, the decorator package signature binding. ' + BOUNDED_NOTE},
    'C20': {'level': 'other', 'technique': 'contract-based deductive verification (pyvc) of sliding_delta_conformity, modular against an assumed contract of delta_conformity (four nested loop invariants over a ghost count/value array); bounded stand-in for delta_conformity itself: range over IEEE doubles and the two relabelling invariances (2-safety) are not decidable by contracts here',
            'text': 'sliding_delta_conformity is proved for all graphs of both classes, every delta and both call styles (all arguments / documented defaults): every call of delta_conformity '
                    'passes the caller\'s own dg, delta, alphas, labels, profile_size, hierarchies, path_type and sample (positional or keyword); the result holds, for every alpha key, '
                    'attribute key, node and stamp s, exactly one pair stamped s iff s - delta is a snapshot id with s < last id whose delta_conformity result is not None and has that '
                    'entry, the paired value being that entry; no exception; dg not modified. Not covered by the proof: the order of the pairs inside one list; delta_conformity itself '
                    '(assumed: its result is a function of start for fixed other arguments). Bounded: '
                    'Score range, key set, None for empty window, invariance under label-value and node-id renaming, single-label value, sliding = per-snapshot calls stamped '
                    't+delta, on labelled small DynGraphs (incl. planted walks with mixed labels) for the five path types.', 'note': BOUNDED_NOTE + ' Deductive part: trusted pyvc/z3; tqdm(x) iterates x; list(d.items()) lists each item of a dict once; delta_conformity by ASSUMED contract (not verified); temporal_snapshots_ids by its verified contract (C04).'},
}

NOT_CLAIMED = {}

NOTES = ('Technique family: contract-based deductive verification of the real code. pyvc re-extracts every function from /repo on every run (ast), contracts are sidecar '
         'modules under contracts/ (no hook in /repo). Levels: other = mixed (evidence: obligations/discharged for the proved clauses, bounded[] for the stand-in parts with '
         'their bound); exploration = the property itself is decided by the bounded stand-in only (C12, C13: only the window prefix of temporal_dag is under contract; C13, the numeric part of C20 and the file/codec parts of C09-C11: the technique '
         'cannot decide it; see DESIGN.md). Known findings: known_findings.json (KNOWN-FINDING lines, exit 0). Sub-claims that contract-based verification cannot decide here: '
         'C13 completeness (equality with a brute-force enumeration over an external all_simple_paths), C20 range over floats and relabelling invariances, byte-level / '
         'compressed-file behaviour in C09/C10, json.dumps in C11: bounded only, said so in the evidence.')
