r"""Contract of add_interaction (both classes): C01, C03, C04, C05, C07 (removal mode), C08 (accumulative).

requires  Inv(G)  /\  (e is None \/ e > t)                      [the second conjunct is finding D23]
raises    NetworkXError  iff  t is None
          ValueError     iff  t is not None /\ Ever(u,v) /\ t < LastStart(u,v)
          nothing else; on both, every state component equals its pre-value                    (C07)
ensures   forall x,y,q.  P'(x,y,q) <=> P(x,y,q) \/ (samepair(x,y;u,v) /\ q in Span(t,e))       (C01)
          Ever'(x,y) <=> Ever(x,y) \/ samepair;  N' = N U {u,v}, attributes of old nodes kept   (C01)
          Inv(G'): I1 shape, I2 canonical timelines (C03), I4 event log (C05), I5
          counters: SKey'(q) <=> SKey(q) \/ newly(q);  SCnt'(q) = SCnt(q) + [newly(q)]          (C04)
"""
import z3
from pyvc.sym import (fresh, Node, Int, Bool, Obj, Op, OP_PLUS, OP_MINUS, IntV, b2i, FA, inb, concrete_int)
from pyvc.values import *   # noqa
from pyvc import spec
from pyvc.loops import LoopSpec
from .base import Contract, Call

KAPPA = 1      # snapshots[q] == KAPPA * number of interactions present at q (read side divides by it)


class AddInteraction(Contract):
    props = ('C01', 'C03', 'C04', 'C05', 'C07', 'C08')

    def __init__(self, cls, bound_n=None):
        self.cls = cls
        self.directed = cls == 'DynDiGraph'
        self.mod = 'dyndigraph' if self.directed else 'dyngraph'
        self.key = '%s::%s.add_interaction' % (self.mod, cls)
        self.bound_n = bound_n

    def variants(self):
        out = []
        for mode in ('removal', 'accum'):
            for t in ('int', 'none'):
                for e in ('none', 'int'):
                    out.append({'mode': mode, 't': t, 'e': e})
        # the property's form of I4 ("every run longer than ONE instant is closed") proved from itself
        for e in ('none', 'int'):
            out.append({'mode': 'removal', 't': 'int', 'e': e, 'inv': 'strong'})
        return out

    def region_D06(self, c):
        """a single-instant latest run extended by a point add at the next instant (pinned by the suite)"""
        if c.e is not None or c.t is None:
            return z3.BoolVal(False)
        r, n, S, E = spec.tl(c.pre, c.u, c.v)
        return z3.And(r != 0, S[n - 1] == E[n - 1], c.t == E[n - 1] + 1)

    # ------------------------------------------------------------------ pre-state
    def setup(self, ctx, variant):
        g = HGraph('self', self.directed, self.cls).havoc('0')
        removal = variant['mode'] == 'removal'
        g['ER'] = z3.BoolVal(removal)
        g['Frozen'] = z3.BoolVal(False)
        if self.bound_n is not None:
            g['Len'] = z3.K(Int, IntV(self.bound_n))
        ctx.graphs['self'] = g
        u, v = fresh('u', Node), fresh('v', Node)
        t = fresh('t', Int) if variant['t'] == 'int' else None
        e = fresh('e', Int) if variant['e'] == 'int' else None
        qx, qy, qx2, qy2 = [fresh(n, Node) for n in ('qx', 'qy', 'qx2', 'qy2')]
        qq = fresh('qq', Int)
        qop = fresh('qop', Op)
        view0 = spec.View('pre')
        nodes = [u, v, qx, qy, qx2, qy2]
        pairs = [(u, v), (qx, qy)]
        ctx.feas_skip = {'events', 'link', 'hint'}
        ctx.bounded = self.bound_n is not None
        strong = variant.get('inv') == 'strong'
        if removal:
            spec.inv_assume(ctx, g, view0, nodes, pairs, shape_pairs=[(v, u), (qy, qx), (qx2, qy2)], k=1 if strong else 2)
        else:
            from . import accum
            accum.inv_assume(ctx, g, view0, nodes, pairs, shape_pairs=[(v, u), (qy, qx), (qx2, qy2)])
        if self.bound_n is not None:
            ctx.full_hyps = getattr(self, 'full_hyps', False)
            # refutation mode only: a small closed world (any model is still a model of the unbounded VC)
        if t is not None and e is not None:
            ctx.assume(e > t)                       # D23: e <= t is outside the contract
        pre = g.snapshot()
        if strong and 'D06' in getattr(self, 'excluded_regions', ()):
            ctx.assume(z3.Not(self.region_D06(Call(pre=pre, u=u, v=v, t=t, e=e))))
        argv = [VGraph(g), VNode(u), VNode(v), VInt(t) if t is not None else VNone,
                VInt(e) if e is not None else VNone]
        return Call(g=g, pre=pre, u=u, v=v, t=t, e=e, view0=view0, qx=qx, qy=qy, qx2=qx2, qy2=qy2,
                    qq=qq, qop=qop, argv=argv, kwv={}, variant=variant, removal=removal)

    def loop_specs(self):
        # for idt in range(t[0], t[1] + 1): count the instant in self.snapshots
        def inv(L):
            g, g0 = L.g['self'], L.g0['self']
            q = z3.Int('q?cnt')
            done = z3.And(L.lo <= q, q < L.k)
            return [
                ('keys', FA([q], g['SKey'][q] == z3.Or(g0['SKey'][q], done), [g['SKey'][q]])),
                ('counts', FA([q], z3.Implies(g['SKey'][q], g['SCnt'][q] ==
                                              z3.If(g0['SKey'][q], g0['SCnt'][q], 0) + b2i(done)),
                              [g['SCnt'][q]])),
            ]
        return {'range': LoopSpec(inv, modifies={'self': ['SKey', 'SCnt']})}

    # ------------------------------------------------------------------ exits
    def reject_cond(self, c):
        r"""t is not None /\ Ever(u,v) /\ t < LastStart(u,v) over the pre-state"""
        if c.t is None:
            return z3.BoolVal(False)
        r, n, S, E = spec.tl(c.pre, c.u, c.v)
        return z3.And(r != 0, c.t < S[n - 1])

    def finish(self, ctx, c, outcome):
        g, pre = c.g, c.pre
        T = lambda *ids: tuple(ids)
        if c.variant.get('inv') == 'strong':
            if outcome[0] == 'return' and c.t is not None:
                x, y, q, op = c.qx, c.qy, c.qq, c.qop
                f = spec.events_goals(g, x, y, 1, q, op)['runs_closed']
                ctx.oblige('C05.events.runs_longer_than_one_instant_closed', f, tags=('C05',),
                           use=('shape', 'canon', 'events', 'tte'),
                           note='the property form of I4, proved from itself (outside the region of finding D06 while it is listed)')
            return
        if outcome[0] == 'raise':
            cls = outcome[1]
            if cls == 'NetworkXError':
                ctx.oblige('C01.raises.NetworkXError_only_if_t_missing', z3.BoolVal(c.t is None),
                           kind='raises', tags=T('C01'))
            elif cls == 'ValueError':
                ctx.oblige('C01.raises.ValueError_only_if_span_starts_before_latest_run', self.reject_cond(c),
                           kind='raises', tags=T('C01'))
            else:
                self.forbid(ctx, 'C01.no_other_exception.%s' % cls, tags=T('C01'),
                            note='%s: %s' % (cls, outcome[2]))
                return
            for comp, f in spec.state_unchanged(g, pre).items():
                ctx.oblige('C07.rejected_call_leaves_no_trace.%s' % comp, f, kind='raises', tags=T('C07'))
            return
        # ---- normal return
        if c.t is None:
            self.forbid(ctx, 'C01.raises.missing_t_must_be_rejected', tags=T('C01'))
            return
        ctx.oblige('C01.accepts.unless_span_starts_before_latest_run', z3.Not(self.reject_cond(c)),
                   kind='ensures', tags=T('C01'))
        if outcome[1].kind != 'none':
            ctx.oblige('C01.returns_none', z3.BoolVal(False), tags=T('C01'))
        if c.removal:
            self.post_removal(ctx, c)
        else:
            from . import accum
            accum.post_kernel(self, ctx, c)

    def span(self, c, q):
        t1 = c.e - 1 if c.e is not None else c.t
        return z3.And(c.t <= q, q <= t1)

    def post_removal(self, ctx, c):
        g, pre, v0 = c.g, c.pre, c.view0
        u, v, x, y, x2, y2, q, op = c.u, c.v, c.qx, c.qy, c.qx2, c.qy2, c.qq, c.qop
        same = spec.samepair(g, x, y, u, v)
        # hints: ground instances of the pre-state link at the instants the merge looks at
        r0, n0, S0, E0 = spec.tl(pre, u, v)
        t1 = c.e - 1 if c.e is not None else c.t
        pts = [c.t, c.t - 1, t1, t1 + 1, E0[n0 - 1], E0[n0 - 1] + 1, S0[n0 - 1], q, q - 1]
        for (a, b) in ((u, v), (x, y)):
            ctx.assume(spec.link_hints(pre, v0, a, b, pts), 'hint')
        # C01 presence
        Pexp = lambda qq_: z3.Or(v0.P(x, y)[qq_], z3.And(same, self.span(c, qq_)))

        class _P(object):
            def __getitem__(s, k):
                return Pexp(k)
        for name, f in spec.link_goals(g, _P(), x, y, q).items():
            ctx.oblige('C01.presence_union.' + name, f, tags=('C01', 'C03'), use=('shape', 'canon', 'link', 'hint'))
        ctx.oblige('C01.ever', spec.ever(g, x, y) == z3.Or(spec.ever(pre, x, y), same), tags=('C01',), use=('shape',))
        ctx.oblige('C01.nodes', g['NodeIn'][x] == z3.Or(pre['NodeIn'][x], x == u, x == v), tags=('C01',), use=('shape',))
        ctx.oblige('C01.node_attributes_kept', z3.Implies(pre['NodeIn'][x], g['NAttr'][x] == pre['NAttr'][x]),
                   tags=('C01',), use=('shape',))
        ctx.oblige('C01.new_nodes_have_no_attributes',
                   z3.Implies(z3.And(z3.Not(pre['NodeIn'][x]), g['NodeIn'][x]),
                              g['NAttr'][x] == ctx.engine.empty_attr()), tags=('C01',), use=('shape',))
        # C03 canonical form + I1
        for name, f in spec.canon_goals(g, x, y).items():
            ctx.oblige('C03.canonical.' + name, f, tags=('C03',), use=('shape', 'canon'))
        for name, f in spec.shape_goals(g, x, y, x2, y2).items():
            ctx.oblige('C03.shape.' + name, f, tags=('C03',), use=('shape',))
        # what a later call on the same pair needs to know to be accepted (used by callers through `apply`)
        r1, n1, S1, E1 = spec.tl(g, u, v)
        ctx.oblige('C03.latest_run.end', z3.And(r1 != 0, n1 >= 1, E1[n1 - 1] == z3.If(z3.And(r0 != 0, E0[n0 - 1] > t1), E0[n0 - 1], t1)),
                   tags=('C03', 'C06', 'C16'), use=('shape', 'canon'))
        ctx.oblige('C03.latest_run.starts_no_later_than_t', S1[n1 - 1] <= c.t, tags=('C03', 'C06', 'C16'), use=('shape', 'canon'))
        # C05 event log
        for name, f in spec.events_goals(g, x, y, 2, q, op).items():
            ctx.oblige('C05.events.' + name, f, tags=('C05',), use=('shape', 'canon', 'events', 'tte'))
        for name, f in spec.snapkeys_goals(g, x, y, q).items():
            ctx.oblige('C04.' + name, f, tags=('C04',), use=('shape', 'canon', 'snapkeys'))
        for name, f in spec.tte_goals(g, q).items():
            ctx.oblige('C05.events.' + name, f, tags=('C05',), use=('shape', 'tte'))
        # C04 counters
        newly = z3.And(spec.samepair(g, u, v, u, v), self.span(c, q), z3.Not(v0.P(u, v)[q]))
        ctx.oblige('C04.snapshot_ids_step', g['SKey'][q] == z3.Or(pre['SKey'][q], newly), tags=('C04',), use=('shape', 'canon', 'link', 'hint'))
        ctx.oblige('C04.snapshot_count_step',
                   z3.Implies(g['SKey'][q], g['SCnt'][q] == z3.If(pre['SKey'][q], pre['SCnt'][q], 0) + KAPPA * b2i(newly)),
                   tags=('C04',), use=('shape', 'canon', 'link', 'hint'))
        # frame of the rest
        for comp in ('GAttr', 'ER', 'Frozen'):
            ctx.oblige('C01.frame.' + comp, g[comp] == pre[comp] if not g[comp].eq(pre[comp]) else z3.BoolVal(True),
                       tags=('C01',))

    # ------------------------------------------------------------------ replay on the real code
    def replay(self, engine, desc, args, G=None):
        """Run the REAL add_interaction on a concrete pre-state and evaluate this contract's clauses on the
        observed pre/post states.  Returns {'outcome', 'violated': [clause...], 'pre', 'post'}."""
        from pyvc.concrete import NodeMap, abstract_graph, build_graph, graph_dump, check_concrete
        from pyvc.interp import Ctx
        import dynetx
        G = G if G is not None else build_graph(desc)
        assert G.__class__.__name__ == self.cls
        nm = NodeMap()
        refs = {}
        empty = engine.empty_attr()
        pre = abstract_graph(G, nm, 'self', refs, empty)
        pre_dump = graph_dump(G)
        u, v, t, e = args
        try:
            ret = G.add_interaction(u, v, t, e) if e is not None else G.add_interaction(u, v, t)
            outcome = ('return', VNone if ret is None else VInt(0))
            out_txt = 'return %r' % (ret,)
        except Exception as ex:          # the real exception class is what the clause is about
            outcome = ('raise', ex.__class__.__name__, str(ex))
            out_txt = 'raise %s: %s' % (ex.__class__.__name__, ex)
        post = abstract_graph(G, nm, 'self', refs, empty)
        zu, zv = nm.node(u), nm.node(v)
        other = z3.Const('N!other', Node)
        U = list(nm.n2z.values()) + [other]
        violated = {}
        removal = bool(G.edge_removal)
        for x in U:
            for y in U:
                ctx = Ctx(engine, [])
                view0 = spec.View('pre')
                c = Call(g=post, pre=pre, u=zu, v=zv, t=IntV(t) if t is not None else None,
                         e=IntV(e) if e is not None else None, view0=view0, qx=x, qy=y, qx2=zu, qy2=zv,
                         qq=fresh('qq', Int), qop=fresh('qop', Op), variant={}, removal=removal)
                ctx.assume(nm.distinct([other], empty))
                for (a, b) in {(zu, zv), (x, y)}:
                    ctx.assume(spec.link_h(pre, view0, a, b))
                self.finish(ctx, c, outcome)
                for ob in ctx.obligations:
                    if ob.name in violated:
                        continue
                    bad, m = check_concrete(ob.hyps, ob.goal)
                    if bad:
                        wit = {'x': str(x), 'y': str(y)}
                        try:
                            wit['q'] = str(m.eval(c.qq, model_completion=True))
                        except Exception:
                            pass
                        violated[ob.name] = wit
                if outcome[0] == 'raise':
                    break
            if outcome[0] == 'raise':
                break
        for p in pre.problems + post.problems:
            violated.setdefault('C03.shape.representation: ' + p, {})
        return {'outcome': out_txt, 'violated': violated, 'pre': pre_dump, 'post': graph_dump(G),
                'call': 'add_interaction(%r, %r, %r, %r)' % (u, v, t, e)}

    def pre_state_problems(self, engine, G):
        """is a concrete graph a legal pre-state, i.e. does it satisfy the whole invariant (goal forms of I1, I2,
        I3, I4 weak, I5)?  Counter-models whose pre-state is not legal are discarded, never reported."""
        from pyvc.concrete import NodeMap, abstract_graph, check_concrete
        nm = NodeMap()
        empty = engine.empty_attr()
        g = abstract_graph(G, nm, 'self', {}, empty)
        probs = list(g.problems)
        U = list(nm.n2z.values())
        q, op = fresh('qq', Int), fresh('qop', Op)
        hy = nm.distinct([], empty)
        removal = bool(G.edge_removal)
        for x in U:
            for y in U:
                goals = {}
                goals.update({'shape.' + k: f for k, f in spec.shape_goals(g, x, y, U[0], U[-1]).items()})
                goals.update({'snapkeys.' + k: f for k, f in spec.snapkeys_goals(g, x, y, q).items()})
                goals.update({'tte.' + k: f for k, f in spec.tte_goals(g, q).items()})
                if removal:
                    goals.update({'canon.' + k: f for k, f in spec.canon_goals(g, x, y).items()})
                    goals.update({'events.' + k: f for k, f in spec.events_goals(g, x, y, 2, q, op).items()})
                else:
                    from . import accum
                    goals.update({'events.' + k: f for k, f in accum.events_goals(g, x, y, q, op).items()})
                for k, f in goals.items():
                    bad, _ = check_concrete(hy, f, 5000)
                    if bad:
                        probs.append('%s at (%s,%s)' % (k, x, y))
        # I3 in full (python): snapshot ids are the inhabited instants, counts are exact (removal mode)
        if removal:
            rep = G._succ if G.is_directed() else G._adj
            pres = {}
            seen = set()
            for a, nb in rep.items():
                for b, dd in nb.items():
                    if id(dd) in seen:
                        continue
                    seen.add(id(dd))
                    for iv in dd.get('t', []):
                        for k in range(iv[0], iv[1] + 1):
                            pres[k] = pres.get(k, 0) + 1
            if pres != dict(G.snapshots):
                probs.append('I3: snapshots %r != inhabited instants with counts %r' % (dict(G.snapshots), pres))
        return probs

    def replay_model(self, engine, m, call, n):
        """A counter-model is turned into a HISTORY through the real public API: the model's timelines are
        rebuilt by add_interaction calls on an empty graph (so every state visited is reachable by
        construction), then the model's call is made; the contract's clauses are evaluated on the real pre/post
        states of EVERY call and the first call that violates one is the replayed failing input."""
        from pyvc.concrete import model_to_desc
        import dynetx as dn
        ints = [x for x in (call.t, call.e) if x is not None]
        desc = model_to_desc(m, call.pre, self.cls, n, ints, focus=[call.u, call.v, call.qx, call.qy])
        ids = desc['node_ids']

        def nid(z):
            return ids[str(m.eval(z, model_completion=True))]
        u, v = nid(call.u), nid(call.v)
        t = m.eval(call.t, model_completion=True).as_long() if call.t is not None else None
        e = m.eval(call.e, model_completion=True).as_long() if call.e is not None else None
        removal = desc['edge_removal']
        minus = set((q, a, b) for (q, a, b, op) in desc['events'] if op == '-')
        plus = set((q, a, b) for (q, a, b, op) in desc['events'] if op == '+')
        calls = []
        for (a0, b0, tl) in desc['edges']:
            for (s_, e_) in tl:
                a, b = a0, b0
                if not call.pre.directed and ((s_, b0, a0) in plus or (e_ + 1, b0, a0) in minus):
                    a, b = b0, a0          # the model logged this run under the other endpoint order
                if e_ - s_ > 60 or e_ < s_:
                    raise ValueError('model timeline not usable for a history')
                if not removal:
                    calls += [(a, b, q, None) for q in range(s_, e_ + 1)]
                elif s_ == e_ and not ((e_ + 1, a, b) in minus or (e_ + 1, b, a) in minus):
                    calls.append((a, b, s_, None))
                else:
                    calls.append((a, b, s_, e_ + 1))
        return self.replay_history(engine, removal, calls + [(u, v, t, e)])

    def replay_history(self, engine, removal, calls):
        import dynetx as dn
        G = getattr(dn, self.cls)(edge_removal=removal)
        rep = None
        for k, args in enumerate(calls):
            rep = self.replay(engine, None, tuple(args), G=G)
            if rep['violated']:
                break
        rep['history'] = [list(c) for c in calls[:k]]
        rep['args'] = list(calls[k])
        rep['edge_removal'] = removal
        rep['class'] = self.cls
        rep['calls_in_history'] = len(calls)
        return rep

    # ------------------------------------------------------------------ caller side (modular use)
    def apply(self, interp, g, argv, kwv):
        """What a caller of add_interaction sees: assert the precondition, branch on the documented rejections,
        havoc the graph and assume the postcondition (over the ghost presence view).  Removal mode."""
        ctx = interp.ctx
        names = ['u', 'v', 't', 'e']
        args = dict(zip(names, argv))
        for k_, v_ in kwv.items():
            if k_ not in names or k_ in args:
                raise PyRaise('TypeError', 'add_interaction argument ' + k_)
            args[k_] = v_
        if 'u' not in args or 'v' not in args:
            raise PyRaise('TypeError', 'add_interaction needs u and v')
        u, v = args['u'], args['v']
        t, e = args.get('t', VNone), args.get('e', VNone)
        if u.kind != 'node' or v.kind != 'node':
            raise Undecided('add_interaction called with non-node endpoints')
        if not z3.is_true(g['ER']):
            raise Undecided('caller-side contract of add_interaction is stated for edge_removal=True')
        if not g.valid:
            raise Undecided('add_interaction called on a graph whose representation invariant is not established '
                            '(the caller wrote its edge representation directly)')
        if t.kind == 'none':
            raise PyRaise('NetworkXError', 'The t argument must be specified.')
        if t.kind != 'int':
            # a list (or anything else) as t is outside the contract: the stored interval would alias the argument
            ctx.oblige('pre.add_interaction.t_is_an_int', z3.BoolVal(False), kind='pre',
                       note='t of kind %s passed to add_interaction' % t.kind)
            raise Undecided('add_interaction called with t of kind %s' % t.kind)
        if e.kind not in ('none', 'int'):
            raise Undecided('add_interaction called with e of kind %s' % e.kind)
        if e.kind == 'int':
            ctx.oblige('pre.add_interaction.vanishing_time_after_start', e.z > t.z, kind='pre',
                       note='finding D23: e <= t is outside the contract; callers must establish e > t')
            ctx.assume(e.z > t.z, 'call')
        view0 = ctx.views.get(g.name)
        if view0 is None:
            raise Undecided('no ghost view for graph %s' % g.name)
        uz, vz, tz = u.z, v.z, t.z
        t1 = e.z - 1 if e.kind == 'int' else tz
        ctx.add_focus([uz, vz])
        r, n, S, E = spec.tl(g, uz, vz)
        rejected = z3.And(r != 0, tz < S[n - 1])
        if ctx.branch(rejected, 'add_interaction:rejected'):
            raise PyRaise('ValueError', 'span starts before the start of the latest run (callee contract)')
        old = g.snapshot()
        tag = '@call%d' % len(ctx.hyps)
        keep = ('ER', 'GAttr', 'Frozen')
        g.havoc(tag, only=[c for c in g.comp_names() if c not in keep])
        g.valid = True
        view1 = spec.View(g.name + tag)
        ctx.views[g.name] = view1
        nodes = list(ctx.focus)
        pairs = ctx.inv_pairs() + [(uz, vz), (vz, uz)]
        spec.inv_assume(ctx, g, view1, nodes, pairs, k=2)
        x, y = z3.Consts('x?ap y?ap', Node)
        q = z3.Int('q?ap')
        same = lambda a, b: spec.samepair(g, a, b, uz, vz)
        span = lambda qq: z3.And(tz <= qq, qq <= t1)
        # presence: union with the span, for every pair (quantified, and instantiated for the pairs in focus)
        ctx.assume(FA([x, y, q], view1.Pres[x][y][q] == z3.Or(view0.Pres[x][y][q], z3.And(same(x, y), span(q))), [view1.Pres[x][y][q]]), 'call')
        ctx.assume(FA([x, y, q], z3.Implies(view0.Pres[x][y][q], view1.Pres[x][y][q]), [view0.Pres[x][y][q]]), 'call')
        C0, C1 = old['Cell_' + g.mainw()], g['Cell_' + g.mainw()]
        ctx.assume(FA([x, y], (C1[x][y] != 0) == z3.Or(C0[x][y] != 0, same(x, y)), [C1[x][y]]), 'call')
        ctx.assume(FA([x, y], z3.Implies(C0[x][y] != 0, C1[x][y] != 0), [C0[x][y]]), 'call')
        for (a, b) in pairs:
            ctx.assume((C1[a][b] != 0) == z3.Or(C0[a][b] != 0, same(a, b)), 'call')
        ctx.assume(g['NodeIn'] == z3.Store(z3.Store(old['NodeIn'], uz, True), vz, True), 'call')
        ctx.assume(FA([x], z3.Implies(old['NodeIn'][x], g['NAttr'][x] == old['NAttr'][x]), [g['NAttr'][x]]), 'call')
        ctx.assume(FA([x], z3.Implies(z3.And(z3.Not(old['NodeIn'][x]), g['NodeIn'][x]), g['NAttr'][x] == ctx.engine.empty_attr()), [g['NAttr'][x]]), 'call')
        # the touched pair's timeline end (what later calls need to know to be accepted)
        r1, n1, S1, E1 = spec.tl(g, uz, vz)
        ctx.assume(z3.And(r1 != 0, n1 >= 1, E1[n1 - 1] == z3.If(z3.And(r != 0, E[n - 1] > t1), E[n - 1], t1),
                          S1[n1 - 1] <= tz), 'call')
        return VNone
