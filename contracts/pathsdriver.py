r"""Contracts of the two drivers around temporal_dag (C13; C12 inherits the argument pass-through).

time_respecting_paths(G, u, v, start, end, sample)  -- PREFIX only (up to and including the call of temporal_dag)
  ensures  returns [] before doing anything else  <=>  not has_node(u, start)          ("when u has no interaction at start the result is empty")
           otherwise temporal_dag is called with exactly (G, u, v, start, end)          (call-site obligations; the path ends there:
           the enumeration over all_simple_paths, the string decoding and the ping-pong filter are NOT under contract - bounded stand-in)

all_time_respecting_paths(G, start, end, sample, min_t)   modular against ASSUMED time_respecting_paths and verified nodes(t)
  assumed  time_respecting_paths(G, u, None, start, end, sample) for fixed (G, start, end, sample) is a function TRP(u): empty, or a
           dict whose keys are (u, w) pairs - at most one key per last node w - with values TRP(u)[(u, w)]
  ensures  every call passes the caller's own G, start, end, sample and v=None;
           the result maps (u, w) to a value  <=>  u is a node present at min_t (any node if min_t is None) and TRP(u) has a key ending in w,
           and the value is exactly TRP(u)[(u, w)];   no exception; G not modified
Loops: outer over nodes(t=min_t) (ghost visited set), inner over the items of TRP(u) (ghost visited key set)."""
import z3
from pyvc.sym import fresh, fresh_fun, Node, Int, Bool, Obj, IntV, FA
from pyvc.values import *   # noqa
from pyvc import spec
from pyvc.loops import LoopSpec, VBag
from pyvc.interp import PathEnd
from pyvc.accmodel import TrpWorld, VTrp, VPairMap
from .base import Contract, Call
from .neighbours import HasNode, NodesAt, has_node_symbol

T = ('C13', 'C12')


def _same(got, exp):
    if got is None:
        return False
    if exp.kind == 'graph':
        return got.kind == 'graph' and got.g is exp.g
    if got.kind != exp.kind:
        return False
    if exp.kind in ('int', 'bool', 'opaque', 'node'):
        return got.z == exp.z
    if exp.kind == 'none':
        return True
    return got is exp


def _zb(x):
    return z3.BoolVal(x) if isinstance(x, bool) else x


def _nodes_apply(self, interp, g, argv, kwv):
    """caller side of nodes(t) / nodes_iter(t) (data False): the nodes with an interaction present at t (all nodes for t None), each once"""
    args = dict(zip(['t', 'data'], argv))
    args.update(kwv)
    t, data = args.get('t', VNone), args.get('data', VBool(False))
    if not (data.kind == 'bool' and z3.is_false(data.z)):
        raise Undecided('nodes(data=...) on the caller side')
    if t.kind == 'none':
        return VBag([Node], lambda a: g['NodeIn'][a], lambda a: VNode(a), note='nodes')
    if t.kind != 'int':
        raise Undecided('nodes called with t of kind %s' % t.kind)
    HN = has_node_symbol(interp.ctx, g)
    return VBag([Node], lambda a: HN(a, t.z), lambda a: VNode(a), note='nodes present at t')


NodesAt.apply = _nodes_apply


# ---- time_respecting_paths: prefix ------------------------------------------------------------------------------------------------

class TemporalDagCallSite(Contract):
    """caller side only: the arguments must be the caller's own; the path ends at the call (what follows is not under contract)"""
    props = T
    key = 'paths::temporal_dag'

    def apply(self, interp, g, argv, kwv):
        ctx = interp.ctx
        c = ctx.trpc
        env = interp.bind_args(interp.engine.fn(self.key).fdef, argv, kwv)
        for p, exp in c.expected.items():
            ctx.oblige('C13.paths.temporal_dag_is_called_with_the_callers_own.%s' % p, _zb(_same(env.get(p), exp)), tags=T, kind='call-site')
        for comp, f in spec.state_unchanged(c.g, c.pre).items():
            ctx.oblige('C13.paths.prefix_modifies_nothing.%s' % comp, f, tags=T)
        c.reached_call = True
        raise PathEnd('cut')


class TimeRespectingPathsPrefix(Contract):
    props = T
    key = 'paths::time_respecting_paths'

    def __init__(self, cls, bound_n=None):
        self.cls = cls
        self.directed = cls == 'DynDiGraph'

    def variants(self):
        return [{'start': s, 'v': v} for s in ('none', 'int') for v in ('none', 'node')]

    def uses(self, eng):
        return [HasNode(self.cls), TemporalDagCallSite()]

    def reads(self):
        return [HasNode(self.cls).key]

    def setup(self, ctx, variant):
        g = HGraph('G', self.directed, self.cls).havoc('0')
        g['ER'] = fresh('er', Bool)
        ctx.graphs['G'] = g
        u = fresh('u', Node)
        start = VInt(fresh('start', Int)) if variant['start'] == 'int' else VNone
        end = VOpaque(fresh('end', Obj), 'param')
        v = VNode(fresh('v', Node)) if variant['v'] == 'node' else VNone
        exp = {'G': VGraph(g), 'u': VNode(u), 'v': v, 'start': start, 'end': end}
        c = Call(g=g, pre=g.snapshot(), u=u, start=start, expected=exp, HN=has_node_symbol(ctx, g),
                 argv=[exp['G'], exp['u'], v, start, end, VOpaque(fresh('sample', Obj), 'param')], kwv={})
        ctx.trpc = c
        return c

    def present(self, c):
        return c.pre['NodeIn'][c.u] if c.start.kind == 'none' else c.HN(c.u, c.start.z)

    def body(self, interp, call):
        try:
            return Contract.body(self, interp, call)
        except PathEnd as pe:
            if str(pe) == 'cut' and getattr(call, 'reached_call', False):
                interp.ctx.oblige('C13.paths.goes_on_only_if_u_is_present_at_start', self.present(call), tags=T)
            raise

    def finish(self, ctx, c, outcome):
        if outcome[0] == 'raise':
            return self.forbid(ctx, 'C13.paths.prefix_no_exception.%s' % outcome[1], tags=T, note=outcome[2])
        r = outcome[1]
        ok = r.kind == 'list' and not r.items and not r.esc
        ctx.oblige('C13.paths.returns_early_only_if_u_is_absent_at_start', z3.Not(self.present(c)), tags=T)
        if not ok:
            self.forbid(ctx, 'C13.paths.early_result_is_empty', tags=T, note='result kind %s' % r.kind)
        for comp, f in spec.state_unchanged(c.g, c.pre).items():
            ctx.oblige('C13.paths.prefix_modifies_nothing.%s' % comp, f, tags=T)


# ---- all_time_respecting_paths ----------------------------------------------------------------------------------------------------

class TimeRespectingPathsAssumed(Contract):
    props = T
    key = 'paths::time_respecting_paths'

    def apply(self, interp, g, argv, kwv):
        ctx = interp.ctx
        c = ctx.atp
        env = interp.bind_args(interp.engine.fn(self.key).fdef, argv, kwv)
        for p, exp in c.expected.items():
            ctx.oblige('C13.all_paths.call_passes_its_own_argument.%s' % p, _zb(_same(env.get(p), exp)), tags=T, kind='call-site')
        u = env.get('u')
        if u is None or u.kind != 'node':
            self.forbid(ctx, 'C13.all_paths.call_passes_a_node_as_source', tags=T)
            raise Undecided('source is not a node')
        ctx.notes.append('assumed contract: time_respecting_paths (a function of its source for fixed other arguments; keys are (source, last) pairs; G not modified)')
        w = c.w
        n = fresh('nkeys', Int)
        k = z3.Const('k?tr', Obj)
        ctx.assume(n >= 0, 'call')
        ctx.assume(FA([k], z3.Implies(w.K(u.z, k), n > 0), [w.K(u.z, k)]), 'call')
        wit = fresh('somekey', Obj)
        ctx.assume(z3.Implies(n > 0, w.K(u.z, wit)), 'call')
        return VTrp(w, u.z, n)


class AllTimeRespectingPaths(Contract):
    props = T
    key = 'paths::all_time_respecting_paths'

    def __init__(self, cls, bound_n=None):
        self.cls = cls
        self.directed = cls == 'DynDiGraph'

    def variants(self):
        return [{'min_t': m} for m in ('none', 'int')]

    def uses(self, eng):
        return [NodesAt(self.cls, 'nodes'), TimeRespectingPathsAssumed()]

    def reads(self):
        return [NodesAt(self.cls, 'nodes').key]

    def setup(self, ctx, variant):
        g = HGraph('G', self.directed, self.cls).havoc('0')
        g['ER'] = fresh('er', Bool)
        ctx.graphs['G'] = g
        op = lambda n: VOpaque(fresh(n, Obj), 'param')
        exp = {'G': VGraph(g), 'v': VNone, 'start': op('start'), 'end': op('end'), 'sample': op('sample')}
        min_t = VInt(fresh('min_t', Int)) if variant['min_t'] == 'int' else VNone
        w = TrpWorld()
        ctx.trpworld = w
        a, k = z3.Const('a?kw', Node), z3.Const('k?kw', Obj)
        ctx.assume(FA([a, k], z3.Implies(w.K(a, k), w.keyof(a, w.last(k)) == k), [w.K(a, k)]))        # assumed: one key per last node
        HN = has_node_symbol(ctx, g)
        src = (lambda x: g['NodeIn'][x]) if min_t.kind == 'none' else (lambda x: HN(x, min_t.z))
        c = Call(g=g, pre=g.snapshot(), expected=exp, w=w, src=src, qa=fresh('qa', Node), qb=fresh('qb', Node),
                 argv=[exp['G'], exp['start'], exp['end'], exp['sample'], min_t], kwv={})
        ctx.atp = c

        def override(name, v, tag):
            if v.kind == 'dict' and not v.pairs and not v.esc and getattr(v, 'symset', None) is None:
                return VPairMap().havoc(tag)
            return None
        ctx.havoc_override = override
        return c

    def loop_specs(self):
        a, b = z3.Consts('a?ap b?ap', Node)

        def maps(L):
            def pm(env):
                vs = [v for v in env.values() if getattr(v, 'kind', None) == 'pairmap']
                if vs:
                    return vs[0]
                ds = [v for v in env.values() if getattr(v, 'kind', None) == 'dict' and not v.pairs]
                if len(ds) != 1:
                    raise Undecided('expected one result dict among the locals')
                return VPairMap(val=L.ctx.atp.val0)
            return pm(L.env), pm(L.env0)

        def values_inv(L, m):
            w = L.ctx.atp.w
            return ('every_stored_value_is_the_per_source_value',
                    FA([a, b], z3.Implies(m.has[a][b], m.val[a][b] == w.pv(a, w.keyof(a, b))), [m.val[a][b]]))

        def outer(L):
            c = L.ctx.atp
            if not hasattr(c, 'val0'):
                c.val0 = fresh('val0', z3.ArraySort(Node, z3.ArraySort(Node, Obj)))
            m, _ = maps(L)
            return [('pairs_of_the_visited_sources', FA([a, b], m.has[a][b] == z3.And(L.vis(a), c.w.E(a, b)), [m.has[a][b]])), values_inv(L, m)]

        def inner(L):
            c = L.ctx.atp
            m, m0 = maps(L)
            u = L.otv(0).z
            w = c.w
            return [('pairs_of_the_visited_keys',
                     FA([a, b], m.has[a][b] == z3.Or(m0.has[a][b], z3.And(a == u, L.vis(w.keyof(u, b)), w.last(w.keyof(u, b)) == b)), [m.has[a][b]])),
                    values_inv(L, m)]
        return {'bag/1': LoopSpec(outer, modifies={}, tags=T), 'bag/2': LoopSpec(inner, modifies={}, tags=T)}

    def finish(self, ctx, c, outcome):
        if outcome[0] == 'raise':
            return self.forbid(ctx, 'C13.all_paths.no_exception.%s' % outcome[1], tags=T, note=outcome[2])
        r = outcome[1]
        if r.kind != 'pairmap':
            return self.shape(ctx, 'C13.all_paths.returns_the_collected_dict', tags=T, note='result kind %s' % r.kind)
        a, b = c.qa, c.qb
        ctx.oblige('C13.all_paths.keys_are_the_pairs_of_the_sources_present_at_min_t', r.has[a][b] == z3.And(c.src(a), c.w.E(a, b)), tags=T)
        ctx.oblige('C13.all_paths.value_is_the_per_source_result', z3.Implies(r.has[a][b], r.val[a][b] == c.w.pv(a, c.w.keyof(a, b))), tags=T)
        for comp, f in spec.state_unchanged(c.g, c.pre).items():
            ctx.oblige('C13.all_paths.modifies_nothing.%s' % comp, f, tags=T)


# ---- bounded search on the real code with recording stubs (triage) ------------------------------------------------------------------

def _graph(cls, cells):
    import dynetx as dn
    G = getattr(dn, cls)()
    for (a, b, q) in cells:
        G.add_interaction(a, b, q)
    return G


def run_all_paths_case(cls, cells, min_t):
    """the real all_time_respecting_paths with time_respecting_paths replaced by a recording stub"""
    from dynetx.algorithms import paths as P
    G = _graph(cls, [tuple(c) for c in cells])
    nodes = list(G.nodes())

    def stub(G_, u, v=None, start=None, end=None, sample=1):
        rec = repr((G_ is G, v, start, end, sample))
        if u == nodes[0]:
            return []
        return {(u, w): [('value of', u, w, rec)] for w in nodes if w != u}
    want = repr((True, None, 's', 'e', 0.5))
    src = nodes if min_t is None else [a for a in nodes if G.has_node(a, min_t)]
    exp = {(u, w): [('value of', u, w, want)] for u in src if u != nodes[0] for w in nodes if w != u}
    real = P.time_respecting_paths
    P.time_respecting_paths = stub
    import contextlib
    import io
    try:
        try:
            with contextlib.redirect_stderr(io.StringIO()):          # (tqdm progress bars)
                res = P.all_time_respecting_paths(G, 's', 'e', 0.5, min_t)
        except Exception as ex:
            return {'C13.all_paths.no_exception.%s' % type(ex).__name__: repr(ex)}
    finally:
        P.time_respecting_paths = real
    out = {}
    if dict(res) != exp:
        recs = set(x[0][3] for x in dict(res).values() if x and len(x[0]) == 4)
        bad = sorted(recs - {want})
        if bad:
            names = ('G', 'v', 'start', 'end', 'sample')
            for i, (x, y) in enumerate(zip(eval(bad[0]), eval(want))):
                if x != y:
                    out['C13.all_paths.call_passes_its_own_argument.%s' % names[i]] = 'time_respecting_paths received %s, expected %s' % (bad[0], want)
        if set(dict(res)) != set(exp):
            out['C13.all_paths.keys_are_the_pairs_of_the_sources_present_at_min_t'] = 'keys %r, expected %r (min_t=%r)' % (sorted(dict(res)), sorted(exp), min_t)
        elif not out:
            out['C13.all_paths.value_is_the_per_source_result'] = 'result %r, expected %r' % (dict(res), exp)
    return out


def run_prefix_case(cls, cells, u, v, start, end):
    """the real time_respecting_paths with temporal_dag replaced by a stub that records its arguments and stops the call"""
    from dynetx.algorithms import paths as P
    G = _graph(cls, [tuple(c) for c in cells])

    class Stop(Exception):
        pass
    seen = []

    def stub(G_, u_, v=None, start=None, end=None):
        seen.append((G_ is G, u_, v, start, end))
        raise Stop()
    real = P.temporal_dag
    P.temporal_dag = stub
    out = {}
    try:
        try:
            res = P.time_respecting_paths(G, u, v, start, end)
        except Stop:
            res = Stop
        except Exception as ex:
            return {'C13.paths.prefix_no_exception.%s' % type(ex).__name__: repr(ex)}
    finally:
        P.temporal_dag = real
    present = G.has_node(u, start)
    if res is Stop:
        if not present:
            out['C13.paths.goes_on_only_if_u_is_present_at_start'] = 'u=%r is absent at start=%r but temporal_dag was called' % (u, start)
        for i, nme in enumerate(('G', 'u', 'v', 'start', 'end')):
            if seen[0][i] != (True, u, v, start, end)[i]:
                out['C13.paths.temporal_dag_is_called_with_the_callers_own.%s' % nme] = 'temporal_dag received %r' % (seen[0],)
    else:
        if present:
            out['C13.paths.returns_early_only_if_u_is_absent_at_start'] = 'u=%r is present at start=%r but %r was returned without building the DAG' % (u, start, res)
        elif res != []:
            out['C13.paths.early_result_is_empty'] = repr(res)
    return out


CASES = ([(1, 2, 0)], [(1, 2, 0), (2, 3, 1)], [(1, 2, 1), (2, 3, 1), (3, 1, 2)], [(1, 2, 0), (3, 4, 2), (2, 3, 5)])


def _search_all(self, engine):
    for cells in CASES:
        for min_t in (None, 0, 1, 2, 3, 5):
            v = run_all_paths_case(self.cls, cells, min_t)
            if v:
                return {'violated': v, 'call': 'all_time_respecting_paths(G, "s", "e", 0.5, %r) on a %s with interactions %r; time_respecting_paths replaced by a recording stub' % (min_t, self.cls, cells),
                        'replayer': {'module': 'contracts.pathsdriver', 'function': 'run_all_paths_case', 'args': [self.cls, [list(c) for c in cells], min_t]}}
    return None


def _search_prefix(self, engine):
    for cells in CASES:
        for u in (1, 2, 3, 9):
            for start in (None, 0, 1, 2, 5):
                for (v, end) in ((None, None), (2, 7)):
                    viol = run_prefix_case(self.cls, cells, u, v, start, end)
                    if viol:
                        return {'violated': viol, 'call': 'time_respecting_paths(G, %r, %r, %r, %r) on a %s with interactions %r; temporal_dag replaced by a recording stub' % (u, v, start, end, self.cls, cells),
                                'replayer': {'module': 'contracts.pathsdriver', 'function': 'run_prefix_case', 'args': [self.cls, [list(c) for c in cells], u, v, start, end]}}
    return None


AllTimeRespectingPaths.search_real = _search_all
TimeRespectingPathsPrefix.search_real = _search_prefix
