r"""Contracts of the presence observers: __presence_test x2, has_interaction x2 (C01, C08).

__presence_test(u,v,t)   requires Inv(G) /\ t:int /\ (DynGraph: Ever(u,v); DynDiGraph: u has an adjacency row)
                         ensures  result <=> P(G,u,v,t)          removal: exists i. s_i <= t <= e_i
                                                                 accumulative: s_0 <= t <= max(dom Cnt)
                         modifies nothing; no exception
has_interaction(u,v,t)   requires Inv(G) /\ (t:int \/ t is None)     -- any nodes, known or not
                         ensures  result <=> (t is None ? Ever(u,v) : Ever(u,v) /\ P(G,u,v,t));  modifies nothing
The envelope shortcut `spans[0][0] <= t <= spans[-1][1]` is sound only under I2 (canonical timelines): that is
why C03 is a precondition here and a postcondition of every mutator."""
import z3
from pyvc.sym import fresh, Node, Int, Bool, Op, IntV, FA, inb, EX_idx, FA_idx
from pyvc.values import *   # noqa
from pyvc import spec
from pyvc.loops import LoopSpec
from .base import Contract, Call


def presence_formula(g, a, b, t, removal, maxsnap=None):
    r, n, S, E = spec.tl(g, a, b)
    if removal:
        return z3.And(r != 0, EX_idx(n, lambda i: z3.And(S[i] <= t, t <= E[i])))
    return z3.And(r != 0, S[0] <= t, t <= maxsnap)


def maxsnap_of(ctx, g):
    """ghost: the largest snapshot id of g (one constant per graph state; vacuous when there is no snapshot)"""
    key = ('maxsnap', g.name, g['SKey'].get_id())
    cache = ctx.__dict__.setdefault('_maxsnap', {})
    if key not in cache:
        m = fresh('maxsnap', Int)
        q = z3.Int('q?mx')
        SK = g['SKey']
        ctx.assume(FA([q], z3.Implies(SK[q], z3.And(SK[m], q <= m)), [SK[q]]))
        cache[key] = m
    return cache[key]


class _Observer(Contract):
    def __init__(self, cls, bound_n=None):
        self.cls = cls
        self.directed = cls == 'DynDiGraph'
        self.mod = 'dyndigraph' if self.directed else 'dyngraph'
        self.bound_n = bound_n

    def variants(self):
        return [{'mode': m} for m in ('removal', 'accum')]

    def base_setup(self, ctx, variant):
        g = HGraph('self', self.directed, self.cls).havoc('0')
        removal = variant['mode'] == 'removal'
        g['ER'] = z3.BoolVal(removal)
        if self.bound_n is not None:
            g['Len'] = z3.K(Int, IntV(self.bound_n))
        ctx.graphs['self'] = g
        ctx.bounded = self.bound_n is not None
        u, v, t = fresh('u', Node), fresh('v', Node), fresh('t', Int)
        view0 = spec.View('pre')
        ctx.feas_skip = {'events', 'link'}
        if removal:
            spec.inv_assume(ctx, g, view0, [u, v], [(u, v)], shape_pairs=[(v, u)], k=2)
        else:
            from . import accum
            accum.inv_assume(ctx, g, view0, [u, v], [(u, v)], shape_pairs=[(v, u)])
        return Call(g=g, pre=g.snapshot(), u=u, v=v, t=t, view0=view0, removal=removal, variant=variant, kwv={})

    def maxsnap_facts(self, ctx, c):
        """ghost: the largest snapshot id (exists because Ever(u,v) makes s_0 a snapshot id, I3 key half)"""
        m = fresh('maxsnap', Int)
        q = z3.Int('q?ms')
        return m, [c.pre['SKey'][m], FA([q], z3.Implies(c.pre['SKey'][q], q <= m), [c.pre['SKey'][q]])]

    def unchanged(self, ctx, c, tags):
        for comp, f in spec.state_unchanged(c.g, c.pre).items():
            ctx.oblige('%s.observer_modifies_nothing.%s' % (tags[0], comp), f, tags=tags)

    def loop_specs(self):
        def inv(L):
            g = L.g['self']
            t = L.env['t'].z                 # parameter
            spans = L.iterable               # the timeline being scanned
            S, E = g['S'][spans.r], g['E'][spans.r]
            return [('no_earlier_interval_covers_t', FA_idx(L.k, lambda j: z3.Not(z3.And(S[j] <= t, t <= E[j])),
                                                            pattern=lambda j: [S[j]]))]
        return {'timeline/1': LoopSpec(inv, modifies={})}


class PresenceTest(_Observer):
    props = ('C01', 'C08')

    def __init__(self, cls, bound_n=None):
        _Observer.__init__(self, cls, bound_n)
        self.key = '%s::%s.__presence_test' % (self.mod, cls)

    def setup(self, ctx, variant):
        c = self.base_setup(ctx, variant)
        g = c.g
        if self.directed:
            ctx.assume(g['Row_succ'][c.u])          # callers index self._succ[u] before (has_interaction, iterators)
        else:
            ctx.assume(spec.ever(g, c.u, c.v))
        c.argv = [VGraph(g), VNode(c.u), VNode(c.v), VInt(c.t)]
        return c

    def finish(self, ctx, c, outcome):
        tags = ('C08',) if not c.removal else ('C01',)
        if outcome[0] == 'raise':
            self.forbid(ctx, '%s.presence_test.no_exception.%s' % (tags[0], outcome[1]), tags=tags, note=outcome[2])
            return
        res = outcome[1]
        if res.kind != 'bool':
            self.shape(ctx, '%s.presence_test.returns_bool' % tags[0], tags=tags)
            return
        if c.removal:
            P = presence_formula(c.pre, c.u, c.v, c.t, True)
        else:
            m, facts = self.maxsnap_facts(ctx, c)
            ctx.assume(z3.Implies(spec.ever(c.pre, c.u, c.v), z3.And(*facts)))
            P = presence_formula(c.pre, c.u, c.v, c.t, False, m)
        ctx.oblige('%s.presence_test.true_only_if_present' % tags[0], z3.Implies(res.z, P), tags=tags)
        ctx.oblige('%s.presence_test.true_if_present' % tags[0], z3.Implies(P, res.z), tags=tags)
        self.unchanged(ctx, c, tags)

    def apply(self, interp, g, argv, kwv):
        """caller side: result <=> P, nothing modified (removal mode; accumulative mode via the ghost maximum)"""
        ctx = interp.ctx
        u, v, t = argv
        if t.kind != 'int' or u.kind != 'node' or v.kind != 'node':
            raise Undecided('__presence_test called with non-(node,node,int) arguments')
        removal = z3.is_true(g['ER'])
        if not removal and not z3.is_false(g['ER']):
            raise Undecided('edge_removal not fixed at a __presence_test call')
        if g.directed:
            ctx.oblige('pre.__presence_test.row_exists', g['Row_succ'][u.z], kind='pre')
        else:
            ctx.oblige('pre.__presence_test.pair_exists', spec.ever(g, u.z, v.z), kind='pre')
        return VBool(self.apply_formula(interp, g, u, v, t))

    def apply_formula(self, interp, g, u, v, t):
        ctx = interp.ctx
        removal = z3.is_true(g['ER'])
        r, n, S, E = spec.tl(g, u.z, v.z)
        if getattr(interp, 'pure_calls', False):
            # closed form (used while an expression is evaluated for a GENERIC element): the contract's right-hand side itself
            if removal:
                return presence_formula(g, u.z, v.z, t.z, True)
            return presence_formula(g, u.z, v.z, t.z, False, maxsnap_of(ctx, g))
        b = fresh('present', Bool)
        if removal:
            w = fresh('w', Int)
            i = z3.Int('i?pt')
            ctx.assume(z3.Implies(b, z3.And(r != 0, inb(w, n), S[w] <= t.z, t.z <= E[w])), 'call')
            ctx.assume(z3.Implies(r != 0, FA_idx(n, lambda i_: z3.Implies(z3.And(S[i_] <= t.z, t.z <= E[i_]), b),
                                                 pattern=lambda i_: [S[i_]])), 'call')
        else:
            m = fresh('maxsnap', Int)
            q = z3.Int('q?ms')
            ctx.assume(z3.Implies(r != 0, z3.And(g['SKey'][m], FA([q], z3.Implies(g['SKey'][q], q <= m), [g['SKey'][q]]))), 'call')
            ctx.assume(b == z3.And(r != 0, S[0] <= t.z, t.z <= m), 'call')
        return b


class HasInteraction(_Observer):
    props = ('C01', 'C08')

    def __init__(self, cls, bound_n=None):
        _Observer.__init__(self, cls, bound_n)
        self.key = '%s::%s.has_interaction' % (self.mod, cls)

    def variants(self):
        return [{'mode': m, 't': t} for m in ('removal', 'accum') for t in ('int', 'none')]

    def uses(self, eng):
        return [PresenceTest(self.cls)]

    def reads(self):
        return [PresenceTest(self.cls).key]

    def setup(self, ctx, variant):
        c = self.base_setup(ctx, variant)
        c.tnone = variant['t'] == 'none'
        c.argv = [VGraph(c.g), VNode(c.u), VNode(c.v), VNone if c.tnone else VInt(c.t)]
        return c

    def apply(self, interp, g, argv, kwv):
        """caller side: result <=> (t is None ? Ever(u,v) : P(G,u,v,t)); nothing modified"""
        args = dict(zip(['u', 'v', 't'], argv))
        args.update(kwv)
        u, v, t = args['u'], args['v'], args.get('t', VNone)
        if u.kind != 'node' or v.kind != 'node':
            raise Undecided('has_interaction with non-node arguments')
        if t.kind == 'none':
            return VBool(spec.ever(g, u.z, v.z))
        b = PresenceTest(self.cls).apply_formula(interp, g, u, v, t)
        return VBool(z3.And(spec.ever(g, u.z, v.z), b))

    def finish(self, ctx, c, outcome):
        tags = ('C08',) if not c.removal else ('C01',)
        if outcome[0] == 'raise':
            self.forbid(ctx, '%s.has_interaction.no_exception.%s' % (tags[0], outcome[1]), tags=tags, note=outcome[2])
            return
        res = outcome[1]
        if res.kind != 'bool':
            self.shape(ctx, '%s.has_interaction.returns_bool' % tags[0], tags=tags)
            return
        if c.tnone:
            P = spec.ever(c.pre, c.u, c.v)
        elif c.removal:
            P = presence_formula(c.pre, c.u, c.v, c.t, True)
        else:
            m, facts = self.maxsnap_facts(ctx, c)
            ctx.assume(z3.Implies(spec.ever(c.pre, c.u, c.v), z3.And(*facts)))
            P = presence_formula(c.pre, c.u, c.v, c.t, False, m)
        ctx.oblige('%s.has_interaction.true_only_if_present' % tags[0], z3.Implies(res.z, P), tags=tags)
        ctx.oblige('%s.has_interaction.true_if_present' % tags[0], z3.Implies(P, res.z), tags=tags)
        self.unchanged(ctx, c, tags)


def _history_from_desc(desc, directed):
    removal = desc['edge_removal']
    minus = set((q, a, b) for (q, a, b, op) in desc['events'] if op == '-')
    calls = []
    for (a, b, tl) in desc['edges']:
        for (s_, e_) in tl:
            if e_ - s_ > 60 or e_ < s_:
                raise ValueError('model timeline not usable for a history')
            if not removal:
                calls += [(a, b, q, None) for q in range(s_, e_ + 1)]
            elif s_ == e_ and not ((e_ + 1, a, b) in minus or (e_ + 1, b, a) in minus):
                calls.append((a, b, s_, None))
            else:
                calls.append((a, b, s_, e_ + 1))
    return calls


def _observer_replay_model(self, engine, m, call, n):
    """counter-model -> history through the real API -> call the REAL observer -> compare with the definition of
    presence evaluated on the real graph's own timeline"""
    from pyvc.concrete import model_to_desc
    import dynetx as dn
    desc = model_to_desc(m, call.pre, self.cls, n, [call.t], focus=[call.u, call.v])
    ids = desc['node_ids']

    def nid(z):
        return ids[str(m.eval(z, model_completion=True))]
    u, v = nid(call.u), nid(call.v)
    t = None if getattr(call, 'tnone', False) else m.eval(call.t, model_completion=True).as_long()
    calls = _history_from_desc(desc, self.directed)
    G = getattr(dn, self.cls)(edge_removal=desc['edge_removal'])
    for c in calls:
        G.add_interaction(c[0], c[1], c[2], c[3]) if c[3] is not None else G.add_interaction(c[0], c[1], c[2])
    rep = {'history': [list(c) for c in calls], 'class': self.cls, 'edge_removal': desc['edge_removal'], 'args': [u, v, t],
           'violated': {}, 'call': '%s(%r, %r, %r)' % (self.key.split('.')[-1], u, v, t)}
    adj = G._succ if self.directed else G._adj
    tl = adj.get(u, {}).get(v, {}).get('t')
    if t is None:
        exp = tl is not None
    elif desc['edge_removal']:
        exp = tl is not None and any(s_ <= t <= e_ for s_, e_ in tl)
    else:
        exp = tl is not None and bool(G.snapshots) and tl[0][0] <= t <= max(G.snapshots)
    try:
        if self.key.endswith('has_interaction'):
            got = G.has_interaction(u, v, t) if t is not None else G.has_interaction(u, v)
        else:
            if tl is None and not self.directed:
                return rep      # outside the precondition
            if self.directed and u not in adj:
                return rep
            got = getattr(G, '_%s__presence_test' % self.cls)(u, v, t)
        rep['outcome'] = 'return %r' % (got,)
        if bool(got) != bool(exp):
            rep['violated'][call_clause(self, got, desc['edge_removal'])] = {'expected': exp, 'timeline': tl}
    except Exception as ex:
        rep['outcome'] = 'raise %r' % (ex,)
        rep['violated']['%s.no_exception' % ('C01' if desc['edge_removal'] else 'C08')] = {'exception': repr(ex)}
    return rep


def call_clause(self, got, removal=True):
    p = 'C01' if removal else 'C08'
    name = 'has_interaction' if self.key.endswith('has_interaction') else 'presence_test'
    return '%s.%s.%s' % (p, name, 'true_only_if_present' if got else 'true_if_present')


_Observer.replay_model = _observer_replay_model


class NumberOfInteractionsPair(_Observer):
    r"""number_of_interactions(u, v, t) (C02): requires Inv(G), u a node of G, v any node, t:int|None
    ensures result = 1 if (t is None ? Ever(u,v) : P(G,u,v,t)) else 0; modifies nothing"""
    props = ('C02', 'C08')

    def __init__(self, cls, bound_n=None):
        _Observer.__init__(self, cls, bound_n)
        self.key = '%s::%s.number_of_interactions' % (self.mod, cls)

    def variants(self):
        return [{'mode': m, 't': t} for m in ('removal', 'accum') for t in ('int', 'none')]

    def uses(self, eng):
        return [PresenceTest(self.cls)]

    def reads(self):
        return [PresenceTest(self.cls).key]

    def setup(self, ctx, variant):
        c = self.base_setup(ctx, variant)
        c.tnone = variant['t'] == 'none'
        ctx.assume(c.g['NodeIn'][c.u])
        c.argv = [VGraph(c.g), VNode(c.u), VNode(c.v), VNone if c.tnone else VInt(c.t)]
        return c

    def finish(self, ctx, c, outcome):
        tags = ('C02',) if c.removal else ('C02', 'C08')
        if outcome[0] == 'raise':
            self.forbid(ctx, 'C02.number_of_interactions_pair.no_exception.%s' % outcome[1], tags=tags, note=outcome[2])
            return
        res = outcome[1]
        if res.kind != 'int':
            self.shape(ctx, 'C02.number_of_interactions_pair.returns_an_int', tags=tags, note='result kind %s' % res.kind)
            return
        if c.tnone:
            P = spec.ever(c.pre, c.u, c.v)
        elif c.removal:
            P = presence_formula(c.pre, c.u, c.v, c.t, True)
        else:
            m, facts = self.maxsnap_facts(ctx, c)
            ctx.assume(z3.Implies(spec.ever(c.pre, c.u, c.v), z3.And(*facts)))
            P = presence_formula(c.pre, c.u, c.v, c.t, False, m)
        ctx.oblige('C02.number_of_interactions_pair.one_if_present', z3.Implies(P, res.z == 1), tags=tags)
        ctx.oblige('C02.number_of_interactions_pair.zero_if_absent', z3.Implies(z3.Not(P), res.z == 0), tags=tags)
        self.unchanged(ctx, c, ('C02',))
