r"""Contract of time_slice x2 (C06), verified modularly: the body is checked against the CONTRACTS of the constructor,
of add_interaction and of the flattened iterator - never against their bodies.

time_slice(t_from, t_to=None)      W := [t_from, t_to if given else t_from]
requires  Inv(G), edge_removal, t_from:int, t_to:int|None
raises    ValueError  iff  t_to is not None /\ t_to < t_from;   nothing else
ensures   H has G's class;  forall x,y,q.  P(H,x,y,q) <=> q in W /\ P(G,x,y,q)                      (C06.presence)
          N(H) = endpoints of H's interactions; attributes of H's nodes = G's                       (C06.nodes)
          every component of G unchanged                                                            (C06.frame)
          Inv(H): H's edge representation is written only through add_interaction on a graph
          fresh from the constructor (typestate `valid`), so I1..I5 hold by the callee contracts    (C03.built_via_kernel)

Outer loop (over the pairs the iterator yields, ghost visited set Vis):
    forall a,b,q. P(H,a,b,q) <=> visited(a,b) /\ q in W /\ P(G,a,b,q);   unvisited pairs have no cell in H;
    every node of H is an endpoint of one of H's cells.
Inner loop (over the interval index k of the current pair (u,v)):
    P(H,u,v,q) <=> q in W /\ P(G,u,v,q) /\ k >= 1 /\ q <= e_{k-1};  other pairs as at loop entry;
    Ever(H,u,v) => k >= 1 /\ lastend(H,u,v) <= e_{k-1}      -- what makes the callee accept the next clipped interval
The exclusive-end convention of the callee (e = end + 1) is fixed by these clauses."""
import z3
from pyvc.sym import fresh, fresh_fun, Node, Int, Bool, IntV, FA, inb
from pyvc.values import *   # noqa
from pyvc import spec
from pyvc.loops import LoopSpec, VBag
from .base import Contract, Call
from .kernel import AddInteraction
from .ctor import Init


class FlatIter(Contract):
    """Caller-side form of the contract of the flattened iterators with t=None, PROVED in contracts/iters.py
    (InteractionsIter / OutInteractionsIter): DynGraph.interactions_iter(): each unordered pair that ever interacted
    exactly once, in one of its two orientations, with its edge data; DynDiGraph.out_interactions_iter(): each stored
    edge once, oriented.  The restatement of the proved multiplicity form Y(a,b) + Y(b,a) = [Ever(a,b)] as a bag with an
    orientation choice ori(a,b) := (Y(a,b) = 1) is by inspection."""

    def __init__(self, cls):
        self.cls = cls
        self.directed = cls == 'DynDiGraph'
        self.key = ('dyndigraph::DynDiGraph.out_interactions_iter' if self.directed else 'dyngraph::DynGraph.interactions_iter')

    def apply(self, interp, g, argv, kwv):
        ctx = interp.ctx
        if any(a.kind != 'none' for a in argv) or any(v.kind != 'none' for v in kwv.values()):
            raise Undecided('flattened iterator called with nbunch / t')
        C = g['Cell_' + g.mainw()]
        if self.directed:
            member = lambda a, b: C[a][b] != 0
        else:
            ori = fresh_fun('ori', Node, Node, Bool)
            a_, b_ = z3.Consts('a?ori b?ori', Node)
            ctx.assume(FA([a_, b_], z3.Implies(a_ != b_, ori(a_, b_) != ori(b_, a_)), [ori(a_, b_)]), 'call')
            member = lambda a, b: z3.And(C[a][b] != 0, z3.Or(a == b, ori(a, b)))
            self.ori = ori
        ctx.notes.append('callee contract %s (proved in contracts/iters.py)' % self.key)
        return VBag([Node, Node], member, lambda a, b: VTuple([VNode(a), VNode(b), VEdgeData(g, C[a][b])]), note=self.key)


class TimeSlice(Contract):
    props = ('C06', 'C03')

    def __init__(self, cls, bound_n=None):
        self.cls = cls
        self.directed = cls == 'DynDiGraph'
        self.mod = 'dyndigraph' if self.directed else 'dyngraph'
        self.key = '%s::%s.time_slice' % (self.mod, cls)
        self.flat = FlatIter(cls)

    def variants(self):
        return [{'t_to': 'int'}, {'t_to': 'none'}]

    def uses(self, eng):
        return [Init(self.cls), AddInteraction(self.cls), self.flat]

    def reads(self):
        return [Init(self.cls).key, AddInteraction(self.cls).key, self.flat.key]

    # ------------------------------------------------------------------ pre-state
    def setup(self, ctx, variant):
        g = HGraph('self', self.directed, self.cls).havoc('0')
        g['ER'] = z3.BoolVal(True)
        g['Frozen'] = z3.BoolVal(False)
        g.valid = True
        ctx.graphs['self'] = g
        vG = spec.View('G')
        ctx.views['self'] = vG
        qx, qy, qz = fresh('qx', Node), fresh('qy', Node), fresh('qz', Node)
        qq = fresh('qq', Int)
        ctx.focus = [qx, qy]
        ctx.inv_cats = ('shape', 'canon', 'link')      # what the caller-side proof of C06 needs of Inv
        ctx.feas_skip = {'events', 'snapkeys', 'tte'}
        spec.inv_assume(ctx, g, vG, [qx, qy], [(qx, qy), (qy, qx)], k=2)

        def on_havoc(gname, tag, comps=None):
            h = ctx.graphs[gname]
            if comps is not None and not any(c.startswith('Cell_') or c in ('S', 'E', 'Len', 'HasT') for c in comps):
                return                  # timelines untouched: the ghost presence view stays
            v = spec.View(gname + tag)
            ctx.views[gname] = v
            if h.valid:
                spec.inv_assume(ctx, h, v, list(ctx.focus), ctx.inv_pairs(), k=2)
        ctx.on_havoc = on_havoc

        def on_focus(new_pairs):
            # a new pair came into focus (the element a loop is visiting): the invariant of every valid graph for it
            for gname, h in ctx.graphs.items():
                if h.valid and gname in ctx.views:
                    spec.inv_assume(ctx, h, ctx.views[gname], [p[0] for p in new_pairs], new_pairs, k=2)
        ctx.on_focus = on_focus
        t_from = fresh('t_from', Int)
        t_to = fresh('t_to', Int) if variant['t_to'] == 'int' else None
        argv = [VGraph(g), VInt(t_from)] + ([VInt(t_to)] if t_to is not None else [])
        return Call(g=g, pre=g.snapshot(), vG=vG, qx=qx, qy=qy, qz=qz, qq=qq, t_from=t_from, t_to=t_to, argv=argv, kwv={}, variant=variant)

    # ------------------------------------------------------------------ loop invariants
    def _window(self, L):
        return lambda q: z3.And(L.env['t_from'].z <= q, q <= L.env['t_to'].z)

    def _H(self, L):
        name = [n for n in L.ctx.graphs if n != 'self'][0]
        return name, L.ctx.graphs[name], L.ctx.views[name]

    def loop_specs(self):
        directed = self.directed

        def visU(L, a, b):
            return L.vis(a, b) if directed else z3.Or(L.vis(a, b), L.vis(b, a))

        def pairs_of(L, extra=()):
            f = list(L.ctx.focus)
            ps = [(f[0], f[1]), (f[1], f[0])] if len(f) >= 2 else []
            for p in extra:
                ps += [p, (p[1], p[0])]
            return ps

        def outer_inv(L):
            name, H, vH = self._H(L)
            G, vG = L.ctx.graphs['self'], L.ctx.views['self']
            W = self._window(L)
            q = z3.Int('q?oi')
            x = z3.Const('x?oi', Node)
            CH = H['Cell_' + H.mainw()]
            out = []
            cur = [tuple(L.cur)] if L.cur else []
            for i, (a, b) in enumerate(pairs_of(L, cur)):
                out.append(('presence.%d' % i, FA([q], vH.Pres[a][b][q] == z3.And(visU(L, a, b), W(q), vG.Pres[a][b][q]), [vH.Pres[a][b][q]])))
                out.append(('unvisited_pairs_absent.%d' % i, z3.Implies(z3.Not(visU(L, a, b)), CH[a][b] == 0)))
            a_, b_ = z3.Consts('a?oi b?oi', Node)
            out.append(('unvisited_pairs_absent', FA([a_, b_], z3.Implies(CH[a_][b_] != 0, visU(L, a_, b_)), [CH[a_][b_]])))
            wn = self._wn(L.ctx)
            if L.assuming:
                out.append(('nodes_are_endpoints', FA([x], z3.Implies(H['NodeIn'][x], z3.Or(CH[x][wn(x)] != 0, CH[wn(x)][x] != 0)), [H['NodeIn'][x]])))
            else:
                y = z3.Const('y?oi', Node)
                out.append(('nodes_are_endpoints', FA([x], z3.Implies(H['NodeIn'][x], z3.Exists([y], z3.Or(CH[x][y] != 0, CH[y][x] != 0))))))
            return out

        def outer_exit(L):
            # instances of "every member was visited" for the pairs in focus (spares a trigger hunt)
            return [z3.Implies(L.bag.member(a, b), L.vis(a, b)) for (a, b) in pairs_of(L)]

        def inner_inv(L):
            name, H, vH = self._H(L)
            H0, vH0 = L.g0[name], L.views0[name]
            G, vG = L.ctx.graphs['self'], L.ctx.views['self']
            W = self._window(L)
            u, v = L.otv(0).z, L.otv(1).z          # the pair the enclosing loop is visiting
            ts = L.otv(2)
            EG = G['E'][ts.r]
            k = L.k
            q = z3.Int('q?ii')
            x = z3.Const('x?ii', Node)
            CH, CH0 = H['Cell_' + H.mainw()], H0['Cell_' + H.mainw()]
            same = lambda a, b: spec.samepair(H, a, b, u, v)
            out = []
            for i, (a, b) in enumerate(pairs_of(L, [(u, v)])):
                out.append(('presence.%d' % i, FA([q], vH.Pres[a][b][q] == z3.If(same(a, b), z3.And(W(q), vG.Pres[a][b][q], k >= 1, q <= EG[k - 1]),
                                                                                vH0.Pres[a][b][q]), [vH.Pres[a][b][q]])))
                out.append(('cells.%d' % i, z3.If(same(a, b), z3.Implies(CH[a][b] != 0, k >= 1), (CH[a][b] != 0) == (CH0[a][b] != 0))))
            a_, b_ = z3.Consts('a?ii b?ii', Node)
            out.append(('cells_of_other_pairs', FA([a_, b_], z3.Implies(z3.Not(same(a_, b_)), (CH[a_][b_] != 0) == (CH0[a_][b_] != 0)),
                                                   [CH[a_][b_]])))
            out.append(('cells_of_other_pairs_kept', FA([a_, b_], z3.Implies(CH0[a_][b_] != 0, CH[a_][b_] != 0), [CH0[a_][b_]])))
            rH, nH, SH, EH = spec.tl(H, u, v)
            out.append(('latest_run_of_H_ends_before_next_interval', z3.Implies(rH != 0, z3.And(k >= 1, EH[nH - 1] <= EG[k - 1]))))
            out.append(('nodes', FA([x], H['NodeIn'][x] == z3.Or(H0['NodeIn'][x], z3.And(rH != 0, z3.Or(x == u, x == v))), [H['NodeIn'][x]])))
            return out

        def inner_hints(L):
            G = L.ctx.graphs['self']
            ts = L.otv(2)
            S, E = G['S'][ts.r], G['E'][ts.r]
            k = L.k
            L.ctx.mention(S[k - 1], E[k - 1], S[k], E[k], S[k + 1])
            return []

        def nodes_inv(L):
            name, H, vH = self._H(L)
            H0 = L.g0[name]
            G = L.ctx.graphs['self']
            x = z3.Const('x?ni', Node)
            return [('attributes_of_visited_nodes', FA([x], z3.Implies(z3.And(H['NodeIn'][x], L.vis(x)), H['NAttr'][x] == G['NAttr'][x]), [H['NAttr'][x]])),
                    ('node_set_unchanged', H['NodeIn'] == H0['NodeIn'])]

        Hname = 'H'
        allc = [c for c in HGraph(Hname, directed, self.cls).comp_names() if c not in ('ER', 'GAttr', 'Frozen')]
        return {
            'bag/3': LoopSpec(outer_inv, modifies={Hname: allc}, on_exit=outer_exit, tags=('C06',)),
            'timeline/2': LoopSpec(inner_inv, modifies={Hname: allc}, tags=('C06',), assumes=inner_hints),
            'bag/1': LoopSpec(nodes_inv, modifies={Hname: ['NAttr']}, tags=('C06',)),
        }

    def _wn(self, ctx):
        if not hasattr(ctx, '_wn'):
            ctx._wn = fresh_fun('wn', Node, Node)
        return ctx._wn

    # ------------------------------------------------------------------ exits
    def finish(self, ctx, c, outcome):
        T = ('C06',)
        if outcome[0] == 'raise':
            if outcome[1] == 'ValueError' and 'Invalid range' in outcome[2] or (outcome[1] == 'ValueError' and 'raise at time_slice' in outcome[2]):
                ctx.oblige('C06.raises.ValueError_only_if_t_to_before_t_from', (c.t_to < c.t_from) if c.t_to is not None else z3.BoolVal(False),
                           kind='raises', tags=T)
            else:
                self.forbid(ctx, 'C06.no_other_exception.%s' % outcome[1], tags=T, note=outcome[2])
            for comp, f in spec.state_unchanged(c.g, c.pre).items():
                ctx.oblige('C06.source_unchanged.%s' % comp, f, tags=T)
            return
        if c.t_to is not None:
            ctx.oblige('C06.accepts_valid_window', c.t_to >= c.t_from, tags=T)
        res = outcome[1]
        if res.kind != 'graph' or res.g is c.g:
            self.forbid(ctx, 'C06.returns_a_new_graph', tags=T)
            return
        H = res.g
        ctx.oblige('C06.class', z3.BoolVal(H.cls == self.cls), tags=T)
        ctx.oblige('C03.built_via_kernel', z3.BoolVal(bool(H.valid)), tags=('C03', 'C06'),
                   note='typestate: the result was written only through the constructor, add_interaction and node-attribute stores on existing nodes')
        vH, vG = ctx.views[H.name], c.vG
        x, y, z_, q = c.qx, c.qy, c.qz, c.qq
        hi = c.t_to if c.t_to is not None else c.t_from
        W = z3.And(c.t_from <= q, q <= hi)
        ctx.oblige('C06.presence_inside_window', vH.Pres[x][y][q] == z3.And(W, vG.Pres[x][y][q]), tags=T)
        CH = H['Cell_' + H.mainw()]
        w = z3.Const('w?fin', Node)
        ctx.oblige('C06.nodes_are_endpoints.only_endpoints', z3.Implies(H['NodeIn'][x], z3.Exists([w], z3.Or(CH[x][w] != 0, CH[w][x] != 0))), tags=T)
        ctx.oblige('C06.nodes_are_endpoints.all_endpoints', z3.Implies(CH[x][y] != 0, z3.And(H['NodeIn'][x], H['NodeIn'][y])), tags=T)
        ctx.oblige('C06.node_attributes', z3.Implies(H['NodeIn'][x], H['NAttr'][x] == c.pre['NAttr'][x]), tags=T)
        for comp, f in spec.state_unchanged(c.g, c.pre).items():
            ctx.oblige('C06.source_unchanged.%s' % comp, f, tags=T)
