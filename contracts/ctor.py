r"""Contract of the constructors DynGraph.__init__ / DynDiGraph.__init__ (the `establish` leg of DESIGN 2.3).

requires  data is None (the properties quantify over graphs built through the timed API)
ensures   N = {}, no adjacency row, no cell, no event, no snapshot id; edge_removal = the argument; Inv(G) holds
trusted   networkx Graph/DiGraph.__init__(None, **attr): empty _node/_adj(/_succ/_pred) dicts, graph attribute dict = attr"""
import z3
from pyvc.sym import fresh, Node, Int, Bool, Obj, IntV, FA
from pyvc.values import *   # noqa
from pyvc import spec
from .base import Contract, Call


class Init(Contract):
    props = ('C01', 'C03', 'C06', 'C16')

    def __init__(self, cls, bound_n=None):
        self.cls = cls
        self.directed = cls == 'DynDiGraph'
        self.mod = 'dyndigraph' if self.directed else 'dyngraph'
        self.key = '%s::%s.__init__' % (self.mod, cls)

    def variants(self):
        return [{'edge_removal': 'default'}, {'edge_removal': 'given'}]

    def setup(self, ctx, variant):
        g = HGraph('self', self.directed, self.cls).havoc('raw')      # uninitialised object
        g.constructing = True
        ctx.graphs['self'] = g
        er = fresh('edge_removal', Bool)
        argv = [VGraph(g)]
        kwv = {} if variant['edge_removal'] == 'default' else {'edge_removal': VBool(er)}
        return Call(g=g, er=er, given=variant['edge_removal'] == 'given', argv=argv, kwv=kwv)

    def finish(self, ctx, c, outcome):
        T = ('C01', 'C03')
        if outcome[0] == 'raise':
            self.forbid(ctx, 'C03.ctor.no_exception.%s' % outcome[1], tags=T, note=outcome[2])
            return
        g = c.g
        e = HGraph('empty', self.directed, self.cls).make_empty(True)
        for comp in g.comp_names():
            if comp in ('NAttr', 'GAttr', 'ER', 'Frozen', 'NextRef', 'S', 'E', 'Len', 'HasT', 'TVal0', 'SCnt', 'Ev'):
                continue
            ctx.oblige('C03.ctor.empty_state.%s' % comp, g[comp] == e[comp] if not g[comp].eq(e[comp]) else z3.BoolVal(True), tags=T)
        ctx.oblige('C03.ctor.edge_removal_flag', g['ER'] == (c.er if c.given else z3.BoolVal(True)), tags=T)
        # Inv of the empty state: every conjunct holds vacuously once there is no cell, no event key, no snapshot id;
        # the remaining conjunct is NextRef >= 1
        ctx.oblige('C03.ctor.nextref', g['NextRef'] >= 1, tags=T)

    def apply(self, interp, g_unused, argv, kwv):
        ctx = interp.ctx
        if argv:
            raise Undecided('constructor called with data')
        er = kwv.get('edge_removal')
        if er is not None and er.kind != 'bool':
            raise Undecided('edge_removal argument')
        n = sum(1 for k in ctx.graphs if k.startswith('H'))
        name = 'H%d' % n if n else 'H'
        h = HGraph(name, self.directed, self.cls).make_empty(er.z if er is not None else True)
        h.valid = True
        ctx.graphs[name] = h
        v = spec.View(name + '.new')
        x, y = z3.Consts('x?nv y?nv', Node)
        q = z3.Int('q?nv')
        ctx.assume(FA([x, y, q], z3.Not(v.Pres[x][y][q]), [v.Pres[x][y][q]]), 'link')
        ctx.views[name] = v
        return VGraph(h)
