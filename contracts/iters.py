r"""Contracts of the flattened / snapshot listing generators (C02; and the callee contract C06 relies on).

DynGraph.interactions_iter(nbunch=None, t)         R(a,b) := Ever(a,b) if t is None else Ever(a,b) /\ P(G,a,b,t)
  ensures  (ghost Y(a,b) = how many times the tuple (a, b, data) is yielded)
           forall a != b.  Y(a,b) + Y(b,a) = [R(a,b)]       -- each unordered interaction exactly once, in one orientation
           forall a.       Y(a,a) = [R(a,a)]
           the third component is the pair's edge data (t None) or {'t': [t]} (t given);  the graph is not modified
  outer loop (ghost visited set Vis over the nodes; the helper dict `seen` IS Vis):
           forall a != b.  Y(a,b) + Y(b,a) = [R(a,b) /\ (Vis(a) \/ Vis(b))];   Y(a,a) = [R(a,a) /\ Vis(a)];   Y(a,b) >= 1 => Vis(a)
  inner loop (ghost visited set Vis2 over the neighbours of n):
           Y(a,b) = Y_entry(a,b) + [a = n /\ Vis2(b) /\ ~seen(b) /\ R(n,b)]
DynDiGraph.out_interactions_iter(nbunch=None, t):  Y(a,b) = [R(a,b)]   (each stored edge once, oriented)

The caller-side form used by time_slice (contracts/slice.py: FlatIter) is this contract restated as a bag:
ori(a,b) := (Y(a,b) = 1)."""
import z3
from pyvc.sym import fresh, fresh_fun, Node, Int, Bool, IntV, FA, inb, b2i
from pyvc.values import *   # noqa
from pyvc import spec
from pyvc.loops import LoopSpec
from .base import Contract, Call
from .queries import PresenceTest, presence_formula

YP = A(Node, A(Node, Int))


class _ListingIter(Contract):
    props = ('C02', 'C06')
    fname = None

    def __init__(self, cls, bound_n=None):
        self.cls = cls
        self.directed = cls == 'DynDiGraph'
        self.mod = 'dyndigraph' if self.directed else 'dyngraph'
        self.key = '%s::%s.%s' % (self.mod, cls, self.fname)

    def variants(self):
        return [{'t': 'none'}, {'t': 'int'}]

    def uses(self, eng):
        return [PresenceTest(self.cls)]

    def reads(self):
        return [PresenceTest(self.cls).key]

    def setup(self, ctx, variant):
        g = HGraph('self', self.directed, self.cls).havoc('0')
        g['ER'] = z3.BoolVal(True)
        ctx.graphs['self'] = g
        t = fresh('t', Int) if variant['t'] == 'int' else None
        qa, qb = fresh('qa', Node), fresh('qb', Node)
        view0 = spec.View('pre')
        ctx.inv_cats = ('shape', 'canon')
        spec.inv_assume(ctx, g, view0, [qa, qb], [(qa, qb), (qb, qa)])
        ctx.focus = [qa, qb]
        c = Call(g=g, pre=g.snapshot(), t=t, qa=qa, qb=qb, argv=[VGraph(g), VNone, VInt(t) if t is not None else VNone], kwv={}, variant=variant)
        ctx.lst = c
        self.ghost0 = {'$ypair': VOpaque(z3.K(Node, z3.K(Node, IntV(0))), 'ghost')}
        return c

    def R(self, c, a, b):
        g = c.pre
        C = g['Cell_' + g.mainw()]
        if c.t is None:
            return C[a][b] != 0
        return z3.And(C[a][b] != 0, presence_formula(g, a, b, c.t, True))

    def body(self, interp, call):
        interp.generator_ghost = dict(self.ghost0)
        c = call

        def on_yield(interp_, a, b, data):
            ctx = interp_.ctx
            C = c.pre['Cell_' + c.pre.mainw()]
            if c.t is None:
                ok = data.kind == 'edgedata'
                ctx.oblige('C02.listing.third_component_is_the_edge_data', (C[a][b] == data.r) if ok else z3.BoolVal(False), tags=('C02', 'C06'), kind='yield')
            else:
                ok = (data.kind == 'dict' and len(data.pairs) == 1 and data.pairs[0][0].kind == 'str' and data.pairs[0][0].s == 't'
                      and data.pairs[0][1].kind == 'list' and len(data.pairs[0][1].items) == 1 and data.pairs[0][1].items[0].kind == 'int')
                ctx.oblige('C02.listing.third_component_is_the_queried_instant',
                           (data.pairs[0][1].items[0].z == c.t) if ok else z3.BoolVal(False), tags=('C02', 'C06'), kind='yield')
        interp.on_yield_pair = on_yield
        return Contract.body(self, interp, call)

    def check_unchanged(self, ctx, c):
        for comp, f in spec.state_unchanged(c.g, c.pre).items():
            ctx.oblige('C02.listing.modifies_nothing.%s' % comp, f, tags=('C02', 'C06'))


class InteractionsIter(_ListingIter):
    """DynGraph.interactions_iter (the `seen` de-duplication)"""
    fname = 'interactions_iter'

    def loop_specs(self):
        def outer(L):
            c = L.ctx.lst
            Y = L.env['$ypair'].z
            seen = [v for v in L.env.values() if getattr(v, 'kind', None) == 'dict' and getattr(v, 'symset', None) is not None]
            a, b = z3.Consts('a?io b?io', Node)
            out = [('each_interaction_with_a_visited_endpoint_once',
                    FA([a, b], z3.Implies(a != b, Y[a][b] + Y[b][a] == b2i(z3.And(self.R(c, a, b), z3.Or(L.vis(a), L.vis(b))))), [Y[a][b]])),
                   ('self_loops_of_visited_nodes_once', FA([a], Y[a][a] == b2i(z3.And(self.R(c, a, a), L.vis(a))), [Y[a][a]])),
                   ('yielded_only_from_visited_nodes', FA([a, b], z3.And(Y[a][b] >= 0, z3.Implies(Y[a][b] >= 1, L.vis(a))), [Y[a][b]]))]
            # the helper dict `seen` IS the visited set (a dict that never received a key is the empty set)
            sset = seen[0].symset if seen else z3.K(Node, z3.BoolVal(False))
            out.append(('seen_is_the_visited_set', FA([a], sset[a] == L.vis(a), [L.vis(a)])))
            return out

        def inner(L):
            c = L.ctx.lst
            Y, Y0 = L.env['$ypair'].z, L.env0['$ypair'].z
            n = L.otv(0).z
            seen = [v for v in L.env.values() if getattr(v, 'kind', None) == 'dict' and getattr(v, 'symset', None) is not None]
            sset = seen[0].symset if seen else z3.K(Node, z3.BoolVal(False))
            a, b = z3.Consts('a?ii b?ii', Node)
            return [('yields_of_this_row_so_far',
                     FA([a, b], Y[a][b] == Y0[a][b] + b2i(z3.And(a == n, L.vis(b), z3.Not(sset[b]), self.R(c, n, b))), [Y[a][b]]))]
        return {'bag/2': LoopSpec(outer, modifies={}, tags=('C02', 'C06')), 'bag/1': LoopSpec(inner, modifies={}, tags=('C02', 'C06'))}

    def finish(self, ctx, c, outcome):
        T = ('C02', 'C06')
        if outcome[0] == 'raise':
            return self.forbid(ctx, 'C02.listing.no_exception.%s' % outcome[1], tags=T, note=outcome[2])
        gh = getattr(outcome[1], 'ghost', None)
        if gh is None or '$ypair' not in gh:
            return self.shape(ctx, 'C02.listing.yields_interaction_tuples', tags=T)
        Y = gh['$ypair'].z
        a, b = c.qa, c.qb
        ctx.oblige('C02.listing.each_interaction_once_in_one_orientation', z3.Implies(a != b, Y[a][b] + Y[b][a] == b2i(self.R(c, a, b))), tags=T)
        ctx.oblige('C02.listing.each_self_loop_once', Y[a][a] == b2i(self.R(c, a, a)), tags=T)
        ctx.oblige('C02.listing.nothing_else', Y[a][b] >= 0, tags=T)
        self.check_unchanged(ctx, c)


class OutInteractionsIter(_ListingIter):
    """DynDiGraph.out_interactions_iter: every stored edge once, oriented"""
    fname = 'out_interactions_iter'

    def loop_specs(self):
        def outer(L):
            c = L.ctx.lst
            Y = L.env['$ypair'].z
            a, b = z3.Consts('a?oo b?oo', Node)
            return [('each_out_interaction_of_a_visited_node_once', FA([a, b], Y[a][b] == b2i(z3.And(self.R(c, a, b), L.vis(a))), [Y[a][b]]))]

        def inner(L):
            c = L.ctx.lst
            Y, Y0 = L.env['$ypair'].z, L.env0['$ypair'].z
            n = L.otv(0).z
            a, b = z3.Consts('a?oi b?oi', Node)
            return [('yields_of_this_row_so_far', FA([a, b], Y[a][b] == Y0[a][b] + b2i(z3.And(a == n, L.vis(b), self.R(c, n, b))), [Y[a][b]]))]
        return {'bag/2': LoopSpec(outer, modifies={}, tags=('C02', 'C06')), 'bag/1': LoopSpec(inner, modifies={}, tags=('C02', 'C06'))}

    def finish(self, ctx, c, outcome):
        T = ('C02', 'C06')
        if outcome[0] == 'raise':
            return self.forbid(ctx, 'C02.listing.no_exception.%s' % outcome[1], tags=T, note=outcome[2])
        gh = getattr(outcome[1], 'ghost', None)
        if gh is None or '$ypair' not in gh:
            return self.shape(ctx, 'C02.listing.yields_interaction_tuples', tags=T)
        Y = gh['$ypair'].z
        ctx.oblige('C02.listing.each_out_interaction_once_oriented', Y[c.qa][c.qb] == b2i(self.R(c, c.qa, c.qb)), tags=T)
        self.check_unchanged(ctx, c)


class InInteractionsIter(_ListingIter):
    """DynDiGraph.in_interactions_iter: every stored edge once, oriented (source, target), found through the predecessor rows"""
    fname = 'in_interactions_iter'

    def setup(self, ctx, variant):
        c = _ListingIter.setup(self, ctx, variant)
        g = c.g

        def on_focus(new_pairs):
            spec.inv_assume(ctx, g, spec.View('pre'), [p[0] for p in new_pairs], new_pairs)
        ctx.on_focus = on_focus
        return c

    def loop_specs(self):
        def outer(L):
            c = L.ctx.lst
            Y = L.env['$ypair'].z
            a, b = z3.Consts('a?io b?io', Node)
            return [('each_in_interaction_of_a_visited_node_once', FA([a, b], Y[a][b] == b2i(z3.And(self.R(c, a, b), L.vis(b))), [Y[a][b]]))]

        def inner(L):
            c = L.ctx.lst
            Y, Y0 = L.env['$ypair'].z, L.env0['$ypair'].z
            n = L.otv(0).z
            a, b = z3.Consts('a?ii b?ii', Node)
            return [('yields_of_this_row_so_far', FA([a, b], Y[a][b] == Y0[a][b] + b2i(z3.And(b == n, L.vis(a), self.R(c, a, n))), [Y[a][b]]))]
        return {'bag/2': LoopSpec(outer, modifies={}, tags=('C02', 'C06')), 'bag/1': LoopSpec(inner, modifies={}, tags=('C02', 'C06'))}

    def finish(self, ctx, c, outcome):
        T = ('C02', 'C06')
        if outcome[0] == 'raise':
            return self.forbid(ctx, 'C02.listing.no_exception.%s' % outcome[1], tags=T, note=outcome[2])
        gh = getattr(outcome[1], 'ghost', None)
        if gh is None or '$ypair' not in gh:
            return self.shape(ctx, 'C02.listing.yields_interaction_tuples', tags=T)
        Y = gh['$ypair'].z
        ctx.oblige('C02.listing.each_in_interaction_once_oriented', Y[c.qa][c.qb] == b2i(self.R(c, c.qa, c.qb)), tags=T)
        self.check_unchanged(ctx, c)


# ---- bounded search on the real code (triage) ---------------------------------------------------------------------------------

def run_case(cls, fname, removal, history, t):
    """the real listing on the graph built by `history` against the union of the added spans; {clause: detail}"""
    from bounded.core import run_history
    history = [tuple(tuple(y) if isinstance(y, list) else y for y in c) for c in history]
    G, M, outs = run_history(cls, removal, history, probing=False)
    try:
        got = list(getattr(G, fname)(None, t))
    except Exception as ex:
        return {'C02.listing.no_exception.%s' % type(ex).__name__: repr(ex)}
    want = [k for k in M.keys() if (t is None or M.present(k[0], k[1], t))]
    if cls == 'DynGraph':
        norm = lambda a, b: tuple(sorted((a, b), key=repr))
        g2 = sorted((norm(x[0], x[1]) for x in got), key=repr)
        w2 = sorted((norm(a, b) for (a, b) in want), key=repr)
        name = 'C02.listing.each_interaction_once_in_one_orientation'
    else:
        g2 = sorted(((x[0], x[1]) for x in got), key=repr)
        w2 = sorted(want, key=repr)
        name = 'C02.listing.each_%s_interaction_once_oriented' % fname.split('_')[0]
    if g2 != w2:
        return {name: '%s(None, %r) lists %r, present: %r' % (fname, t, g2, w2)}
    for x in got:
        third = x[2]
        if t is not None and third != {'t': [t]}:
            return {'C02.listing.third_component_is_the_queried_instant': repr(x)}
    return {}


def _search_real(self, engine):
    import itertools
    from bounded.core import histories, run_history, qs_of, jsonable
    for removal in (True,):
        for cls, rem, h in itertools.islice(histories('quick', 1, classes=(self.cls,), modes=(removal,)), 600):
            G, M, outs = run_history(cls, rem, h, probing=False)
            if any(o[0] != o[1] for o in outs) or not M.keys():
                continue
            for t in [None] + list(qs_of(M)):
                v = run_case(cls, self.fname, rem, h, t)
                if v:
                    return {'violated': v, 'call': '%s.%s(None, %r) after %r' % (cls, self.fname, t, h),
                            'replayer': {'module': 'contracts.iters', 'function': 'run_case', 'args': [cls, self.fname, rem, jsonable(h), t]}}
    return None


_ListingIter.search_real = _search_real
