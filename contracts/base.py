"""Base class of sidecar contracts.  A contract object serves two purposes: `verify` enumerates the paths
of the real function (extracted from /repo on every run) and emits its obligations; `apply` is what a
caller sees at a call site (assert requires, havoc frame, assume ensures) - callers never see the body."""
import z3
from pyvc.sym import fresh, Node, Int, Bool, Obj
from pyvc.values import *   # noqa
from pyvc.interp import Obligation


class Call(object):
    """record of one symbolic invocation: pre-state snapshots, arguments, ghost views, Skolem constants"""

    def __init__(self, **kw):
        self.__dict__.update(kw)


class Contract(object):
    key = None            # 'module::Class.function'
    props = ()            # property ids served

    def variants(self):
        return [{}]

    def variant_name(self, v):
        return ','.join('%s=%s' % kv for kv in sorted(v.items())) or 'default'

    def setup(self, ctx, variant):
        raise NotImplementedError

    def body(self, interp, call):
        fi = interp.engine.fn(self.key)
        return interp.engine.inline(interp, fi, call.argv, call.kwv)

    def finish(self, ctx, call, outcome):
        raise NotImplementedError

    def apply(self, interp, g, argv, kwv):
        raise Undecided('contract %s has no caller-side form' % self.key)

    def loop_specs(self):
        """{ordinal: LoopSpec}"""
        return {}

    # helpers
    def forbid(self, ctx, name, tags=(), note=''):
        """this exit must be unreachable: obligation `False` under the path condition"""
        ctx.oblige(name, z3.BoolVal(False), kind='safety', tags=tags, note=note)


def _shape(self, ctx, name, tags=(), note=''):
    """the value / iterable has a form the contract cannot interpret: an obligation that cannot be discharged, reported as a
    violation only if a failing input is found on the real code (otherwise UNDECIDED - it may be a harmless re-write)"""
    ctx.oblige(name, z3.BoolVal(False), kind='shape', tags=tags, note=note)


Contract.shape = _shape


def install_caller_hooks(ctx, cats=('shape', 'canon', 'link')):
    """hooks a caller-side (modular) proof needs: when a loop havocs a graph whose typestate is `valid`, a fresh ghost
    presence view and the invariant for the pairs in focus; when a new pair comes into focus, the invariant of every
    valid graph for it"""
    from pyvc import spec
    ctx.inv_cats = cats

    def on_havoc(gname, tag, comps=None):
        h = ctx.graphs[gname]
        if comps is not None and not any(c.startswith('Cell_') or c in ('S', 'E', 'Len', 'HasT') for c in comps):
            return                  # timelines untouched: the ghost presence view stays
        v = spec.View(gname + tag)
        ctx.views[gname] = v
        if h.valid:
            spec.inv_assume(ctx, h, v, list(ctx.focus), ctx.inv_pairs(), k=2)

    def on_focus(new_pairs):
        for gname, h in ctx.graphs.items():
            if h.valid and gname in ctx.views:
                spec.inv_assume(ctx, h, ctx.views[gname], [p[0] for p in new_pairs], new_pairs, k=2)
    ctx.on_havoc = on_havoc
    ctx.on_focus = on_focus
