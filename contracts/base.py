"""Base class of sidecar contracts.  A contract object serves two purposes: `verify` enumerates the paths
of the real function (extracted from /repo on every run) and emits its obligations; `apply` is what a
caller sees at a call site (assert requires, havoc frame, assume ensures) - callers never see the body."""
import z3
from pyvc.sym import fresh, Node, Int, Bool, Obj
from pyvc.values import *   # noqa
from pyvc.interp import Obligation


class Call(object):
    """record of one symbolic invocation: pre-state snapshots, arguments, ghost views, Skolem constants"""

    def __init__(self, **kw):
        self.__dict__.update(kw)


class Contract(object):
    key = None            # 'module::Class.function'
    props = ()            # property ids served

    def variants(self):
        return [{}]

    def variant_name(self, v):
        return ','.join('%s=%s' % kv for kv in sorted(v.items())) or 'default'

    def setup(self, ctx, variant):
        raise NotImplementedError

    def body(self, interp, call):
        fi = interp.engine.fn(self.key)
        return interp.engine.inline(interp, fi, call.argv, call.kwv)

    def finish(self, ctx, call, outcome):
        raise NotImplementedError

    def apply(self, interp, g, argv, kwv):
        raise Undecided('contract %s has no caller-side form' % self.key)

    def loop_specs(self):
        """{ordinal: LoopSpec}"""
        return {}

    # helpers
    def forbid(self, ctx, name, tags=(), note=''):
        """this exit must be unreachable: obligation `False` under the path condition"""
        ctx.oblige(name, z3.BoolVal(False), kind='safety', tags=tags, note=note)
