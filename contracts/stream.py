r"""Contract of stream_interactions x2 (C05, read side of the event log).

stream_interactions()   requires I5 (no default entries in time_to_edge)
  ensures  the yielded tuples (u, v, op, t) are in non-decreasing t (obligation at every yield: t >= time of the previous yield)
           every logged event is yielded exactly once and nothing else is:  #yields(q,(a,b,op)) = [event (a,b,op) logged at q]
           the graph is not modified (the defaultdict read of an existing key inserts nothing)
  With I4 (kernel clauses) this is the property's statement: + exactly where presence appears, - only where it vanishes, no repeats.
Outer loop (index k over sorted keys ts):  #yields(q,key) = [q is a key /\ k >= 1 /\ q <= ts[k-1] /\ key logged at q];  last yield <= ts[k-1]
Inner loop (ghost visited set over the keys of time_to_edge[t]): as the outer one below t, and at t exactly the visited keys."""
import z3
from pyvc.sym import fresh, Node, Int, Bool, EvK, IntV, FA, b2i
from pyvc.values import *   # noqa
from pyvc import spec
from pyvc.loops import LoopSpec
from .base import Contract, Call

YS = A(Int, A(EvK, Int))


class StreamInteractions(Contract):
    props = ('C05', 'C10')

    def __init__(self, cls, bound_n=None):
        self.cls = cls
        self.directed = cls == 'DynDiGraph'
        self.mod = 'dyndigraph' if self.directed else 'dyngraph'
        self.key = '%s::%s.stream_interactions' % (self.mod, cls)

    def setup(self, ctx, variant):
        g = HGraph('self', self.directed, self.cls).havoc('0')
        ctx.graphs['self'] = g
        ctx.assume(spec.tte_h(g), 'tte')
        self.interp_ghost = {'$ycnt': VOpaque(z3.K(Int, z3.K(EvK, IntV(0))), 'ghost'), '$yany': VBool(False), '$ylast': VInt(0)}
        return Call(g=g, pre=g.snapshot(), argv=[VGraph(g)], kwv={}, q=fresh('qq', Int), key=fresh('qkey', EvK))

    def body(self, interp, call):
        interp.generator_ghost = dict(self.interp_ghost)
        return Contract.body(self, interp, call)

    @staticmethod
    def logged(g, q, key):
        return z3.And(g['TKey'][q], z3.Not(g['TVal0'][q]), g['Ev'][q][key])

    def loop_specs(self):
        def outer(L):
            g = L.g['self']
            ts = L.iterable                  # the sorted instants
            k = L.k
            ycnt, yany, ylast = L.env['$ycnt'].z, L.env['$yany'].z, L.env['$ylast'].z
            q = z3.Int('q?st')
            key = z3.Const('key?st', EvK)
            done = lambda qq: z3.And(k >= 1, qq <= ts.elem(k - 1).z)
            return [('each_logged_event_of_the_visited_instants_once',
                     FA([q, key], ycnt[q][key] == b2i(z3.And(done(q), self.logged(g, q, key))), [ycnt[q][key]])),
                    ('last_yield_not_after_the_latest_visited_instant', z3.Implies(yany, z3.And(k >= 1, ylast <= ts.elem(k - 1).z)))]

        def inner(L):
            g = L.g['self']
            t = L.otv(0).z                   # the instant the enclosing loop is visiting
            ycnt, yany, ylast = L.env['$ycnt'].z, L.env['$yany'].z, L.env['$ylast'].z
            y0 = L.env0['$ycnt'].z
            q = z3.Int('q?si')
            key = z3.Const('key?si', EvK)
            return [('below_t_as_before_at_t_the_visited_keys',
                     FA([q, key], ycnt[q][key] == z3.If(q == t, b2i(z3.And(L.vis(key), self.logged(g, q, key))), y0[q][key]), [ycnt[q][key]])),
                    ('last_yield_not_after_t', z3.Implies(yany, ylast <= t))]
        return {'seq/1': LoopSpec(outer, modifies={}, tags=('C05', 'C10')), 'bag/1': LoopSpec(inner, modifies={}, tags=('C05', 'C10'))}

    def apply(self, interp, g, argv, kwv):
        """caller side: a chronological enumeration of exactly the logged events, each once"""
        ctx = interp.ctx
        from pyvc.sym import fresh_fun, evk as _evk
        n = fresh('n_events', Int)
        key = fresh_fun('ev_key', Int, EvK)
        tm = fresh_fun('ev_time', Int, Int)
        idx = fresh_fun('ev_idx', Int, EvK, Int)
        i, j, q = z3.Int('i?sa'), z3.Int('j?sa'), z3.Int('q?sa')
        k = z3.Const('k?sa', EvK)
        from pyvc.sym import inb
        ctx.assume(n >= 0, 'call')
        ctx.assume(FA([i, j], z3.Implies(z3.And(0 <= i, i < j, j < n), tm(i) <= tm(j)), [z3.MultiPattern(tm(i), tm(j))]), 'call')
        ctx.assume(FA([i], z3.Implies(inb(i, n), self.logged(g, tm(i), key(i))), [key(i)]), 'call')
        ctx.assume(FA([q, k], z3.Implies(self.logged(g, q, k), z3.And(inb(idx(q, k), n), tm(idx(q, k)) == q, key(idx(q, k)) == k)), [g['Ev'][q][k]]), 'call')
        ctx.assume(FA([i, j], z3.Implies(z3.And(inb(i, n), inb(j, n), i != j), z3.Or(tm(i) != tm(j), key(i) != key(j))), [z3.MultiPattern(key(i), key(j))]), 'call')
        from pyvc.sym import ea, eb, eop
        seq = VSeq(n, lambda p: VTuple([VNode(ea(key(p))), VNode(eb(key(p))), VOp(eop(key(p))), VInt(tm(p))]), {'elem_kind': 'tuple', 'key': key, 'time': tm})
        ctx.gi_seq = seq
        return seq

    def finish(self, ctx, c, outcome):
        T = ('C05', 'C10')
        if outcome[0] == 'raise':
            return self.forbid(ctx, 'C05.stream.no_exception.%s' % outcome[1], tags=T, note=outcome[2])
        r = outcome[1]
        gh = getattr(r, 'ghost', None)
        if gh is None or r.items:
            return self.shape(ctx, 'C05.stream.yields_event_tuples', tags=T)
        ycnt = gh['$ycnt'].z
        ctx.oblige('C05.stream.each_logged_event_exactly_once', ycnt[c.q][c.key] == b2i(self.logged(c.pre, c.q, c.key)), tags=T)
        for comp, f in spec.state_unchanged(c.g, c.pre).items():
            ctx.oblige('C05.stream.modifies_nothing.%s' % comp, f, tags=T)
