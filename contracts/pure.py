r"""Contracts of the pure helpers over integers, sequences and maps.

compact_timeslot(sind_list)   (C18)
    requires  sind_list is a finite collection of DISTINCT ints (the callers pass dict keys)
    ensures   dom(result) = set(sind_list)
              forall a,b in dom. a < b  =>  result[a] < result[b]                (order preserving, injective)
              forall a in dom. 0 <= result[a] < k   and   forall j. 0 <= j < k => exists a in dom. result[a] = j
                                                                                     (onto 0..k-1, k = |sind_list|)
    trusted   sorted(): an ascending duplicate-free enumeration of exactly the elements; enumerate()."""
import z3
from pyvc.sym import fresh, fresh_fun, Int, Bool, Node, inb, FA, IntV
from pyvc.values import *   # noqa
from pyvc.seqs import VIntSet
from pyvc.loops import LoopSpec
from .base import Contract, Call


class CompactTimeslot(Contract):
    props = ('C18',)
    key = 'transform::compact_timeslot'

    def __init__(self, bound_n=None):
        self.bound_n = bound_n

    def setup(self, ctx, variant):
        member = fresh_fun('In', Int, Bool)
        arg = VIntSet(lambda q: member(q), lambda q: [member(q)], 'sind_list')
        a, b, j = fresh('a', Int), fresh('b', Int), fresh('j', Int)
        return Call(member=member, argv=[arg], kwv={}, a=a, b=b, j=j)

    def finish(self, ctx, c, outcome):
        T = ('C18',)
        if outcome[0] == 'raise':
            self.forbid(ctx, 'C18.compact.no_exception.%s' % outcome[1], tags=T, note=outcome[2])
            return
        r = outcome[1]
        if r.kind != 'vmap':
            self.shape(ctx, 'C18.compact.returns_a_dict', tags=T)
            return
        a, b, j = c.a, c.b, c.j
        k = r.meta['n']
        ctx.oblige('C18.compact.domain_is_the_input_set', r.dom(a) == c.member(a), tags=T)
        ga, gb = r.get(a), r.get(b)
        if ga.kind != 'int':
            self.shape(ctx, 'C18.compact.values_are_ints', tags=T)
            return
        ctx.oblige('C18.compact.strictly_increasing', z3.Implies(z3.And(r.dom(a), r.dom(b), a < b), ga.z < gb.z), tags=T)
        ctx.oblige('C18.compact.values_in_0_k', z3.Implies(r.dom(a), z3.And(0 <= ga.z, ga.z < k)), tags=T)
        w = z3.Int('w?onto')
        ctx.oblige('C18.compact.onto_0_k', z3.Implies(inb(j, k), z3.Exists([w], z3.And(r.dom(w), r.get(w).z == j))), tags=T)

    def search_real(self, engine):
        """bounded search for a failing input on the REAL function (used when a clause is refuted)"""
        import itertools
        from dynetx.utils.transform import compact_timeslot
        for n in range(0, 5):
            for xs in itertools.combinations(range(-3, 4), n):
                for inp in (list(xs), list(reversed(xs))):
                    try:
                        r = compact_timeslot(dict.fromkeys(inp).keys())
                    except Exception as ex:
                        return {'violated': {'C18.compact.no_exception': repr(ex)}, 'call': 'compact_timeslot(%r)' % (inp,), 'args': [inp]}
                    exp = {v: i for i, v in enumerate(sorted(xs))}
                    if r != exp:
                        return {'violated': {'C18.compact.order_preserving_bijection': {'got': repr(r), 'expected': repr(exp)}},
                                'call': 'compact_timeslot(%r)' % (inp,), 'args': [inp], 'outcome': 'return %r' % (r,)}
        return None


class _PathFn(Contract):
    """path = a non-empty sequence of hops (a, b, t); only len, the first and the last time are read"""
    props = ('C14',)

    def setup(self, ctx, variant):
        n = fresh('n', Int)
        ha, hb = fresh_fun('hop_a', Int, Node), fresh_fun('hop_b', Int, Node)
        ht = fresh_fun('hop_t', Int, Int)
        ctx.assume(n >= 1)          # C14: paths are non-empty
        path = VSeq(n, lambda k: VTuple([VNode(ha(k)), VNode(hb(k)), VInt(ht(k))]), {'elem_kind': 'tuple'})
        return Call(n=n, ht=ht, argv=[path], kwv={})


class PathLength(_PathFn):
    key = 'paths::path_length'

    def __init__(self, bound_n=None):
        pass

    def apply(self, interp, g, argv, kwv):
        p = argv[0]
        if p.kind != 'path':
            raise Undecided('path_length of %s' % p.kind)
        return VInt(p.w.PL(p.c))

    def finish(self, ctx, c, outcome):
        if outcome[0] == 'raise':
            return self.forbid(ctx, 'C14.path_length.no_exception.%s' % outcome[1], tags=('C14',), note=outcome[2])
        r = outcome[1]
        if r.kind != 'int':
            return self.shape(ctx, 'C14.path_length.returns_an_int', tags=('C14',))
        ctx.oblige('C14.path_length.is_the_hop_count', r.z == c.n, tags=('C14',))


class PathDuration(_PathFn):
    key = 'paths::path_duration'

    def __init__(self, bound_n=None):
        pass

    def apply(self, interp, g, argv, kwv):
        p = argv[0]
        if p.kind != 'path':
            raise Undecided('path_duration of %s' % p.kind)
        return VInt(p.w.T1(p.c) - p.w.T0(p.c))

    def finish(self, ctx, c, outcome):
        if outcome[0] == 'raise':
            return self.forbid(ctx, 'C14.path_duration.no_exception.%s' % outcome[1], tags=('C14',), note=outcome[2])
        r = outcome[1]
        if r.kind != 'int':
            return self.shape(ctx, 'C14.path_duration.returns_an_int', tags=('C14',))
        ctx.oblige('C14.path_duration.is_last_minus_first_time', r.z == c.ht(c.n - 1) - c.ht(0), tags=('C14',))


class AnnotatePaths(Contract):
    r"""annotate_paths(paths) (C14): paths a non-empty list of non-empty paths between one node pair.
    A path is abstracted to what the function reads: hop count PL, first / last time T0, T1, and identity under == (content id).
    ensures (as sets of paths, i ranging over positions of the input, c over contents)
      'shortest'         : paths[i] listed  <=>  PL(i) = min_j PL(j)
      'fastest'          : paths[i] listed  <=>  T1(i) - T0(i) = min_j (T1(j) - T0(j))
      'foremost'         : paths[i] listed  <=>  T1(i) = min_j T1(j)
      'fastest_shortest' : content c listed <=>  c is the content of a shortest path whose duration is minimal among the shortest
      'shortest_fastest' : content c listed <=>  c is the content of a fastest path whose hop count is minimal among the fastest
      every listed path is an element of the input (the lists are given by positions / contents of input paths)
    loop invariant at k, for each criterion X with running minimum m and list B:
      m is None <=> k = 0;  k >= 1 => m = X(w) for some w < k and m <= X(j) for all j < k;  B lists exactly the j < k with X(j) = m, once
    trusted: copy.copy(p) == p; min() over dict values; dict comprehension keyed by tuple(p) (equal contents collapse)."""
    props = ('C14',)
    key = 'paths::annotate_paths'

    def __init__(self, bound_n=None):
        pass

    def uses(self, eng):
        return [PathLength(), PathDuration()]

    def reads(self):
        return [PathLength.key, PathDuration.key]

    def setup(self, ctx, variant):
        from pyvc.pathsmodel import PathWorld, VPath
        w = PathWorld()
        ctx.pathworld = w
        ctx.assume(w.n >= 1)
        i = z3.Int('i?ap')
        ctx.assume(FA([i], z3.Implies(inb(i, w.n), w.PL(w.cid(i)) >= 1), [w.cid(i)]))
        paths = VSeq(w.n, lambda k: VPath(w, w.cid(k), pos=k), {'elem_kind': 'path'})
        c = Call(w=w, argv=[paths], kwv={}, qi=fresh('qi', Int), qc=fresh('qc', Int))
        ctx.ap = c
        return c

    # the three criteria
    def crit(self, w):
        return {'shortest': lambda c: w.PL(c), 'fastest': lambda c: w.T1(c) - w.T0(c), 'foremost': lambda c: w.T1(c)}

    @staticmethod
    def as_bag(w, v):
        from pyvc.pathsmodel import VOptBag, bag_of
        if v.kind == 'none':
            return z3.BoolVal(True), z3.K(Int, IntV(0))
        if v.kind == 'list':
            b = bag_of(w, v.items)
            return b.isnone, b.cnt
        if v.kind == 'optbag':
            return v.isnone, v.cnt
        raise Undecided('result slot of kind %s' % v.kind)

    @staticmethod
    def as_opt(v):
        if v.kind == 'none':
            return z3.BoolVal(True), IntV(0)
        if v.kind == 'int':
            return z3.BoolVal(False), v.z
        if v.kind == 'optint':
            return v.isnone, v.val
        raise Undecided('running minimum of kind %s' % v.kind)

    def loop_specs(self):
        def inv(L):
            c = L.ctx.ap
            w = c.w
            k = L.k
            env = L.env
            ann = [v for v in env.values() if getattr(v, 'kind', None) == 'dict' and len(getattr(v, 'pairs', [])) == 5]
            if not ann:
                raise Undecided('the result dict of annotate_paths was not found among the locals')
            slots = {kk.s: vv for kk, vv in ann[0].pairs}
            # running minima: the three optional-int locals, matched to their criterion by the name of the slot they guard is not
            # possible by position; they are identified by the order of first assignment in the source: min_to_reach, shortest, fastest
            opt_names = [n for n in L.opt_order if n in env]
            if len(opt_names) != 3:
                raise Undecided('expected three running minima, found %r' % (opt_names,))
            mins = {'foremost': env[opt_names[0]], 'shortest': env[opt_names[1]], 'fastest': env[opt_names[2]]}
            out = [('0 <= k', k >= 0)]
            j = z3.Int('j?ap')
            for name, X in self.crit(w).items():
                mn, mv = self.as_opt(mins[name])
                bn, cnt = self.as_bag(w, slots[name])
                out.append(('%s.none_iff_nothing_seen' % name, z3.And(mn == (k == 0), bn == (k == 0))))
                if L.assuming:
                    wit = fresh('argmin_' + name, Int)
                    out.append(('%s.minimum_is_attained' % name, z3.Implies(k >= 1, z3.And(inb(wit, k), X(w.cid(wit)) == mv))))
                else:
                    out.append(('%s.minimum_is_attained' % name, z3.Implies(k >= 1, z3.Exists([j], z3.And(inb(j, k), X(w.cid(j)) == mv)))))
                out.append(('%s.minimum_is_a_lower_bound' % name, FA([j], z3.Implies(z3.And(k >= 1, inb(j, k)), mv <= X(w.cid(j))), [w.cid(j)])))
                out.append(('%s.lists_exactly_the_minimal_ones' % name,
                            FA([j], z3.Implies(k >= 1, cnt[j] == z3.If(z3.And(inb(j, k), X(w.cid(j)) == mv), 1, 0)), [cnt[j]])))
            for name in ('shortest_fastest', 'fastest_shortest'):
                bn, cnt = self.as_bag(w, slots[name])
                out.append(('%s.still_none' % name, bn))
            return out

        def pre_hook(L):
            return []
        return {'seq/1': LoopSpec(inv, modifies={}, tags=('C14',))}

    def body(self, interp, call):
        # order in which the optional running minima are first assigned in the source (min_to_reach, shortest, fastest)
        import ast as _ast
        fi = interp.engine.fn(self.key)
        order = []
        for st in fi.fdef.body:
            if isinstance(st, _ast.Assign) and isinstance(st.value, _ast.Constant) and st.value.value is None:
                for t in st.targets:
                    if isinstance(t, _ast.Name):
                        order.append(t.id)
        interp.opt_order = order
        return Contract.body(self, interp, call)

    def finish(self, ctx, c, outcome):
        T = ('C14',)
        if outcome[0] == 'raise':
            return self.forbid(ctx, 'C14.annotate.no_exception.%s' % outcome[1], tags=T, note=outcome[2])
        r = outcome[1]
        if r.kind != 'dict':
            return self.shape(ctx, 'C14.annotate.returns_a_dict', tags=T)
        w = c.w
        slots = {kk.s: vv for kk, vv in r.pairs if kk.kind == 'str'}
        i, cc = c.qi, c.qc
        j = z3.Int('j?fin')
        minimal = {}
        for name, X in self.crit(w).items():
            if name not in slots:
                return self.shape(ctx, 'C14.annotate.has_key_%s' % name, tags=T)
            bn, cnt = self.as_bag(w, slots[name])
            ismin = lambda p, X=X: z3.And(inb(p, w.n), z3.ForAll([j], z3.Implies(inb(j, w.n), X(w.cid(p)) <= X(w.cid(j)))))
            minimal[name] = ismin
            ctx.oblige('C14.annotate.%s.is_a_list' % name, z3.Not(bn), tags=T)
            ctx.oblige('C14.annotate.%s.only_optimal_input_paths' % name, z3.Implies(cnt[i] >= 1, ismin(i)), tags=T)
            ctx.oblige('C14.annotate.%s.every_optimal_input_path' % name, z3.Implies(ismin(i), cnt[i] >= 1), tags=T)
        second = {'fastest_shortest': ('shortest', self.crit(w)['fastest']), 'shortest_fastest': ('fastest', self.crit(w)['shortest'])}
        for name, (first, X2) in second.items():
            v = slots.get(name)
            if v is None or v.kind != 'keyset':
                return self.shape(ctx, 'C14.annotate.%s.is_a_list_of_paths' % name, tags=T, note='kind %s' % (v.kind if v is not None else None))
            p, p2 = z3.Int('p?fin'), z3.Int('p2?fin')
            expected = z3.Exists([p], z3.And(minimal[first](p), w.cid(p) == cc,
                                             z3.ForAll([p2], z3.Implies(minimal[first](p2), X2(cc) <= X2(w.cid(p2))))))
            ctx.oblige('C14.annotate.%s.only_the_best_of_%s' % (name, first), z3.Implies(v.member(cc), expected), tags=T)
            ctx.oblige('C14.annotate.%s.every_best_of_%s' % (name, first), z3.Implies(expected, v.member(cc)), tags=T)
