r"""Contracts of the pure helpers over integers, sequences and maps.

compact_timeslot(sind_list)   (C18)
    requires  sind_list is a finite collection of DISTINCT ints (the callers pass dict keys)
    ensures   dom(result) = set(sind_list)
              forall a,b in dom. a < b  =>  result[a] < result[b]                (order preserving, injective)
              forall a in dom. 0 <= result[a] < k   and   forall j. 0 <= j < k => exists a in dom. result[a] = j
                                                                                     (onto 0..k-1, k = |sind_list|)
    trusted   sorted(): an ascending duplicate-free enumeration of exactly the elements; enumerate()."""
import z3
from pyvc.sym import fresh, fresh_fun, Int, Bool, Node, inb, FA
from pyvc.values import *   # noqa
from pyvc.seqs import VIntSet
from .base import Contract, Call


class CompactTimeslot(Contract):
    props = ('C18',)
    key = 'transform::compact_timeslot'

    def __init__(self, bound_n=None):
        self.bound_n = bound_n

    def setup(self, ctx, variant):
        member = fresh_fun('In', Int, Bool)
        arg = VIntSet(lambda q: member(q), lambda q: [member(q)], 'sind_list')
        a, b, j = fresh('a', Int), fresh('b', Int), fresh('j', Int)
        return Call(member=member, argv=[arg], kwv={}, a=a, b=b, j=j)

    def finish(self, ctx, c, outcome):
        T = ('C18',)
        if outcome[0] == 'raise':
            self.forbid(ctx, 'C18.compact.no_exception.%s' % outcome[1], tags=T, note=outcome[2])
            return
        r = outcome[1]
        if r.kind != 'vmap':
            self.forbid(ctx, 'C18.compact.returns_a_dict', tags=T)
            return
        a, b, j = c.a, c.b, c.j
        k = r.meta['n']
        ctx.oblige('C18.compact.domain_is_the_input_set', r.dom(a) == c.member(a), tags=T)
        ga, gb = r.get(a), r.get(b)
        if ga.kind != 'int':
            self.forbid(ctx, 'C18.compact.values_are_ints', tags=T)
            return
        ctx.oblige('C18.compact.strictly_increasing', z3.Implies(z3.And(r.dom(a), r.dom(b), a < b), ga.z < gb.z), tags=T)
        ctx.oblige('C18.compact.values_in_0_k', z3.Implies(r.dom(a), z3.And(0 <= ga.z, ga.z < k)), tags=T)
        w = z3.Int('w?onto')
        ctx.oblige('C18.compact.onto_0_k', z3.Implies(inb(j, k), z3.Exists([w], z3.And(r.dom(w), r.get(w).z == j))), tags=T)

    def search_real(self, engine):
        """bounded search for a failing input on the REAL function (used when a clause is refuted)"""
        import itertools
        from dynetx.utils.transform import compact_timeslot
        for n in range(0, 5):
            for xs in itertools.combinations(range(-3, 4), n):
                for inp in (list(xs), list(reversed(xs))):
                    try:
                        r = compact_timeslot(dict.fromkeys(inp).keys())
                    except Exception as ex:
                        return {'violated': {'C18.compact.no_exception': repr(ex)}, 'call': 'compact_timeslot(%r)' % (inp,), 'args': [inp]}
                    exp = {v: i for i, v in enumerate(sorted(xs))}
                    if r != exp:
                        return {'violated': {'C18.compact.order_preserving_bijection': {'got': repr(r), 'expected': repr(exp)}},
                                'call': 'compact_timeslot(%r)' % (inp,), 'args': [inp], 'outcome': 'return %r' % (r,)}
        return None


class _PathFn(Contract):
    """path = a non-empty sequence of hops (a, b, t); only len, the first and the last time are read"""
    props = ('C14',)

    def setup(self, ctx, variant):
        n = fresh('n', Int)
        ha, hb = fresh_fun('hop_a', Int, Node), fresh_fun('hop_b', Int, Node)
        ht = fresh_fun('hop_t', Int, Int)
        ctx.assume(n >= 1)          # C14: paths are non-empty
        path = VSeq(n, lambda k: VTuple([VNode(ha(k)), VNode(hb(k)), VInt(ht(k))]), {'elem_kind': 'tuple'})
        return Call(n=n, ht=ht, argv=[path], kwv={})


class PathLength(_PathFn):
    key = 'paths::path_length'

    def finish(self, ctx, c, outcome):
        if outcome[0] == 'raise':
            return self.forbid(ctx, 'C14.path_length.no_exception.%s' % outcome[1], tags=('C14',), note=outcome[2])
        r = outcome[1]
        if r.kind != 'int':
            return self.forbid(ctx, 'C14.path_length.returns_an_int', tags=('C14',))
        ctx.oblige('C14.path_length.is_the_hop_count', r.z == c.n, tags=('C14',))


class PathDuration(_PathFn):
    key = 'paths::path_duration'

    def finish(self, ctx, c, outcome):
        if outcome[0] == 'raise':
            return self.forbid(ctx, 'C14.path_duration.no_exception.%s' % outcome[1], tags=('C14',), note=outcome[2])
        r = outcome[1]
        if r.kind != 'int':
            return self.forbid(ctx, 'C14.path_duration.returns_an_int', tags=('C14',))
        ctx.oblige('C14.path_duration.is_last_minus_first_time', r.z == c.ht(c.n - 1) - c.ht(0), tags=('C14',))
