r"""Contract of add_interactions_from x2 (C01, C07), verified modularly against the contract of add_interaction.

add_interactions_from(ebunch, t, e)      ebunch = any finite sequence of pairs (u_0,v_0) ... (u_{n-1},v_{n-1})
requires  Inv(G), edge_removal, t:int|None, e:int|None, (e is None \/ e > t)
raises    NetworkXError iff t is None (state unchanged);
          ValueError iff some element is rejected by the documented rule in the state reached after its predecessors;
          then the state is exactly the state after the k elements that preceded the failing one        (C07.bulk)
ensures   forall x,y,q. P(G',x,y,q) <=> P(G,x,y,q) \/ (q in Span(t,e) /\ exists j<n. samepair(x,y;u_j,v_j))   (C01)
          Ever and the node set grow by exactly the listed pairs / their endpoints; Inv(G') (typestate)
Loop invariant at index k: the same three clauses with n replaced by k ("state = fold of the step relation over the prefix")."""
import z3
from pyvc.sym import fresh, fresh_fun, Node, Int, Bool, IntV, FA, inb
from pyvc.values import *   # noqa
from pyvc import spec
from pyvc.loops import LoopSpec
from .base import Contract, Call, install_caller_hooks
from .kernel import AddInteraction


class AddInteractionsFrom(Contract):
    props = ('C01', 'C07')

    def __init__(self, cls, bound_n=None):
        self.cls = cls
        self.directed = cls == 'DynDiGraph'
        self.mod = 'dyndigraph' if self.directed else 'dyngraph'
        self.key = '%s::%s.add_interactions_from' % (self.mod, cls)

    def variants(self):
        return [{'t': 'int', 'e': 'none'}, {'t': 'int', 'e': 'int'}, {'t': 'none', 'e': 'none'}]

    def uses(self, eng):
        return [AddInteraction(self.cls)]

    def reads(self):
        return [AddInteraction(self.cls).key]

    def setup(self, ctx, variant):
        g = HGraph('self', self.directed, self.cls).havoc('0')
        g['ER'] = z3.BoolVal(True)
        g['Frozen'] = z3.BoolVal(False)
        g.valid = True
        ctx.graphs['self'] = g
        v0 = spec.View('G0')
        ctx.views['self'] = v0
        qx, qy, qq = fresh('qx', Node), fresh('qy', Node), fresh('qq', Int)
        ctx.focus = [qx, qy]
        install_caller_hooks(ctx)
        ctx.feas_skip = {'events', 'snapkeys', 'tte'}
        spec.inv_assume(ctx, g, v0, [qx, qy], [(qx, qy), (qy, qx)], k=2)
        n = fresh('n', Int)
        ua, va = fresh_fun('ua', Int, Node), fresh_fun('va', Int, Node)
        ctx.assume(n >= 0)
        eb = VSeq(n, lambda k: VTuple([VNode(ua(k)), VNode(va(k))]), {'elem_kind': 'tuple'})
        t = fresh('t', Int) if variant['t'] == 'int' else None
        e = fresh('e', Int) if variant['e'] == 'int' else None
        if t is not None and e is not None:
            ctx.assume(e > t)
        argv = [VGraph(g), eb, VInt(t) if t is not None else VNone, VInt(e) if e is not None else VNone]
        c = Call(g=g, pre=g.snapshot(), v0=v0, qx=qx, qy=qy, qq=qq, n=n, ua=ua, va=va, t=t, e=e, argv=argv, kwv={}, variant=variant)
        ctx.bulk = c
        return c

    # clauses of "state = fold over the first k elements", for the Skolem pair (x,y)
    def fold_clauses(self, ctx, c, g, view, k, assuming):
        x, y = c.qx, c.qy
        t1 = c.e - 1 if c.e is not None else c.t
        span = lambda q: z3.And(c.t <= q, q <= t1)
        same = lambda j: spec.samepair(g, x, y, c.ua(j), c.va(j))
        q = z3.Int('q?bk')
        j = z3.Int('j?bk')
        out = []
        if assuming:
            A = fresh('added', Bool)
            w = fresh('wj', Int)
            out.append(('added.witness', z3.Implies(A, z3.And(inb(w, k), same(w)))))
            out.append(('added.all', FA([j], z3.Implies(z3.And(inb(j, k), same(j)), A), [c.ua(j)])))
            added = A
        else:
            added = z3.Exists([j], z3.And(inb(j, k), same(j)))
        C0, C1 = c.pre['Cell_' + g.mainw()], g['Cell_' + g.mainw()]
        out.append(('presence', FA([q], view.Pres[x][y][q] == z3.Or(c.v0.Pres[x][y][q], z3.And(span(q), added)), [view.Pres[x][y][q]])))
        out.append(('ever', (C1[x][y] != 0) == z3.Or(C0[x][y] != 0, added)))
        if assuming:
            N = fresh('isnew', Bool)
            wn = fresh('wn', Int)
            out.append(('nodes.witness', z3.Implies(N, z3.And(inb(wn, k), z3.Or(x == c.ua(wn), x == c.va(wn))))))
            out.append(('nodes.all', FA([j], z3.Implies(z3.And(inb(j, k), z3.Or(x == c.ua(j), x == c.va(j))), N), [c.ua(j)])))
            isnew = N
        else:
            isnew = z3.Exists([j], z3.And(inb(j, k), z3.Or(x == c.ua(j), x == c.va(j))))
        out.append(('nodes', g['NodeIn'][x] == z3.Or(c.pre['NodeIn'][x], isnew)))
        out.append(('node_attributes_kept', z3.Implies(c.pre['NodeIn'][x], g['NAttr'][x] == c.pre['NAttr'][x])))
        return out

    def loop_specs(self):
        def inv(L):
            ctx = L.ctx
            c = ctx.bulk
            ctx.loop_k = L.k
            return [('0 <= k', L.k >= 0)] + self.fold_clauses(ctx, c, ctx.graphs['self'], ctx.views['self'], L.k, L.assuming)
        allc = [x for x in HGraph('self', self.directed, self.cls).comp_names() if x not in ('ER', 'GAttr', 'Frozen')]
        return {'seq/1': LoopSpec(inv, modifies={'self': allc}, tags=('C01', 'C07'))}

    def finish(self, ctx, c, outcome):
        g = c.g
        if outcome[0] == 'raise':
            cls = outcome[1]
            if cls == 'NetworkXError':
                ctx.oblige('C01.bulk.raises.NetworkXError_only_if_t_missing', z3.BoolVal(c.t is None), kind='raises', tags=('C01',))
                for comp, f in spec.state_unchanged(g, c.pre).items():
                    ctx.oblige('C07.bulk.rejected_call_leaves_no_trace.%s' % comp, f, kind='raises', tags=('C07',))
                return
            if cls == 'ValueError' and c.t is not None and getattr(ctx, 'loop_k', None) is not None:
                # the callee rejected element k: the state is the fold over the k preceding elements
                for name, f in self.fold_clauses(ctx, c, g, ctx.views['self'], ctx.loop_k, False):
                    ctx.oblige('C07.bulk.state_is_the_prefix_state.%s' % name, f, kind='raises', tags=('C07',))
                ctx.oblige('C03.built_via_kernel', z3.BoolVal(bool(g.valid)), tags=('C03', 'C07'))
                return
            self.forbid(ctx, 'C01.bulk.no_other_exception.%s' % cls, tags=('C01',), note=outcome[2])
            return
        if c.t is None:
            self.forbid(ctx, 'C01.bulk.missing_t_must_be_rejected', tags=('C01',))
            return
        for name, f in self.fold_clauses(ctx, c, g, ctx.views['self'], c.n, False):
            ctx.oblige('C01.bulk.state_is_the_fold_of_the_elements.%s' % name, f, tags=('C01',))
        ctx.oblige('C03.built_via_kernel', z3.BoolVal(bool(g.valid)), tags=('C03', 'C01'))
