r"""Contract of add_interactions_from x2 (C01, C07), verified modularly against the contract of add_interaction.

add_interactions_from(ebunch, t, e)      ebunch = any finite sequence of pairs (u_0,v_0) ... (u_{n-1},v_{n-1})
requires  Inv(G), edge_removal, t:int|None, e:int|None, (e is None \/ e > t)
raises    NetworkXError iff t is None (state unchanged);
          ValueError iff some element is rejected by the documented rule in the state reached after its predecessors;
          then the state is exactly the state after the k elements that preceded the failing one        (C07.bulk)
ensures   forall x,y,q. P(G',x,y,q) <=> P(G,x,y,q) \/ (q in Span(t,e) /\ exists j<n. samepair(x,y;u_j,v_j))   (C01)
          Ever and the node set grow by exactly the listed pairs / their endpoints; Inv(G') (typestate)
Loop invariant at index k: the same three clauses with n replaced by k ("state = fold of the step relation over the prefix")."""
import z3
from pyvc.sym import fresh, fresh_fun, Node, Int, Bool, IntV, FA, inb
from pyvc.values import *   # noqa
from pyvc import spec
from pyvc.loops import LoopSpec
from .base import Contract, Call, install_caller_hooks
from .kernel import AddInteraction


class AddInteractionsFrom(Contract):
    props = ('C01', 'C07')

    def __init__(self, cls, bound_n=None):
        self.cls = cls
        self.directed = cls == 'DynDiGraph'
        self.mod = 'dyndigraph' if self.directed else 'dyngraph'
        self.key = '%s::%s.add_interactions_from' % (self.mod, cls)

    def variants(self):
        return [{'t': 'int', 'e': 'none'}, {'t': 'int', 'e': 'int'}, {'t': 'none', 'e': 'none'}]

    def uses(self, eng):
        return [AddInteraction(self.cls)]

    def reads(self):
        return [AddInteraction(self.cls).key]

    def setup(self, ctx, variant):
        g = HGraph('self', self.directed, self.cls).havoc('0')
        g['ER'] = z3.BoolVal(True)
        g['Frozen'] = z3.BoolVal(False)
        g.valid = True
        ctx.graphs['self'] = g
        v0 = spec.View('G0')
        ctx.views['self'] = v0
        qx, qy, qq = fresh('qx', Node), fresh('qy', Node), fresh('qq', Int)
        ctx.focus = [qx, qy]
        install_caller_hooks(ctx)
        ctx.feas_skip = {'events', 'snapkeys', 'tte'}
        spec.inv_assume(ctx, g, v0, [qx, qy], [(qx, qy), (qy, qx)], k=2)
        n = fresh('n', Int)
        ua, va = fresh_fun('ua', Int, Node), fresh_fun('va', Int, Node)
        ctx.assume(n >= 0)
        eb = VSeq(n, lambda k: VTuple([VNode(ua(k)), VNode(va(k))]), {'elem_kind': 'tuple'})
        t = fresh('t', Int) if variant['t'] == 'int' else None
        e = fresh('e', Int) if variant['e'] == 'int' else None
        if t is not None and e is not None:
            ctx.assume(e > t)
        argv = [VGraph(g), eb, VInt(t) if t is not None else VNone, VInt(e) if e is not None else VNone]
        c = Call(g=g, pre=g.snapshot(), v0=v0, qx=qx, qy=qy, qq=qq, n=n, ua=ua, va=va, t=t, e=e, argv=argv, kwv={}, variant=variant)
        ctx.bulk = c
        return c

    # clauses of "state = fold over the first k elements", for the Skolem pair (x,y)
    def fold_clauses(self, ctx, c, g, view, k, assuming):
        x, y = c.qx, c.qy
        t1 = c.e - 1 if c.e is not None else c.t
        span = lambda q: z3.And(c.t <= q, q <= t1)
        same = lambda j: spec.samepair(g, x, y, c.ua(j), c.va(j))
        q = z3.Int('q?bk')
        j = z3.Int('j?bk')
        out = []
        if assuming:
            A = fresh('added', Bool)
            w = fresh('wj', Int)
            out.append(('added.witness', z3.Implies(A, z3.And(inb(w, k), same(w)))))
            out.append(('added.all', FA([j], z3.Implies(z3.And(inb(j, k), same(j)), A), [c.ua(j)])))
            added = A
        else:
            added = z3.Exists([j], z3.And(inb(j, k), same(j)))
        C0, C1 = c.pre['Cell_' + g.mainw()], g['Cell_' + g.mainw()]
        out.append(('presence', FA([q], view.Pres[x][y][q] == z3.Or(c.v0.Pres[x][y][q], z3.And(span(q), added)), [view.Pres[x][y][q]])))
        out.append(('ever', (C1[x][y] != 0) == z3.Or(C0[x][y] != 0, added)))
        if assuming:
            N = fresh('isnew', Bool)
            wn = fresh('wn', Int)
            out.append(('nodes.witness', z3.Implies(N, z3.And(inb(wn, k), z3.Or(x == c.ua(wn), x == c.va(wn))))))
            out.append(('nodes.all', FA([j], z3.Implies(z3.And(inb(j, k), z3.Or(x == c.ua(j), x == c.va(j))), N), [c.ua(j)])))
            isnew = N
        else:
            isnew = z3.Exists([j], z3.And(inb(j, k), z3.Or(x == c.ua(j), x == c.va(j))))
        out.append(('nodes', g['NodeIn'][x] == z3.Or(c.pre['NodeIn'][x], isnew)))
        out.append(('node_attributes_kept', z3.Implies(c.pre['NodeIn'][x], g['NAttr'][x] == c.pre['NAttr'][x])))
        return out

    def loop_specs(self):
        def inv(L):
            ctx = L.ctx
            c = ctx.bulk
            ctx.loop_k = L.k
            return [('0 <= k', L.k >= 0)] + self.fold_clauses(ctx, c, ctx.graphs['self'], ctx.views['self'], L.k, L.assuming)
        allc = [x for x in HGraph('self', self.directed, self.cls).comp_names() if x not in ('ER', 'GAttr', 'Frozen')]
        return {'seq/1': LoopSpec(inv, modifies={'self': allc}, tags=('C01', 'C07'))}

    def finish(self, ctx, c, outcome):
        g = c.g
        if outcome[0] == 'raise':
            cls = outcome[1]
            if cls == 'NetworkXError':
                ctx.oblige('C01.bulk.raises.NetworkXError_only_if_t_missing', z3.BoolVal(c.t is None), kind='raises', tags=('C01',))
                for comp, f in spec.state_unchanged(g, c.pre).items():
                    ctx.oblige('C07.bulk.rejected_call_leaves_no_trace.%s' % comp, f, kind='raises', tags=('C07',))
                return
            if cls == 'ValueError' and c.t is not None and getattr(ctx, 'loop_k', None) is not None:
                # the callee rejected element k: the state is the fold over the k preceding elements
                for name, f in self.fold_clauses(ctx, c, g, ctx.views['self'], ctx.loop_k, False):
                    ctx.oblige('C07.bulk.state_is_the_prefix_state.%s' % name, f, kind='raises', tags=('C07',))
                ctx.oblige('C03.built_via_kernel', z3.BoolVal(bool(g.valid)), tags=('C03', 'C07'))
                return
            self.forbid(ctx, 'C01.bulk.no_other_exception.%s' % cls, tags=('C01',), note=outcome[2])
            return
        if c.t is None:
            self.forbid(ctx, 'C01.bulk.missing_t_must_be_rejected', tags=('C01',))
            return
        for name, f in self.fold_clauses(ctx, c, g, ctx.views['self'], c.n, False):
            ctx.oblige('C01.bulk.state_is_the_fold_of_the_elements.%s' % name, f, tags=('C01',))
        ctx.oblige('C03.built_via_kernel', z3.BoolVal(bool(g.valid)), tags=('C03', 'C01'))


# ---- add_star / add_path / add_cycle (methods and dn.* forms): thin wrappers around add_interactions_from ----------------------------
#
# ensures  exactly ONE call of add_interactions_from, made in the unchanged pre-state (no node is registered beforehand), with t passed
#          through and the pair sequence   star: (x_0, x_{k+1}), k < n-1     path: (x_k, x_{k+1}), k < n-1     cycle: (x_k, x_{(k+1) mod n}), k < n
#          for nodes = x_0 ... x_{n-1};  nothing else is done: the effect is the callee's (AddInteractionsFrom: verified contract)
# requires star, cycle: n >= 1 (an empty node list raises IndexError / StopIteration before anything is touched)

class BulkCallSite(Contract):
    """caller side of add_interactions_from inside the helpers: site obligations only"""
    props = ('C01', 'C07')

    def __init__(self, cls):
        self.cls = cls
        mod = 'dyndigraph' if cls == 'DynDiGraph' else 'dyngraph'
        self.key = '%s::%s.add_interactions_from' % (mod, cls)

    def apply(self, interp, g, argv, kwv):
        from pyvc.seqs import _as_seq
        ctx = interp.ctx
        c = ctx.bh
        T_ = ('C01', 'C07')
        args = dict(zip(['ebunch', 't', 'e'], argv))
        args.update(kwv)
        eb, t, e = args.get('ebunch'), args.get('t', VNone), args.get('e', VNone)
        c.calls += 1
        for comp, f in spec.state_unchanged(c.g, c.pre).items():
            ctx.oblige('C07.helper.nothing_is_touched_before_the_bulk_call.%s' % comp, f, tags=T_, kind='call-site')
        ok_t = (t.kind == 'none') if c.t is None else (t.kind == 'int' and True)
        ctx.oblige('C01.helper.passes_t', (z3.BoolVal(ok_t) if c.t is None or t.kind != 'int' else t.z == c.t), tags=T_, kind='call-site')
        ctx.oblige('C01.helper.passes_no_vanishing_time', z3.BoolVal(e.kind == 'none'), tags=T_, kind='call-site')
        try:
            s = _as_seq(interp, eb) if eb.kind != 'seqiter' else None
        except Undecided:
            s = None
        if s is None:
            self.shape(ctx, 'C01.helper.passes_a_sequence_of_pairs', tags=T_, note='ebunch kind %s' % (eb.kind if eb is not None else None))
        else:
            ctx.oblige('C01.helper.number_of_pairs', s.n == c.n_pairs, tags=T_, kind='call-site')
            k = c.k
            el = s.elem(k)
            if el.kind == 'tuple' and len(el.items) == 2 and all(x.kind == 'node' for x in el.items):
                a, b = c.pair(k)
                ctx.oblige('C01.helper.pair_k', z3.Implies(z3.And(0 <= k, k < c.n_pairs), z3.And(el.items[0].z == a, el.items[1].z == b)), tags=T_, kind='call-site')
            else:
                self.shape(ctx, 'C01.helper.pairs_are_node_pairs', tags=T_, note='element kind %s' % el.kind)
        g.havoc('@bulk')                  # the callee's effect: not modelled here (its own contract)
        return VNone


class BulkHelper(Contract):
    props = ('C01', 'C07')

    def __init__(self, cls, fname, functional=False, bound_n=None):
        self.cls, self.fname, self.functional = cls, fname, functional
        self.directed = cls == 'DynDiGraph'
        mod = 'dyndigraph' if self.directed else 'dyngraph'
        self.key = ('function::%s' % fname) if functional else '%s::%s.%s' % (mod, cls, fname)

    def variants(self):
        return [{'t': 'int'}, {'t': 'none'}]

    def uses(self, eng):
        return [BulkCallSite(self.cls)]

    def setup(self, ctx, variant):
        g = HGraph('self' if not self.functional else 'G', self.directed, self.cls).havoc('0')
        g['ER'] = fresh('er', Bool)
        ctx.graphs[g.name] = g
        n = fresh('n', Int)
        xf = fresh_fun('x', Int, Node)
        kind = self.fname.split('_')[1]
        ctx.assume(n >= (0 if kind == 'path' else 1))
        t = fresh('t', Int) if variant['t'] == 'int' else None
        nodes = VSeq(n, lambda k: VNode(xf(k)), {'elem_kind': 'node'})
        if kind == 'star':
            n_pairs, pair = n - 1, (lambda k: (xf(0), xf(k + 1)))
        elif kind == 'path':
            n_pairs, pair = z3.If(n >= 1, n - 1, IntV(0)), (lambda k: (xf(k), xf(k + 1)))
        else:
            n_pairs, pair = n, (lambda k: (xf(k), z3.If(k + 1 < n, xf(k + 1), xf(0))))
        c = Call(g=g, pre=g.snapshot(), t=t, n=n, n_pairs=n_pairs, pair=pair, k=fresh('k', Int), calls=0,
                 argv=[VGraph(g), nodes, VInt(t) if t is not None else VNone], kwv={})
        ctx.bh = c
        return c

    def finish(self, ctx, c, outcome):
        T_ = ('C01', 'C07')
        if outcome[0] == 'raise':
            return self.forbid(ctx, 'C01.helper.no_exception_of_its_own.%s' % outcome[1], tags=T_, note=outcome[2])
        if c.calls != 1:
            return self.forbid(ctx, 'C01.helper.exactly_one_bulk_call', tags=T_, note='%d call(s)' % c.calls)
        ctx.oblige('C01.helper.exactly_one_bulk_call', z3.BoolVal(True), tags=T_)


def run_helper_case(cls, fname, functional, nodes, t):
    """the real helper on a small graph with add_interactions_from replaced (on the instance) by a recording stub"""
    import dynetx as dn
    G = getattr(dn, cls)()
    G.add_interaction(8, 9, 0)
    kind = fname.split('_')[1]
    n = len(nodes)
    exp = {'star': [(nodes[0], x) for x in nodes[1:]], 'path': list(zip(nodes[:-1], nodes[1:])),
           'cycle': list(zip(nodes, nodes[1:] + nodes[:1]))}[kind]
    dump = lambda: (sorted(G.nodes()), sorted((a, b, repr(d)) for a, b, d in (G.interactions() if cls == 'DynGraph' else G.out_interactions())),
                    sorted(G.snapshots.items()))
    before = dump()
    calls = []

    def stub(ebunch, t=None, e=None, **kw):
        calls.append((list(ebunch), t, e, dump()))
    G.add_interactions_from = stub
    out = {}
    try:
        if functional:
            getattr(dn, fname)(G, list(nodes), t)
        else:
            getattr(G, fname)(list(nodes), t)
    except Exception as ex:
        return {'C01.helper.no_exception_of_its_own.%s' % type(ex).__name__: repr(ex)}
    if len(calls) != 1:
        return {'C01.helper.exactly_one_bulk_call': '%d calls' % len(calls)}
    eb, t_, e_, at_call = calls[0]
    if at_call != before:
        out['C07.helper.nothing_is_touched_before_the_bulk_call.NodeIn'] = 'state at the bulk call %r, before the helper %r' % (at_call, before)
    if t_ != t:
        out['C01.helper.passes_t'] = 't=%r passed, %r given' % (t_, t)
    if e_ is not None:
        out['C01.helper.passes_no_vanishing_time'] = 'e=%r' % (e_,)
    if len(eb) != len(exp):
        out['C01.helper.number_of_pairs'] = '%s(%r): pairs %r, expected %r' % (fname, nodes, eb, exp)
    elif [tuple(x) for x in eb] != exp:
        out['C01.helper.pair_k'] = '%s(%r): pairs %r, expected %r' % (fname, nodes, eb, exp)
    return out


def _search_helper(self, engine):
    for nodes in ([1, 2, 3], [1, 2], [4, 5, 6, 7], [1], [3, 3, 1]):
        for t in (2, None):
            v = run_helper_case(self.cls, self.fname, self.functional, nodes, t)
            if v:
                return {'violated': v, 'call': '%s%s(%r, %r) on a %s; add_interactions_from replaced by a recording stub' % ('dn.' if self.functional else 'G.', self.fname, nodes, t, self.cls),
                        'replayer': {'module': 'contracts.bulk', 'function': 'run_helper_case', 'args': [self.cls, self.fname, self.functional, nodes, t]}}
    return None


BulkHelper.search_real = _search_helper
