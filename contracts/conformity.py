r"""Contract of sliding_delta_conformity (C20: "sliding = the per-snapshot delta_conformity results, stamped t + delta"), modular
against an ASSUMED contract of delta_conformity (its numeric content is the bounded stand-in's business).

delta_conformity(dg, start, delta, alphas, labels, profile_size, hierarchies, path_type, progress_bar, sample)      [assumed]
    for fixed (dg, delta, alphas, labels, profile_size, hierarchies, path_type, sample) the result is a function Conf(start):
    None, or a dict  alpha-key -> attribute-key -> node -> value;  progress_bar does not influence it;  dg is not modified.
    Call-site obligations (checked at every call inside sliding_delta_conformity): each of the eight fixed arguments IS the
    caller's own argument (or the caller's default), whatever mix of positional / keyword passing is used.

sliding_delta_conformity(dg, delta, alphas, labels, profile_size, hierarchies, path_type, progress_bar, sample)
    ensures  the result is the nested collection R built by the function with, for all alpha-keys a, attribute-keys b, nodes n, stamps s:
               #{pairs with stamp s in R[a][b][n]} = [ s - delta is a snapshot id  /\  s < last snapshot id
                                                        /\ Conf(s - delta) is not None  /\  n in Conf(s - delta)[a][b] ]
               and the value paired with s is Conf(s - delta)[a][b][n]
             no exception; dg is not modified
    NOT covered: the order of the pairs inside one list (they are appended in increasing t; bounded stand-in compares the lists).
Loops: outer over the snapshot ids (index k, ids ascending: "s - delta was visited" is idx(s - delta) < k); three nested loops over
the items of the callee's result (ghost visited sets): the count array grows by exactly the visited part of Conf(t)."""
import z3
from pyvc.sym import fresh, Node, Int, Bool, Obj, IntV, b2i
from pyvc.values import *   # noqa
from pyvc import spec
from pyvc.loops import LoopSpec
from pyvc.accmodel import ConfWorld, VNDict
from .base import Contract, Call
from .readside import TemporalSnapshotsIds

T = ('C20',)
FIXED = ('dg', 'delta', 'alphas', 'labels', 'profile_size', 'hierarchies', 'path_type', 'sample')


def _same(got, exp):
    if got is None:
        return False
    if exp.kind == 'graph':
        return got.kind == 'graph' and got.g is exp.g
    if got.kind != exp.kind:
        return False
    if exp.kind in ('int', 'bool', 'opaque', 'node'):
        return got.z == exp.z
    if exp.kind == 'none':
        return True
    if exp.kind == 'str':
        return got.s == exp.s
    return got is exp


class DeltaConformityAssumed(Contract):
    """caller-side only: the callee is NOT verified (assumed contract, listed in the evidence)"""
    props = T
    key = 'assortativity::delta_conformity'

    def apply(self, interp, g, argv, kwv):
        ctx = interp.ctx
        c = ctx.sl
        env = interp.bind_args(interp.engine.fn(self.key).fdef, argv, kwv)
        for p in FIXED:
            if p not in env and p not in c.expected:
                raise Undecided('delta_conformity has no parameter %s any more' % p)
            ok = _same(env.get(p), c.expected[p])
            ctx.oblige('C20.sliding.call_passes_its_own_argument.%s' % p, z3.BoolVal(ok) if isinstance(ok, bool) else ok, tags=T, kind='call-site')
        st = env.get('start')
        if st is None or st.kind != 'int':
            self.forbid(ctx, 'C20.sliding.call_passes_an_instant_as_start', tags=T)
            raise Undecided('start is not an int')
        ctx.notes.append('assumed contract: delta_conformity (result a function of start for fixed other arguments; dg not modified)')
        if ctx.branch(c.w.cnone(st.z), 'conf-none'):
            return VNone
        return VNDict(c.w, st.z)


class SlidingDeltaConformity(Contract):
    props = T
    key = 'assortativity::sliding_delta_conformity'

    def __init__(self, cls='DynGraph', bound_n=None):
        self.cls = cls
        self.directed = cls == 'DynDiGraph'
        self.ids = TemporalSnapshotsIds(cls)
        self.callee = DeltaConformityAssumed()

    def variants(self):
        return [{'args': 'all'}, {'args': 'defaults'}]

    def uses(self, eng):
        return [self.ids, self.callee]

    def reads(self):
        return [self.ids.key, 'function::temporal_snapshots_ids']

    def setup(self, ctx, variant):
        g = HGraph('dg', self.directed, self.cls).havoc('0')
        g['ER'] = fresh('er', Bool)
        ctx.graphs['dg'] = g
        delta = fresh('delta', Int)
        op = lambda n: VOpaque(fresh(n, Obj), 'param')
        exp = {'dg': VGraph(g), 'delta': VInt(delta), 'alphas': op('alphas'), 'labels': op('labels')}
        argv = [exp['dg'], exp['delta'], exp['alphas'], exp['labels']]
        kwv = {}
        if variant['args'] == 'all':
            exp.update({'profile_size': VInt(fresh('profile_size', Int)), 'hierarchies': op('hierarchies'), 'path_type': op('path_type'),
                        'sample': op('sample')})
            argv += [exp['profile_size'], exp['hierarchies'], exp['path_type'], VBool(fresh('progress_bar', Bool)), exp['sample']]
        else:
            # the documented defaults of sliding_delta_conformity
            exp.update({'profile_size': VInt(IntV(1)), 'hierarchies': VNone, 'path_type': VStr('shortest'), 'sample': VInt(IntV(1))})
        SK = g['SKey']
        hi = fresh('hi', Int)
        q = z3.Int('q?hi')
        ctx.assume(z3.ForAll([q], z3.Implies(SK[q], z3.And(SK[hi], q <= hi)), patterns=[SK[q]]))      # definition of the last snapshot id
        c = Call(g=g, pre=g.snapshot(), delta=delta, expected=exp, w=ConfWorld(), hi=hi,
                 qa=fresh('qa', Obj), qb=fresh('qb', Obj), qn=fresh('qn', Node), qs=fresh('qs', Int), argv=argv, kwv=kwv)
        ctx.sl = c
        return c

    # ---- loop invariants
    def loop_specs(self):
        a, b = z3.Consts('a?sl b?sl', Obj)
        n = z3.Const('n?sl', Node)
        s = z3.Int('s?sl')

        def accs(L):
            cur = [v for v in L.env.values() if getattr(v, 'kind', None) == 'acc']
            old = [v for v in L.env0.values() if getattr(v, 'kind', None) == 'acc']
            if len(cur) != 1 or len(old) != 1:
                raise Undecided('expected exactly one nested collection among the locals')
            return cur[0], old[0]

        def values_inv(L, acc):
            c = L.ctx.sl
            return ('every_collected_value_is_the_callee_value',
                    z3.ForAll([a, b, n, s], z3.Implies(acc.cnt[a][b][n][s] >= 1, acc.val[a][b][n][s] == c.w.cv(s - c.delta, a, b, n)),
                              patterns=[acc.val[a][b][n][s]]))

        def loopvars(L, depth):
            """the variables of the enclosing loops, by position: t (outermost), then the level-1 key, the level-2 key"""
            stack = L.interp.loop_stack
            import ast as _ast
            out = []
            for (node, it) in stack[:depth]:
                names = [x.id for x in _ast.walk(node.target) if isinstance(x, _ast.Name)]
                out.append(L.env[names[0]].z)
            return out

        def outer(L):
            c = L.ctx.sl
            acc, _ = accs(L)
            it = L.iterable
            if it.kind != 'seq' or 'idx' not in it.meta:
                raise Undecided('outer loop does not run over the sorted snapshot ids')
            f, idx = it.meta['f'], it.meta['idx']
            SK = c.pre['SKey']
            last = f(it.n - 1)
            t_ = s - c.delta
            return [('collected_so_far',
                     z3.ForAll([a, b, n, s], acc.cnt[a][b][n][s] == b2i(z3.And(SK[t_], idx(t_) < L.k, s < last, z3.Not(c.w.cnone(t_)), c.w.entry(t_, a, b, n))),
                               patterns=[acc.cnt[a][b][n][s]])),
                    values_inv(L, acc)]

        def outer_hints(L):
            it = L.iterable
            f, idx = it.meta['f'], it.meta['idx']
            L.ctx.mention(idx(f(L.k)), f(it.n - 1))
            return []

        def lvl1(L):
            c = L.ctx.sl
            acc, acc0 = accs(L)
            (t,) = loopvars(L, 1)
            return [('collected_for_the_visited_level1_keys',
                     z3.ForAll([a, b, n, s], acc.cnt[a][b][n][s] == acc0.cnt[a][b][n][s] + b2i(z3.And(s == t + c.delta, L.vis(a), c.w.k2(t, a, b), c.w.k3(t, a, b, n))),
                               patterns=[acc.cnt[a][b][n][s]])),
                    values_inv(L, acc)]

        def lvl2(L):
            c = L.ctx.sl
            acc, acc0 = accs(L)
            t, a1 = loopvars(L, 2)
            return [('collected_for_the_visited_level2_keys',
                     z3.ForAll([a, b, n, s], acc.cnt[a][b][n][s] == acc0.cnt[a][b][n][s] + b2i(z3.And(s == t + c.delta, a == a1, L.vis(b), c.w.k3(t, a1, b, n))),
                               patterns=[acc.cnt[a][b][n][s]])),
                    values_inv(L, acc)]

        def lvl3(L):
            c = L.ctx.sl
            acc, acc0 = accs(L)
            t, a1, b1 = loopvars(L, 3)
            return [('collected_for_the_visited_nodes',
                     z3.ForAll([a, b, n, s], acc.cnt[a][b][n][s] == acc0.cnt[a][b][n][s] + b2i(z3.And(s == t + c.delta, a == a1, b == b1, L.vis(n))),
                               patterns=[acc.cnt[a][b][n][s]])),
                    values_inv(L, acc)]
        return {'seq/1': LoopSpec(outer, modifies={}, assumes=outer_hints, tags=T),
                1: LoopSpec(lvl1, modifies={}, tags=T), 2: LoopSpec(lvl2, modifies={}, tags=T), 3: LoopSpec(lvl3, modifies={}, tags=T)}

    def finish(self, ctx, c, outcome):
        if outcome[0] == 'raise':
            return self.forbid(ctx, 'C20.sliding.no_exception.%s' % outcome[1], tags=T, note=outcome[2])
        r = outcome[1]
        if r.kind != 'acc':
            return self.shape(ctx, 'C20.sliding.returns_the_collected_series', tags=T, note='result kind %s' % r.kind)
        SK = c.pre['SKey']
        a, b, n, s = c.qa, c.qb, c.qn, c.qs
        t_ = s - c.delta
        ctx.oblige('C20.sliding.one_entry_per_qualifying_snapshot_stamped_t_plus_delta',
                   r.cnt[a][b][n][s] == b2i(z3.And(SK[t_], s < c.hi, z3.Not(c.w.cnone(t_)), c.w.entry(t_, a, b, n))), tags=T)
        ctx.oblige('C20.sliding.entry_value_is_the_delta_conformity_value',
                   z3.Implies(r.cnt[a][b][n][s] >= 1, r.val[a][b][n][s] == c.w.cv(t_, a, b, n)), tags=T)
        for comp, f in spec.state_unchanged(c.g, c.pre).items():
            ctx.oblige('C20.sliding.modifies_nothing.%s' % comp, f, tags=T)

    def search_real(self, engine):
        """bounded search for a failing input on the REAL sliding_delta_conformity, with delta_conformity replaced by a recording
        stub (the contract is modular: only what sliding does with the callee's results is at stake)"""
        import itertools
        for k in range(0, 5):
            for ids in itertools.combinations((0, 1, 2, 4, 5, 8), k):
                for delta in (0, 1, 2, 3):
                    v = run_case(self.cls, list(ids), delta)
                    if v:
                        return {'violated': v, 'call': 'sliding_delta_conformity(G, %d, [1, 2.5], ["lab"], 2, {"h": 1}, "fastest", False, 0.5) on a %s with an '
                                'interaction 1-2 at each of the instants %r; delta_conformity replaced by a recording stub' % (delta, self.cls, list(ids)),
                                'args': [self.cls, list(ids), delta],
                                'replayer': {'module': 'contracts.conformity', 'function': 'run_case', 'args': [self.cls, list(ids), delta]}}
        return None


def run_case(cls, ids, delta):
    """the real sliding_delta_conformity on the graph with the interaction 1-2 at every instant of `ids`; delta_conformity is replaced
    by a stub that returns None for instants = 2 mod 3 and otherwise a dict whose leaf values record the instant and every argument
    it received.  Returns {clause: detail} of the violated clauses."""
    import dynetx as dn
    from dynetx.algorithms import assortativity as A
    G = getattr(dn, cls)()
    for q in ids:
        G.add_interaction(1, 2, q)
    alphas, labels, hier = [1, 2.5], ['lab'], {'h': 1}

    def stub(dg, start, delta, alphas, labels, profile_size=1, hierarchies=None, path_type="shortest", progress_bar=False, sample=1):
        if start % 3 == 2:
            return None
        rec = repr((dg is G, delta, alphas, labels, profile_size, hierarchies, path_type, sample))
        return {'%.2f' % al: {'lab': {n: (start, rec) for n in (1, 2)}} for al in alphas}
    want_rec = repr((True, delta, alphas, labels, 2, hier, 'fastest', 0.5))
    exp = {}
    for t in ids:
        if t + delta < ids[-1] and t % 3 != 2:
            for al in alphas:
                for n in (1, 2):
                    exp.setdefault(('%.2f' % al, 'lab', n), []).append((t + delta, (t, want_rec)))
    real = A.delta_conformity
    A.delta_conformity = stub
    out = {}
    try:
        try:
            res = A.sliding_delta_conformity(G, delta, alphas, labels, 2, hier, 'fastest', False, 0.5)
        except Exception as ex:
            return {'C20.sliding.no_exception.%s' % type(ex).__name__: repr(ex)}
    finally:
        A.delta_conformity = real
    got = {}
    try:
        for a, d1 in res.items():
            for b, d2 in d1.items():
                for n, seq in d2.items():
                    if len(seq):
                        got[(a, b, n)] = [tuple(x) for x in seq]
    except Exception as ex:
        return {'C20.sliding.returns_the_collected_series': 'result %r: %r' % (res, ex)}
    if got != exp:
        recs = set(x[1][1] for v in got.values() for x in v)
        if recs - {want_rec}:
            p = [i for i, (x, y) in enumerate(zip(eval(sorted(recs - {want_rec})[0]), eval(want_rec))) if x != y]
            names = ('dg', 'delta', 'alphas', 'labels', 'profile_size', 'hierarchies', 'path_type', 'sample')
            for i in p:
                out['C20.sliding.call_passes_its_own_argument.%s' % names[i]] = 'delta_conformity received %s, the caller was given %s' % (sorted(recs - {want_rec})[0], want_rec)
        stamps_g = sorted((k, [x[0] for x in v]) for k, v in got.items())
        stamps_e = sorted((k, [x[0] for x in v]) for k, v in exp.items())
        if stamps_g != stamps_e:
            out['C20.sliding.one_entry_per_qualifying_snapshot_stamped_t_plus_delta'] = 'stamps %r, expected %r' % (stamps_g, stamps_e)
        elif not out:
            out['C20.sliding.entry_value_is_the_delta_conformity_value'] = 'result %r, expected %r' % (got, exp)
    return out
