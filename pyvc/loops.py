"""Loops that cannot be unrolled are cut with an invariant from the sidecar contract (DESIGN 1.3):
assert Inv on entry; havoc what the body modifies; assume Inv for an arbitrary prefix; execute the body
once; assert Inv for the extended prefix (path ends); on the exit alternative assume Inv for the whole
collection and continue after the loop.  No unrolling bound."""
import ast
import z3
from .sym import fresh, Int, Bool, Node, Obj, IntV, inb
from .values import *   # noqa
from .interp import PathEnd, _Break, _Continue


class LoopSpec(object):
    """modifies: {graph name: [component names]} written by the body; inv(L) -> [(name, formula)];
    assumes(L) -> extra facts (lemma instances) added after the invariant is assumed."""

    def __init__(self, inv, modifies=None, assumes=None, note='', on_exit=None, tags=()):
        self.inv, self.modifies, self.assumes, self.note, self.on_exit, self.tags = inv, (modifies or {}), assumes, note, on_exit, tuple(tags)


class PrefixCut(object):
    """the contract of the enclosing function covers the code up to this loop only: `hook(interp, fr, it)` emits the obligations
    about the state at the loop head, then the path ends (what the loop and the code after it do is NOT under contract)"""

    def __init__(self, hook, note=''):
        self.hook, self.note = hook, note


class LoopState(object):
    pass


def assigned_names(stmts):
    out = set()
    for s in stmts:
        for n in ast.walk(s):
            if isinstance(n, ast.Name) and isinstance(n.ctx, ast.Store):
                out.add(n.id)
            if isinstance(n, ast.Yield):
                out.update(('$ycnt', '$yany', '$ylast', '$ypair', '$yrow', '$yseq', '$ylen', '$ydeg'))       # ghost state of a generator
            if isinstance(n, ast.Subscript) and isinstance(n.ctx, ast.Store) and isinstance(n.value, ast.Name):
                out.add(n.value.id)                          # d[k] = v mutates the local d
            if isinstance(n, ast.Call) and isinstance(n.func, ast.Attribute) and n.func.attr in ('append', 'extend', 'update', 'add', 'pop', 'clear'):
                base = n.func.value
                while isinstance(base, (ast.Subscript, ast.Attribute)):
                    base = base.value
                if isinstance(base, ast.Name):
                    out.add(base.id)                         # x[...].append(v) mutates (something reachable from) the local x
    return out


def grown_names(stmts):
    """locals that the statements grow in place (x.append / extend / add / update ...)"""
    out = set()
    for s in stmts:
        for n in ast.walk(s):
            if isinstance(n, ast.Call) and isinstance(n.func, ast.Attribute) and n.func.attr in ('append', 'extend', 'update', 'add', 'pop', 'clear', 'insert', 'remove'):
                if isinstance(n.func.value, ast.Name):
                    out.add(n.func.value.id)
    return out


def havoc_like(v, name):
    k = v.kind
    if k == 'int':
        return VInt(fresh(name, Int))
    if k == 'bool':
        return VBool(fresh(name, Bool))
    if k == 'node':
        return VNode(fresh(name, Node))
    if k == 'none':
        # a local that is None at loop entry and assigned in the body: an optional int (checked after the body)
        from .pathsmodel import VOptInt
        return VOptInt(fresh(name + '.isnone', Bool), fresh(name, Int))
    if k == 'optint':
        from .pathsmodel import VOptInt
        return VOptInt(fresh(name + '.isnone', Bool), fresh(name, Int))
    if k == 'optbag':
        from .pathsmodel import VOptBag
        return VOptBag(v.w, fresh(name + '.isnone', Bool), fresh(name + '.cnt', z3.ArraySort(Int, Int)))
    if k == 'seq':
        from .seqs import havoc_seq
        return havoc_seq(v, name)
    if k == 'tuple':
        return VTuple([havoc_like(x, name) for x in v.items])
    if k == 'list' and not v.esc:
        return VList([havoc_like(x, '%s[%d]' % (name, i)) for i, x in enumerate(v.items)])
    if k == 'opaque' and v.tag == 'ghost':
        return VOpaque(fresh(name, v.z.sort()), 'ghost')
    if k == 'dict' and v.pairs and all(kk.kind == 'str' for kk, _ in v.pairs) and not v.esc and any(kk.s == 'links' for kk, _ in v.pairs) \
            and getattr(CUR_CTX, 'pathworld', None) is None:
        # node-link data: the slot 'links' is a list of link dicts that grows inside loops (a multiset of (source, target, time));
        # the other slots are not written by the loops
        out = []
        for kk, vv in v.pairs:
            if kk.s == 'links':
                if vv.kind not in ('linkbag', 'list'):
                    raise Undecided('links slot of kind %s' % vv.kind)
                if vv.kind == 'list' and vv.items:
                    raise Undecided('links list not empty before the loops')
                out.append((kk, VLinkBag(fresh(name + '.links', z3.ArraySort(Node, z3.ArraySort(Node, z3.ArraySort(Int, Int)))))))
            else:
                out.append((kk, vv))
        return VDictLit(out)
    if k == 'dict' and v.pairs and all(kk.kind == 'str' for kk, _ in v.pairs) and not v.esc and getattr(CUR_CTX, 'pathworld', None) is not None:
        # a local dict of result lists (annotate_paths): every slot becomes an optional bag of input paths
        from .pathsmodel import VOptBag
        d = VDictLit([(kk, VOptBag(CUR_CTX.pathworld, fresh('%s[%s].isnone' % (name, kk.s), Bool), fresh('%s[%s].cnt' % (name, kk.s), z3.ArraySort(Int, Int))))
                      for kk, vv in v.pairs])
        return d
    if k == 'dict' and (getattr(v, 'symset', None) is not None or not v.pairs) and not v.esc:
        d = VDictLit([])
        d.symset = fresh(name, z3.ArraySort(Node, Bool))
        return d
    if k in ('row', 'edgedata', 'timeline', 'interval', 'graph', 'adj', 'tte', 'snap', 'nodedict', 'callable', 'type', 'module', 'str', 'keys', 'bag'):
        return v            # a reference into the heap / a constant: the havoc of the heap components covers it
    if hasattr(v, 'havoc'):
        return v.havoc(name)
    raise Undecided('cannot havoc a local of kind %s (%s)' % (k, name))


class IndexIter(object):
    """range(lo,hi) / timeline / symbolic sequence: position k runs over lo..hi"""

    def __init__(self, interp, it):
        self.it = it
        if it.kind == 'range':
            self.lo, self.hi = it.lo, it.hi
            self.elem = lambda k: VInt(k)
            self.reads = None
        elif it.kind == 'timeline':
            self.lo, self.hi = IntV(0), it.g['Len'][it.r]
            self.elem = lambda k: VInterval(it.g, it.r, k)
            self.reads = (it.g, ('S', 'E', 'Len'))
        elif it.kind == 'seq':
            self.lo, self.hi = IntV(0), it.n
            self.elem = lambda k: it.elem(k)
            self.reads = None
        else:
            raise Undecided('index iteration over %s' % it.kind)

    def initial(self):
        return self.lo

    def final(self):
        return z3.If(self.hi > self.lo, self.hi, self.lo)


def make_L(interp, fr, k, g0, env0, extra=None):
    L = LoopState()
    L.ctx, L.interp, L.fr = interp.ctx, interp, fr
    L.k = k
    L.g0 = g0
    L.g = interp.ctx.graphs
    L.env, L.env0 = fr.env, env0
    L.assuming = False
    node = getattr(interp, 'cur_loop_node', None)
    if node is not None:
        # names bound by the loop target and accumulators updated with an augmented assignment in the body: contracts refer
        # to loop variables by POSITION, so that renaming a local does not break a proof
        L.tnames = [n.id for n in ast.walk(node.target) if isinstance(n, ast.Name)] if hasattr(node, 'target') else []
        L.augmented = [n.target.id for st in node.body for n in ast.walk(st) if isinstance(n, ast.AugAssign) and isinstance(n.target, ast.Name)]
        L.tv = lambda i: L.env[L.tnames[i]]
    L.iterable = getattr(interp, 'cur_loop_iterable', None)
    L.opt_order = getattr(interp, 'opt_order', [])
    stack = getattr(interp, 'loop_stack', [])
    if len(stack) >= 2:
        onode, oit = stack[-2]
        onames = [n.id for n in ast.walk(onode.target) if isinstance(n, ast.Name)]
        L.otv = lambda i: L.env[onames[i]]          # i-th variable of the ENCLOSING loop
        L.outer_iterable = oit
    if extra:
        for a, b in extra.items():
            setattr(L, a, b)
    return L


def exec_for_cut(interp, node, fr, it, spec):
    ctx = interp.ctx
    saved = (getattr(interp, 'cur_loop_node', None), getattr(interp, 'cur_loop_iterable', None))
    interp.cur_loop_node, interp.cur_loop_iterable = node, it
    if not hasattr(interp, 'loop_stack'):
        interp.loop_stack = []
    interp.loop_stack.append((node, it))
    try:
        return _exec_for_cut(interp, node, fr, it, spec)
    finally:
        interp.loop_stack.pop()
        # (nested loops: the inner cut restores the outer loop's node when it returns normally; PathEnd ends the path anyway)
        interp.cur_loop_node, interp.cur_loop_iterable = saved


def _exec_for_cut(interp, node, fr, it, spec):
    ctx = interp.ctx
    if it.kind in ('range', 'timeline', 'seq'):
        return _index_cut(interp, node, fr, IndexIter(interp, it), spec)
    if it.kind == 'bag':
        return _bag_cut(interp, node, fr, it, spec)
    raise Undecided('loop over %s: no cut rule' % it.kind)


CUR_CTX = None


def _havoc(interp, fr, node, spec, tag):
    global CUR_CTX
    ctx = interp.ctx
    CUR_CTX = ctx
    for gname, comps in spec.modifies.items():
        g = ctx.graphs[gname]
        g.havoc(tag, only=comps)
        if getattr(ctx, 'on_havoc', None):
            ctx.on_havoc(gname, tag, comps)   # fresh ghost view + the invariant of a graph whose typestate is `valid`
    grown = grown_names(node.body)
    for n in sorted(assigned_names(node.body) - assigned_names([node.target])):
        if n in fr.env:
            v = fr.env[n]
            ov = getattr(ctx, 'havoc_override', None)
            if ov is not None:
                r = ov(n, v, n + tag)
                if r is not None:
                    fr.env[n] = r
                    continue
            if n in grown and v.kind == 'list':
                # a local list that the body grows: only a list of ints that is empty at loop entry is modelled (as a multiset of ints)
                if v.esc or v.items:
                    raise Undecided('local list %s grown inside a cut loop' % n)
                from .seqs import VIntBag
                fr.env[n] = VIntBag(fresh(n + tag, z3.ArraySort(Int, Int)))
                continue
            if n in grown and v.kind == 'intbag':
                from .seqs import VIntBag
                fr.env[n] = VIntBag(fresh(n + tag, z3.ArraySort(Int, Int)))
                continue
            fr.env[n] = havoc_like(v, n + tag)


def _check_frame(interp, spec, before, label):
    ctx = interp.ctx
    for gname, g in ctx.graphs.items():
        allowed = set(spec.modifies.get(gname, []))
        for c in g.comp_names():
            if c in allowed:
                continue
            if not g.comp[c].eq(before[gname].comp[c]):
                ctx.oblige('%s.frame.%s.%s' % (label, gname, c), g.comp[c] == before[gname].comp[c],
                           kind='loop-frame')


def _check_typestate(interp, before):
    for gname, g in interp.ctx.graphs.items():
        if getattr(before[gname], 'valid', False) and not getattr(g, 'valid', False):
            raise Undecided('loop body breaks the representation invariant of %s (direct write to its edge representation)' % gname)


def _index_cut(interp, node, fr, ii, spec):
    ctx = interp.ctx
    label = 'loop@%d' % node.lineno
    g0 = {n: g.snapshot() for n, g in ctx.graphs.items()}
    views0 = dict(ctx.views)
    env0 = dict(fr.env)
    alt = ctx.choose(2, label)
    if alt == 0:     # (the entry obligations are emitted once, on the first alternative)
        for name, f in spec.inv(make_L(interp, fr, ii.initial(), g0, env0, {'lo': ii.lo, 'hi': ii.hi, 'views0': views0})):
            ctx.oblige('%s.entry.%s' % (label, name), f, kind='loop-entry', tags=spec.tags)
    tag = '@%d' % node.lineno
    _havoc(interp, fr, node, spec, tag)
    if alt == 0:
        k = fresh('k' + tag, Int)
        ctx.assume(z3.And(ii.lo <= k, k < ii.hi))
        L = make_L(interp, fr, k, g0, env0, {'lo': ii.lo, 'hi': ii.hi, 'views0': views0})
        L.assuming = True
        for name, f in spec.inv(L):
            ctx.assume(f)
        if spec.assumes:
            ctx.assume(spec.assumes(L))
        before = {n: g.snapshot() for n, g in ctx.graphs.items()}
        interp.assign(node.target, ii.elem(k), fr)
        try:
            interp.exec_block(node.body, fr)
        except _Continue:
            pass
        except _Break:
            raise Undecided('break inside a cut loop')
        _check_frame(interp, spec, before, label)
        _check_typestate(interp, before)
        for name, f in spec.inv(make_L(interp, fr, k + 1, g0, env0, {'lo': ii.lo, 'hi': ii.hi, 'views0': views0})):
            ctx.oblige('%s.step.%s' % (label, name), f, kind='loop-step', tags=spec.tags)
        raise PathEnd('cut')
    kf = ii.final()
    L = make_L(interp, fr, kf, g0, env0, {'lo': ii.lo, 'hi': ii.hi, 'views0': views0})
    L.assuming = True
    for name, f in spec.inv(L):
        ctx.assume(f)
    if spec.assumes:
        ctx.assume(spec.assumes(L))
    if ctx.branch(ii.hi > ii.lo, label + '.nonempty'):
        try:
            interp.assign(node.target, ii.elem(z3.simplify(ii.hi - 1)), fr)
        except Undecided:
            pass
    interp.exec_block(node.orelse, fr)


class VBag(V):
    """an abstract finite collection being iterated in unspecified order: elements are tuples of
    fresh constants of `sorts` satisfying member(*consts); make(*consts) builds the python value."""
    kind = 'bag'

    def __init__(self, sorts, member, make, note=''):
        self.sorts, self.member, self.make, self.note = sorts, member, make, note


def _vis_sort(sorts):
    s = Bool
    for d in reversed(sorts):
        s = z3.ArraySort(d, s)
    return s


def _sel(arr, xs):
    for x in xs:
        arr = arr[x]
    return arr


def _store_true(arr, xs):
    if len(xs) == 1:
        return z3.Store(arr, xs[0], True)
    return z3.Store(arr, xs[0], _store_true(arr[xs[0]], xs[1:]))


def _bag_cut(interp, node, fr, bag, spec):
    ctx = interp.ctx
    label = 'loop@%d' % node.lineno
    g0 = {n: g.snapshot() for n, g in ctx.graphs.items()}
    views0 = dict(ctx.views)
    env0 = dict(fr.env)
    vs = _vis_sort(bag.sorts)
    empty = z3.BoolVal(False)
    for d in reversed(bag.sorts):
        empty = z3.K(d, empty)
    vis_of = lambda V_: (lambda *xs: _sel(V_, xs))
    alt = ctx.choose(2, label)
    if alt == 0:
        for name, f in spec.inv(make_L(interp, fr, None, g0, env0, {'vis': vis_of(empty), 'Vis': empty, 'bag': bag, 'cur': None, 'views0': views0})):
            ctx.oblige('%s.entry.%s' % (label, name), f, kind='loop-entry', tags=spec.tags)
    tag = '@%d' % node.lineno
    _havoc(interp, fr, node, spec, tag)
    Vis = fresh('Vis' + tag, vs)
    xs = [fresh('x%d%s' % (i, tag), s) for i, s in enumerate(bag.sorts)] if alt == 0 else None
    if xs is not None and hasattr(ctx, 'add_focus'):
        ctx.add_focus(xs)
    L = make_L(interp, fr, None, g0, env0, {'vis': vis_of(Vis), 'Vis': Vis, 'bag': bag, 'cur': xs, 'views0': views0})
    L.assuming = True
    qs = [z3.Const('bq%d?%s' % (i, tag), s) for i, s in enumerate(bag.sorts)]
    # visited elements are members (the ghost set only ever grows by members)
    ctx.assume(z3.ForAll(qs, z3.Implies(_sel(Vis, qs), bag.member(*qs)), patterns=[_sel(Vis, qs)]))
    for name, f in spec.inv(L):
        ctx.assume(f)
    if spec.assumes:
        ctx.assume(spec.assumes(L))
    if alt == 0:
        ctx.assume(bag.member(*xs))
        ctx.assume(z3.Not(_sel(Vis, xs)))
        before = {n: g.snapshot() for n, g in ctx.graphs.items()}
        interp.assign(node.target, bag.make(*xs), fr)
        try:
            interp.exec_block(node.body, fr)
        except _Continue:
            pass
        except _Break:
            raise Undecided('break inside a cut loop')
        _check_frame(interp, spec, before, label)
        _check_typestate(interp, before)
        Vis2 = _store_true(Vis, xs)
        L2 = make_L(interp, fr, None, g0, env0, {'vis': vis_of(Vis2), 'Vis': Vis2, 'bag': bag, 'cur': xs, 'views0': views0})
        for name, f in spec.inv(L2):
            ctx.oblige('%s.step.%s' % (label, name), f, kind='loop-step', tags=spec.tags)
        raise PathEnd('cut')
    ctx.assume(z3.ForAll(qs, z3.Implies(bag.member(*qs), _sel(Vis, qs))))
    L.done = True
    if spec.on_exit:
        ctx.assume(spec.on_exit(L))
    interp.exec_block(node.orelse, fr)


def exec_while_cut(interp, node, fr, spec):
    raise Undecided('while loops: cut rule not implemented')
