"""Symbolic values and the heap model of DESIGN 1.4.

Every python value the executor manipulates is one of the V* classes below.  Containers that live in
a graph object's representation are *proxies* onto z3 arrays held in an HGraph (the flattened,
ownership-typed heap); containers allocated by the function under verification are local python
objects with symbolic elements until they are stored into the heap (ownership transfer).
"""
import z3
from .sym import (Int, Bool, Node, Obj, Op, OP_PLUS, OP_MINUS, EvK, evk, ea, eb, eop, fresh, IntV,
                  concrete_int)


class Undecided(Exception):
    """construct outside the supported subset / memory model: never a verdict"""


class PyRaise(Exception):
    """a python exception travelling through the interpreted program"""
    def __init__(self, cls, info=''):
        Exception.__init__(self, cls, info)
        self.cls = cls
        self.info = info


EXC_PARENTS = {
    'KeyError': 'LookupError', 'IndexError': 'LookupError', 'LookupError': 'Exception',
    'ValueError': 'Exception', 'TypeError': 'Exception', 'AttributeError': 'Exception',
    'ZeroDivisionError': 'ArithmeticError', 'ArithmeticError': 'Exception',
    'StopIteration': 'Exception', 'RuntimeError': 'Exception', 'NotImplementedError': 'RuntimeError',
    'NetworkXException': 'Exception', 'NetworkXError': 'NetworkXException',
    'NetworkXNotImplemented': 'NetworkXException', 'NetworkXPointlessConcept': 'NetworkXException',
    'Exception': 'BaseException', 'BaseException': None,
}


def exc_isinstance(cls, handler):
    while cls is not None:
        if cls == handler:
            return True
        cls = EXC_PARENTS.get(cls)
    return False


class V(object):
    kind = 'value'

    def __repr__(self):
        return '<%s>' % self.__class__.__name__


class VInt(V):
    kind = 'int'

    def __init__(self, z):
        self.z = IntV(z) if isinstance(z, int) else z

    def __repr__(self):
        return 'VInt(%s)' % self.z


class VReal(V):
    """result of true division; mathematical real (DESIGN 8.2)"""
    kind = 'real'

    def __init__(self, z):
        self.z = z


class VBool(V):
    kind = 'bool'

    def __init__(self, z):
        self.z = z3.BoolVal(z) if isinstance(z, bool) else z


class VNoneT(V):
    kind = 'none'

    def __repr__(self):
        return 'None'


VNone = VNoneT()


class VStr(V):
    kind = 'str'

    def __init__(self, s):
        self.s = s

    def __repr__(self):
        return 'VStr(%r)' % self.s


class VOp(V):
    """'+' / '-' marker read back from the event log"""
    kind = 'op'

    def __init__(self, z):
        self.z = z


class VNode(V):
    kind = 'node'

    def __init__(self, z):
        self.z = z

    def __repr__(self):
        return 'VNode(%s)' % self.z


class VOpaque(V):
    kind = 'opaque'

    def __init__(self, z, tag=''):
        self.z = z
        self.tag = tag


class VTuple(V):
    kind = 'tuple'

    def __init__(self, items):
        self.items = list(items)

    def __repr__(self):
        return 'VTuple(%r)' % (self.items,)


class VList(V):
    """locally allocated list of statically known length; `esc` is set once ownership moved to the heap"""
    kind = 'list'

    def __init__(self, items):
        self.items = list(items)
        self.esc = None

    def __repr__(self):
        return 'VList(%r%s)' % (self.items, ' esc' if self.esc else '')


class VDictLit(V):
    """locally allocated dict with structurally comparable keys"""
    kind = 'dict'

    def __init__(self, pairs=(), role=None):
        self.pairs = list(pairs)
        self.esc = None
        self.role = role      # 'row' / 'edgedata' / None


class VRange(V):
    kind = 'range'

    def __init__(self, lo, hi):
        self.lo, self.hi = lo, hi


class VType(V):
    kind = 'type'

    def __init__(self, name):
        self.name = name


class VSetLit(V):
    kind = 'set'

    def __init__(self, items):
        self.items = list(items)


class VCallable(V):
    kind = 'callable'

    def __init__(self, fn, name=''):
        self.fn, self.name = fn, name


class VGraph(V):
    kind = 'graph'

    def __init__(self, g):
        self.g = g


class VModule(V):
    kind = 'module'

    def __init__(self, name):
        self.name = name


class VExcClass(V):
    kind = 'excclass'

    def __init__(self, name):
        self.name = name


class VExcInst(V):
    kind = 'exc'

    def __init__(self, cls):
        self.cls = cls


# ---- heap proxies ------------------------------------------------------------------------------

class VAdj(V):
    kind = 'adj'

    def __init__(self, g, w, view=False):
        self.g, self.w, self.view = g, w, view


class VRow(V):
    kind = 'row'

    def __init__(self, g, w, u, view=False):
        self.g, self.w, self.u, self.view = g, w, u, view


class VEdgeData(V):
    kind = 'edgedata'

    def __init__(self, g, r):
        self.g, self.r = g, r


class VTimeline(V):
    kind = 'timeline'

    def __init__(self, g, r):
        self.g, self.r = g, r


class VInterval(V):
    kind = 'interval'

    def __init__(self, g, r, i):
        self.g, self.r, self.i = g, r, i


class VTTE(V):
    kind = 'tte'

    def __init__(self, g):
        self.g = g


class VTTEInner(V):
    kind = 'tteinner'

    def __init__(self, g, k):
        self.g, self.k = g, k


class VSnap(V):
    kind = 'snap'

    def __init__(self, g):
        self.g = g


class VNodeDict(V):
    kind = 'nodedict'

    def __init__(self, g):
        self.g = g


class VKeys(V):
    """dict.keys()/items()/values() view or iter() of a heap container; `what` in keys/items/values"""
    kind = 'keys'

    def __init__(self, base, what):
        self.base, self.what = base, what


class VRowStr(V):
    """delimiter.join(map(make_str, [u, v, t])): an opaque row of an edge-list file, kept as its constructor arguments
    (trusted codec axiom: the constructor is injective on (node, node, int) for a fixed delimiter)"""
    kind = 'rowstr'

    def __init__(self, fields):
        self.fields = list(fields)


class VMapped(V):
    kind = 'mapped'

    def __init__(self, fn, items):
        self.fn, self.items = fn, list(items)


class VLinkBag(V):
    """a local list of link dicts {'source': a, 'target': b, 'time': q} built by appends inside loops: multiset cnt(a,b,q)"""
    kind = 'linkbag'

    def __init__(self, cnt):
        self.cnt = cnt


class VChain(V):
    """itertools.chain(p1, p2, ...): kept as the list of its parts"""
    kind = 'chain'

    def __init__(self, parts):
        self.parts = parts


class VSeq(V):
    """symbolic-length sequence: length n (z3 Int) and element access elem(i)->V; immutable value
    (appends build a new VSeq).  `sorted_` records the trusted post-condition of sorted()."""
    kind = 'seq'

    def __init__(self, n, elem, meta=None):
        self.n, self.elem, self.meta = n, elem, (meta or {})


# ---- heap ---------------------------------------------------------------------------------------

def A(dom, rng):
    return z3.ArraySort(dom, rng)


COMP_SORTS = {
    'NodeIn': A(Node, Bool), 'NAttr': A(Node, Obj),
    'HasT': A(Int, Bool), 'Len': A(Int, Int), 'S': A(Int, A(Int, Int)), 'E': A(Int, A(Int, Int)),
    'NextRef': Int,
    'TKey': A(Int, Bool), 'TVal0': A(Int, Bool), 'Ev': A(Int, A(EvK, Bool)),
    'SKey': A(Int, Bool), 'SCnt': A(Int, Int),
    'GAttr': Obj, 'ER': Bool, 'Frozen': Bool,
}
ROW_SORT = A(Node, Bool)
CELL_SORT = A(Node, A(Node, Int))


class HGraph(object):
    """one DynGraph / DynDiGraph object: a record of z3 terms (the current value of each component)"""

    def __init__(self, name, directed, cls=None):
        self.name = name
        self.directed = directed
        self.cls = cls or ('DynDiGraph' if directed else 'DynGraph')
        self.ws = ('succ', 'pred') if directed else ('adj',)
        self.comp = {}
        self.py = {}          # opaque python-level attributes (name, ...)
        self.valid = False    # typestate: Inv(g) is known to hold (established by the constructor's / kernel's contract)

    def comp_names(self):
        names = list(COMP_SORTS)
        for w in self.ws:
            names += ['Row_' + w, 'Cell_' + w]
        return names

    def sort_of(self, c):
        if c.startswith('Row_'):
            return ROW_SORT
        if c.startswith('Cell_'):
            return CELL_SORT
        return COMP_SORTS[c]

    def havoc(self, tag='', only=None):
        for c in (only or self.comp_names()):
            self.comp[c] = fresh('%s.%s%s' % (self.name, c, tag), self.sort_of(c))
        return self

    def make_empty(self, edge_removal=True):
        K = z3.K
        self.comp.update({
            'NodeIn': K(Node, z3.BoolVal(False)), 'NAttr': fresh(self.name + '.NAttr0', A(Node, Obj)),
            'HasT': K(Int, z3.BoolVal(False)), 'Len': K(Int, IntV(0)),
            'S': K(Int, K(Int, IntV(0))), 'E': K(Int, K(Int, IntV(0))), 'NextRef': IntV(1),
            'TKey': K(Int, z3.BoolVal(False)), 'TVal0': K(Int, z3.BoolVal(False)),
            'Ev': K(Int, K(EvK, z3.BoolVal(False))),
            'SKey': K(Int, z3.BoolVal(False)), 'SCnt': K(Int, IntV(0)),
            'GAttr': fresh(self.name + '.GAttr0', Obj),
            'ER': z3.BoolVal(edge_removal) if isinstance(edge_removal, bool) else edge_removal,
            'Frozen': z3.BoolVal(False),
        })
        for w in self.ws:
            self.comp['Row_' + w] = K(Node, z3.BoolVal(False))
            self.comp['Cell_' + w] = K(Node, K(Node, IntV(0)))
        return self

    def snapshot(self):
        s = HGraph(self.name, self.directed, self.cls)
        s.comp = dict(self.comp)
        s.py = dict(self.py)
        s.valid = self.valid
        return s

    def __getitem__(self, c):
        return self.comp[c]

    def __setitem__(self, c, v):
        self.comp[c] = v

    # convenience readers
    def mainw(self):
        return 'succ' if self.directed else 'adj'

    def cell(self, a, b, w=None):
        return self.comp['Cell_' + (w or self.mainw())][a][b]
