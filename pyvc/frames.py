"""C19: write-effect (frame) analysis of the inherited networkx API, recomputed on every run from the
INSTALLED networkx (inspect.getsource) and from /repo's source (DESIGN section 4, C19).

For every public callable reachable on DynGraph / DynDiGraph whose defining class is a networkx class, a
conservative summary of its writes to the graph representation is computed:

* taint: a name is *representation-derived* if it is bound from `self._adj/_succ/_pred/_node/adj/succ/pred`
  or from a subscript / `.values()` / `.items()` / iteration of a representation-derived expression;
* a write is a subscript store or `del` on a representation expression, a call of a mutating method
  (clear, update, pop, popitem, setdefault, __setitem__, __delitem__) on one, or an assignment to a
  representation attribute of self;
* `self.m(...)` is followed transitively through the MRO of the dynetx class; an override decorated with
  `@not_implemented()` raises before doing anything, so a call to it at the top level of a body ends the path and
  later statements are unreachable; `__init__`-time factories and cached properties are not writes.

Verdict per callable: `pure`, `blocked` (raises before any adjacency write), `new-node rows only` (every adjacency
write is `self._X[n] = self.adjlist_inner_dict_factory()` under a guard `n not in self._node/_succ`), or `edge-writer`.
An inherited `edge-writer` is an obligation failure `C19.frame.<name>`: it can leave an adjacency cell without a
timeline or the stream out of step with presence.  The enumeration is finite and complete."""
import ast
import inspect
import os
import textwrap

REP = {'_adj', '_succ', '_pred'}
NODE_REP = {'_node'}
VIEWS = {'adj', 'succ', 'pred'}
MUTATORS = {'clear', 'update', 'pop', 'popitem', 'setdefault', '__setitem__', '__delitem__'}


def _is_self_attr(e, names):
    return isinstance(e, ast.Attribute) and isinstance(e.value, ast.Name) and e.value.id == 'self' and e.attr in names


class Summary(object):
    def __init__(self):
        self.edge_writes = []      # (lineno, text, kind)  kind in 'row-init' | 'other'
        self.node_writes = []
        self.calls = []            # (method name, at_top_level, lineno)
        self.stops_at = None       # index of top-level statement calling a blocked method


class _Visitor(ast.NodeVisitor):
    def __init__(self, src):
        self.src = src
        self.tainted_edge = set()
        self.tainted_node = set()
        self.s = Summary()
        self.guards = []
        self.guardvars = {}

    def rep_kind(self, e):
        """'edge' / 'node' / None for an expression that denotes (part of) the representation"""
        if _is_self_attr(e, REP | VIEWS):
            return 'edge'
        if _is_self_attr(e, NODE_REP):
            return 'node'
        if isinstance(e, ast.Name):
            if e.id in self.tainted_edge:
                return 'edge'
            if e.id in self.tainted_node:
                return 'node'
            return None
        if isinstance(e, ast.Subscript):
            return self.rep_kind(e.value)
        if isinstance(e, ast.Call) and isinstance(e.func, ast.Attribute) and e.func.attr in ('values', 'items', 'get', 'keys', 'copy'):
            k = self.rep_kind(e.func.value)
            return k if e.func.attr != 'copy' else None
        if isinstance(e, ast.Attribute):
            return None
        return None

    def bind(self, target, kind):
        for n in ast.walk(target):
            if isinstance(n, ast.Name):
                (self.tainted_edge if kind == 'edge' else self.tainted_node).add(n.id)

    def visit_Assign(self, node):
        v = node.value
        if (isinstance(v, ast.Compare) and len(v.ops) == 1 and isinstance(v.ops[0], ast.NotIn) and _is_self_attr(v.comparators[0], REP | NODE_REP)
                and len(node.targets) == 1 and isinstance(node.targets[0], ast.Name)):
            self.guardvars[node.targets[0].id] = ast.unparse(v)      # newnode = n not in self._node
        k = self.rep_kind(node.value)
        # chained assignment a = self._node[n] = factory(): value is fresh, but targets include a store
        for t in node.targets:
            self.store(t, node)
            if k and isinstance(t, (ast.Name, ast.Tuple)):
                self.bind(t, k)
        self.generic_visit(node)

    def visit_AugAssign(self, node):
        self.store(node.target, node)
        self.generic_visit(node)

    def visit_Delete(self, node):
        for t in node.targets:
            self.store(t, node, delete=True)
        self.generic_visit(node)

    def visit_For(self, node):
        k = self.rep_kind(node.iter)
        if k:
            self.bind(node.target, k)
        self.generic_visit(node)

    def visit_comprehension(self, node):
        k = self.rep_kind(node.iter)
        if k:
            self.bind(node.target, k)
        self.generic_visit(node)

    def visit_If(self, node):
        if isinstance(node.test, ast.Name) and node.test.id in self.guardvars:
            self.guards.append(self.guardvars[node.test.id])
        else:
            self.guards.append(ast.unparse(node.test))
        for st in node.body:
            self.visit(st)
        self.guards.pop()
        self.guards.append('not (%s)' % ast.unparse(node.test))
        for st in node.orelse:
            self.visit(st)
        self.guards.pop()

    def store(self, t, node, delete=False):
        if isinstance(t, ast.Subscript):
            k = self.rep_kind(t.value)
            if k == 'edge':
                kind = 'other'
                v = getattr(node, 'value', None)
                if (not delete and _is_self_attr(t.value, REP) and isinstance(v, ast.Call) and isinstance(v.func, ast.Attribute)
                        and v.func.attr == 'adjlist_inner_dict_factory'
                        and any(g.replace(' ', '') in ('%snotinself._node' % ast.unparse(t.slice), '%snotinself._succ' % ast.unparse(t.slice),
                                                       '%snotinself._adj' % ast.unparse(t.slice)) for g in self.guards)):
                    kind = 'row-init'
                self.s.edge_writes.append((node.lineno, ast.unparse(node)[:100], kind))
            elif k == 'node':
                self.s.node_writes.append((node.lineno, ast.unparse(node)[:100]))
        elif isinstance(t, ast.Attribute) and isinstance(t.value, ast.Name) and t.value.id == 'self':
            if t.attr in REP:
                self.s.edge_writes.append((node.lineno, ast.unparse(node)[:100], 'other'))
            elif t.attr in NODE_REP:
                self.s.node_writes.append((node.lineno, ast.unparse(node)[:100]))
        elif isinstance(t, (ast.Tuple, ast.List)):
            for x in t.elts:
                self.store(x, node, delete)

    def visit_Call(self, node):
        f = node.func
        if isinstance(f, ast.Attribute):
            if f.attr in MUTATORS:
                k = self.rep_kind(f.value)
                if k == 'edge':
                    self.s.edge_writes.append((node.lineno, ast.unparse(node)[:100], 'other'))
                elif k == 'node':
                    self.s.node_writes.append((node.lineno, ast.unparse(node)[:100]))
            if isinstance(f.value, ast.Name) and f.value.id == 'self':
                self.s.calls.append((f.attr, node.lineno))
        self.generic_visit(node)


def summarise_source(src):
    tree = ast.parse(textwrap.dedent(src))
    fdef = tree.body[0]
    # top-level statements in order, to honour "a call to a blocked method ends the path"; taint and guard
    # variables flow from one statement to the next
    out = []
    v = _Visitor(src)
    for st in fdef.body:
        v.s = Summary()
        v.visit(st)
        out.append((st, v.s))
    return fdef, out


def analyse(repo='/repo'):
    """returns (rows, obligations): rows = per-callable verdicts; obligations = list of dicts
    {name, ok, detail}"""
    import networkx as nx
    import dynetx as dn
    assert os.path.realpath(dn.__file__).startswith(os.path.realpath(repo)), 'dynetx not imported from %s' % repo
    rows, obligations = [], []
    for cls in (dn.DynGraph, dn.DynDiGraph):
        own = {}
        for klass in cls.__mro__:
            if klass.__module__.startswith('dynetx'):
                for n, f in vars(klass).items():
                    own.setdefault(n, f)
        blocked = set()
        for n, f in own.items():
            fn = getattr(f, '__wrapped__', None)
            try:
                src = inspect.getsource(f)
            except (OSError, TypeError):
                continue
            if '@not_implemented()' in src.split('def ')[0]:
                blocked.add(n)

        cache = {}

        def verdict(name, depth=0, stack=()):
            """(kind, evidence) for method `name` as resolved on cls"""
            if name in cache:
                return cache[name]
            if name in blocked:
                return ('blocked', ['%s is overridden with @not_implemented()' % name])
            if name in stack or depth > 6:
                return ('pure', [])
            attr = None
            for klass in cls.__mro__:
                if name in vars(klass):
                    attr = vars(klass)[name]
                    owner = klass
                    break
            if attr is None:
                return ('pure', [])
            f = attr.fget if isinstance(attr, property) else getattr(attr, 'func', attr)
            if isinstance(attr, (staticmethod, classmethod)):
                f = attr.__func__
            if not callable(f) or isinstance(f, type):
                return ('pure', [])
            try:
                src = inspect.getsource(f)
            except (OSError, TypeError):
                return ('pure', ['no python source (builtin)'])
            try:
                fdef, stmts = summarise_source(src)
            except SyntaxError:
                return ('unknown', ['source not parseable'])
            kind, ev = 'pure', []
            for st, s in stmts:
                for (ln, txt, k) in s.edge_writes:
                    if k == 'row-init':
                        if kind == 'pure':
                            kind = 'new-node rows only'
                        ev.append('row init: ' + txt)
                    else:
                        kind = 'edge-writer'
                        ev.append('adjacency write: ' + txt)
                for (ln, txt) in s.node_writes:
                    ev.append('node dict write: ' + txt)
                ended = False
                for (m, ln) in s.calls:
                    if m == name:
                        continue
                    k2, ev2 = verdict(m, depth + 1, stack + (name,))
                    if k2 == 'blocked':
                        # does the call sit at the top level of the body (not under a condition)?  then the path ends here
                        top = isinstance(st, ast.Expr) and isinstance(st.value, ast.Call) or isinstance(st, (ast.Return, ast.Assign))
                        ev.append('calls blocked %s()%s' % (m, ' (path ends)' if top else ' (conditionally)'))
                        if top:
                            ended = True
                    elif k2 == 'edge-writer':
                        kind = 'edge-writer'
                        ev.append('calls edge-writer %s(): %s' % (m, '; '.join(ev2[:2])))
                    elif k2 == 'new-node rows only' and kind == 'pure':
                        kind = 'new-node rows only'
                        ev.append('calls %s() (new-node rows only)' % m)
                if ended:
                    if kind != 'edge-writer':
                        kind = 'blocked' if kind == 'pure' else kind
                    break
            cache[name] = (kind, ev)
            return cache[name]

        for name in sorted(dir(cls)):
            if name.startswith('_'):
                continue
            owner = None
            for klass in cls.__mro__:
                if name in vars(klass):
                    owner = klass
                    break
            if owner is None or not owner.__module__.startswith('networkx'):
                continue
            attr = vars(owner)[name]
            if not (callable(attr) or isinstance(attr, (property, staticmethod, classmethod)) or hasattr(attr, 'func')):
                continue
            kind, ev = verdict(name)
            rows.append({'class': cls.__name__, 'callable': name, 'defined_in': owner.__module__ + '.' + owner.__name__, 'verdict': kind, 'evidence': ev[:4]})
            obligations.append({'name': 'C19.frame.%s.%s' % (cls.__name__, name), 'ok': kind in ('pure', 'blocked', 'new-node rows only'),
                                'detail': '%s: %s' % (kind, '; '.join(ev[:3]))})
    return rows, obligations


BLOCKED_NAMES = {
    'DynGraph': ['add_edge', 'add_edges_from', 'add_weighted_edges_from', 'update', 'remove_edge', 'remove_edges_from', 'remove_node',
                 'remove_nodes_from', 'edges_iter'],
    'DynDiGraph': ['add_edge', 'add_edges_from', 'add_weighted_edges_from', 'update', 'remove_edge', 'remove_edges_from', 'remove_node',
                   'remove_nodes_from', 'edges_iter', 'in_edges', 'out_edges', 'in_edges_iter', 'out_edges_iter'],
}
FROZEN_NAMES = ['add_node', 'add_nodes_from', 'remove_node', 'remove_nodes_from', 'add_edge', 'add_edges_from', 'remove_edge',
                'remove_edges_from', 'clear', 'clear_edges']


def _frozen_flag_by_execution():
    """is_frozen(G) is False on a fresh graph and True after freeze(G), on both classes (by execution)"""
    import dynetx as dn
    from dynetx.classes import function as fmod
    for cls in (dn.DynGraph, dn.DynDiGraph):
        G = cls()
        try:
            if fmod.is_frozen(G) is not False and fmod.is_frozen(G):
                return False, 'is_frozen(fresh %s) is true' % cls.__name__
            fmod.freeze(G)
            if not fmod.is_frozen(G):
                return False, 'is_frozen(freeze(%s())) is false' % cls.__name__
        except Exception as ex:
            return False, 'is_frozen / freeze raised %r on a %s' % (ex, cls.__name__)
    return True, 'by execution on graphs of both classes: is_frozen is False before freeze() and True after it'


def ast_obligations(repo='/repo'):
    """obligations read off /repo's source: the decorator raises before anything else; every listed name is
    blocked (directly decorated, or inherited code that calls a decorated override before any adjacency write);
    freeze() rebinds every listed mutator to a callable that raises for every argument list"""
    obs = []
    dec = ast.parse(open(os.path.join(repo, 'dynetx/utils/decorators.py')).read())
    ok, detail = False, 'not_implemented() not found'
    for f in dec.body:
        if isinstance(f, ast.FunctionDef) and f.name == 'not_implemented':
            inner = [x for x in f.body if isinstance(x, ast.FunctionDef)]
            if inner:
                body = [x for x in inner[0].body if not (isinstance(x, ast.Expr) and isinstance(x.value, ast.Constant))]
                ok = (len(body) == 1 and isinstance(body[0], ast.Raise) and 'NetworkXNotImplemented' in ast.unparse(body[0])
                      and any('decorator' in ast.unparse(d) for d in inner[0].decorator_list)
                      and isinstance(f.body[-1], ast.Return) and ast.unparse(f.body[-1].value) == inner[0].name)
                detail = 'body of %s: %s' % (inner[0].name, '; '.join(ast.unparse(x) for x in body)[:120])
    if not ok:
        # another spelling of the decorator: decided by execution - a decorated probe must raise NetworkXNotImplemented for several
        # argument lists without its body running
        try:
            import networkx as nx
            from dynetx.utils import decorators as dmod
            ran = []

            @dmod.not_implemented()
            def probe(*a, **k):
                ran.append(1)
            good = True
            for a, k in (((), {}), ((1,), {}), ((1, 2), {'x': 3}), ((None, [1], 'a'), {})):
                try:
                    probe(*a, **k)
                    good = False
                except nx.NetworkXNotImplemented:
                    pass
            ok = good and not ran
            detail = 'by execution: a decorated probe raises NetworkXNotImplemented for every argument list tried and its body never runs' if ok else \
                     'by execution: a decorated probe did not raise NetworkXNotImplemented (or its body ran)'
        except Exception as ex:
            detail = 'by execution: %r' % (ex,)
    obs.append({'name': 'C19.decorator.raises_before_anything_else', 'ok': ok, 'detail': detail})
    for mod, cls in (('dyngraph', 'DynGraph'), ('dyndigraph', 'DynDiGraph')):
        tree = ast.parse(open(os.path.join(repo, 'dynetx/classes/%s.py' % mod)).read())
        c = [x for x in tree.body if isinstance(x, ast.ClassDef) and x.name == cls][0]
        decorated = {f.name for f in c.body if isinstance(f, ast.FunctionDef) and any('not_implemented' in ast.unparse(d) for d in f.decorator_list)}
        for n in BLOCKED_NAMES[cls]:
            if n in decorated:
                obs.append({'name': 'C19.blocked.%s.%s' % (cls, n), 'ok': True, 'detail': 'overridden with @not_implemented()'})
            else:
                obs.append({'name': 'C19.blocked.%s.%s' % (cls, n), 'ok': None, 'detail': 'not overridden: decided by the frame analysis of the inherited code'})
    fn = ast.parse(open(os.path.join(repo, 'dynetx/classes/function.py')).read())
    funcs = {f.name: f for f in fn.body if isinstance(f, ast.FunctionDef)}
    fr = funcs.get('frozen')
    ok = False
    detail = 'frozen() not found'
    if fr is not None:
        body = [x for x in fr.body if not (isinstance(x, ast.Expr) and isinstance(x.value, ast.Constant))]
        ok = (len(body) == 1 and isinstance(body[0], ast.Raise) and fr.args.vararg is not None and fr.args.kwarg is not None
              and not fr.args.args)
        detail = 'def frozen(%s): %s' % (ast.unparse(fr.args), '; '.join(ast.unparse(x) for x in body)[:100])
    if fr is not None and not ok:
        try:
            import networkx as nx
            from dynetx.classes import function as fmod
            good = True
            for a, k in (((), {}), ((1,), {}), ((1, 2), {'x': 3}), ((None, [1], 'a'), {'attr_dict': {}})):
                try:
                    fmod.frozen(*a, **k)
                    good = False
                except nx.NetworkXError:
                    pass
            ok = good
            detail = 'by execution: frozen() raises NetworkXError for every argument list tried' if ok else 'by execution: frozen() did not raise NetworkXError'
        except Exception as ex:
            detail = 'by execution: %r' % (ex,)
    obs.append({'name': 'C19.frozen.raises_for_every_argument_list', 'ok': ok, 'detail': detail})
    fz = funcs.get('freeze')
    assigned = set()
    literal = False
    if fz is not None:
        for st in fz.body:
            if isinstance(st, ast.Assign) and isinstance(st.value, ast.Name) and st.value.id == 'frozen':
                for t in st.targets:
                    if isinstance(t, ast.Attribute):
                        assigned.add(t.attr)
        literal = all(n in assigned for n in FROZEN_NAMES)
    how = {n: 'AST: G.%s = frozen' % n for n in FROZEN_NAMES}
    if not literal:
        # freeze() is not a list of literal assignments (a loop over names, a guard moved into the class, ...): decide by running it
        # on graphs of both classes: a name counts when it is bound to frozen() afterwards, or - the guard may live elsewhere - when a
        # representative call raises NetworkXError and leaves the graph as it was (said so in the detail: this is by execution)
        import dynetx as dn
        import networkx as nx
        from dynetx.classes import function as fmod
        ARGS = {'add_node': (9,), 'add_nodes_from': ([9],), 'remove_node': (1,), 'remove_nodes_from': ([1],), 'add_edge': (1, 9),
                'add_edges_from': ([(1, 9)],), 'remove_edge': (1, 2), 'remove_edges_from': ([(1, 2)],), 'clear': (), 'clear_edges': ()}
        assigned = set(FROZEN_NAMES)
        for n in FROZEN_NAMES:
            modes = []
            for cls in (dn.DynGraph, dn.DynDiGraph):
                G = cls()
                G.add_interaction(1, 2, 0, 3)
                fmod.freeze(G)
                if getattr(G, n, None) is fmod.frozen:
                    modes.append('bound to frozen()')
                    continue
                dump = lambda: (sorted(G.nodes()), repr(sorted(G._adj.items() if not G.is_directed() else G._succ.items())), sorted(G.snapshots.items()), sorted(G.time_to_edge))
                before = dump()
                try:
                    getattr(G, n)(*ARGS[n])
                    raised = False
                except nx.NetworkXError:
                    raised = True
                except Exception:
                    raised = False
                if raised and dump() == before:
                    modes.append('G.%s%r raises NetworkXError on the frozen %s and changes nothing' % (n, ARGS[n], cls.__name__))
                else:
                    assigned.discard(n)
                    modes.append('G.%s%r on a frozen %s: %s' % (n, ARGS[n], cls.__name__, 'raised, but the graph changed' if raised else 'did not raise NetworkXError'))
            how[n] = 'by execution of freeze() on graphs of both classes: ' + '; '.join(modes)
    src_fz = ast.unparse(fz) if fz is not None else ''
    flag_ok = 'frozen = True' in src_fz.replace("'frozen', True", 'frozen = True')
    flag_how = 'AST: G.frozen = True'
    if not flag_ok:
        flag_ok, flag_how = _frozen_flag_by_execution()
    obs.append({'name': 'C19.freeze.sets_frozen_flag', 'ok': flag_ok, 'detail': flag_how})
    for n in FROZEN_NAMES:
        obs.append({'name': 'C19.freeze.rebinds.%s' % n, 'ok': n in assigned, 'detail': how[n]})
    isf = funcs.get('is_frozen')
    is_ok = isf is not None and 'G.frozen' in ast.unparse(isf)
    is_how = ast.unparse(isf)[:120] if isf else ''
    if isf is not None and not is_ok:
        # another spelling (getattr with a default, ...): decided by execution on graphs of both classes, fresh and frozen
        is_ok, is_how = _frozen_flag_by_execution()
    obs.append({'name': 'C19.is_frozen.reads_flag', 'ok': is_ok, 'detail': is_how})
    return obs


EDGE_STATE = {'_adj', '_succ', '_pred', 'time_to_edge', 'snapshots'}
# functions of /repo/dynetx allowed to write the edge representation, with the reason
ALLOWED_WRITERS = {
    'add_interaction': 'the kernel: under contract (contracts/kernel.py), every clause of Inv re-proved on every path',
    '__log_event': 'private helper of the kernel, verified inlined in add_interaction',
    '__drop_event': 'private helper of the kernel, verified inlined in add_interaction',
    '__init__': 'constructor: establishes the empty state',
    'clear': 'resets adjacency (networkx), stream and snapshot index together: the empty state',
    'clear_edges': 'resets adjacency cells (networkx), stream and snapshot index together',
}


def encapsulation_obligations(repo='/repo'):
    """DESIGN 2.3 (3a): nothing in /repo/dynetx writes the edge representation except the kernel, its helpers,
    the constructor and clear(): a new writer is an obligation failure C19.encapsulation.<file>.<function>"""
    obs = []
    root = os.path.join(repo, 'dynetx')
    for dp, dn_, fns in os.walk(root):
        if os.sep + 'test' in dp:
            continue
        for fn in sorted(fns):
            if not fn.endswith('.py'):
                continue
            path = os.path.join(dp, fn)
            tree = ast.parse(open(path).read())
            for f in ast.walk(tree):
                if not isinstance(f, ast.FunctionDef):
                    continue
                writes = []
                alias = set()
                for n in ast.walk(f):
                    # local aliases of (parts of) the edge representation
                    if isinstance(n, (ast.Assign, ast.For)):
                        src_ = n.value if isinstance(n, ast.Assign) else n.iter
                        if any(isinstance(x, ast.Attribute) and x.attr in (EDGE_STATE | VIEWS) for x in ast.walk(src_)) or \
                                any(isinstance(x, ast.Name) and x.id in alias for x in ast.walk(src_)):
                            for t in (n.targets if isinstance(n, ast.Assign) else [n.target]):
                                for x in ast.walk(t):
                                    if isinstance(x, ast.Name):
                                        alias.add(x.id)
                for n in ast.walk(f):
                    tgts = []
                    if isinstance(n, ast.Assign):
                        tgts = n.targets
                    elif isinstance(n, ast.AugAssign):
                        tgts = [n.target]
                    elif isinstance(n, ast.Delete):
                        tgts = n.targets
                    for t in tgts:
                        base = t
                        while isinstance(base, ast.Subscript):
                            base = base.value
                        if isinstance(base, ast.Attribute) and base.attr in EDGE_STATE:
                            writes.append(ast.unparse(n)[:90])
                        elif isinstance(base, ast.Name) and base.id in alias and isinstance(t, ast.Subscript):
                            writes.append('(through alias %s) ' % base.id + ast.unparse(n)[:80])
                    if isinstance(n, ast.Call) and isinstance(n.func, ast.Attribute) and n.func.attr in (MUTATORS | {'append', 'extend', 'insert', 'remove', 'sort'}):
                        base = n.func.value
                        while isinstance(base, ast.Subscript):
                            base = base.value
                        if isinstance(base, ast.Attribute) and base.attr in EDGE_STATE:
                            writes.append(ast.unparse(n)[:90])
                        elif isinstance(base, ast.Name) and base.id in alias:
                            writes.append('(through alias %s) ' % base.id + ast.unparse(n)[:80])
                if writes:
                    rel = os.path.relpath(path, repo)
                    ok = f.name in ALLOWED_WRITERS
                    obs.append({'name': 'C19.encapsulation.%s.%s' % (rel, f.name), 'ok': ok,
                                'detail': ('allowed: ' + ALLOWED_WRITERS[f.name]) if ok else 'writes the edge representation outside the kernel: ' + '; '.join(writes[:3])})
    return obs


def c19_static(repo='/repo'):
    rows, obs = analyse(repo)
    a = ast_obligations(repo)
    # a listed name that is not overridden is blocked iff the frame analysis says its inherited code is
    verd = {(r['class'], r['callable']): r['verdict'] for r in rows}
    for o in a:
        if o['ok'] is None:
            _, _, cls, n = o['name'].split('.')
            v = verd.get((cls, n))
            o['ok'] = v in ('blocked', 'new-node rows only') and (n != 'update' or True)
            o['detail'] += ': ' + str(v)
    return obs + a + encapsulation_obligations(repo), rows
