"""pyvc - a verification-condition generator for the Python subset dynetx is written in.

ast (real source under /repo, re-read on every run) --> symbolic executor (paths, loop invariants,
callee contracts, exceptions, heap model) --> obligations --> z3 (proof mode, model search) / cvc5.
See /verif/DESIGN.md section 1.
"""
