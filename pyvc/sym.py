"""Sorts, fresh symbols and quantifier helpers shared by the executor and the spec library."""
import itertools
import z3

Z = z3
Int = z3.IntSort()
Bool = z3.BoolSort()
Node = z3.DeclareSort('Node')          # any hashable node id; == is the dict-key equivalence
Obj = z3.DeclareSort('Obj')            # opaque python object (attribute dicts, strings, ...)
Op, (OP_PLUS, OP_MINUS) = z3.EnumSort('Op', ['plus', 'minus'])
EvK = z3.Datatype('EvK')
EvK.declare('evk', ('ea', Node), ('eb', Node), ('eop', Op))
EvK = EvK.create()
evk, ea, eb, eop = EvK.evk, EvK.ea, EvK.eb, EvK.eop
EvRow = z3.Datatype('EvRow')
EvRow.declare('evrow', ('rk', EvK), ('rt', Int))
EvRow = EvRow.create()
evrow = EvRow.evrow

_counter = itertools.count()


def reset_names():
    global _counter
    _counter = itertools.count()


def fresh(name, sort):
    return z3.Const('%s!%d' % (name, next(_counter)), sort)


def fresh_fun(name, *sorts):
    return z3.Function('%s!%d' % (name, next(_counter)), *sorts)


def IntV(n):
    return z3.IntVal(n)


def concrete_int(e):
    """python int if the z3 term simplifies to a numeral, else None"""
    if isinstance(e, int):
        return e
    s = z3.simplify(e)
    if z3.is_int_value(s):
        return s.as_long()
    return None


def inb(i, n):
    return z3.And(0 <= i, i < n)


def FA(vars_, body, patterns=None, qid=''):
    """ForAll with explicit patterns (rule 3 of DESIGN 1.5). vars_ may be empty."""
    if not vars_:
        return body
    if patterns:
        return z3.ForAll(vars_, body, patterns=patterns, qid=qid)
    return z3.ForAll(vars_, body, qid=qid)


def FA_idx(n, f, name='i', pattern=None, lo=0, qid=''):
    """forall i. lo <= i < n => f(i); unrolled when n is a numeral (model-search mode)."""
    c = concrete_int(n)
    cl = concrete_int(lo)
    if c is not None and cl is not None and c - cl <= 8:
        parts = [f(IntV(k)) for k in range(cl, c)]
        return z3.And(*parts) if parts else z3.BoolVal(True)
    i = z3.Int(name + '?%d' % next(_counter))
    body = z3.Implies(z3.And(lo <= i, i < n), f(i))
    pats = pattern(i) if pattern else None
    return FA([i], body, pats, qid)


def FA_idx2(n, f, pattern=None, qid=''):
    """forall i<j<n. f(i,j)"""
    c = concrete_int(n)
    if c is not None and c <= 8:
        parts = [f(IntV(a), IntV(b)) for a in range(c) for b in range(a + 1, c)]
        return z3.And(*parts) if parts else z3.BoolVal(True)
    i = z3.Int('i?%d' % next(_counter))
    j = z3.Int('j?%d' % next(_counter))
    body = z3.Implies(z3.And(0 <= i, i < j, j < n), f(i, j))
    pats = pattern(i, j) if pattern else None
    return FA([i, j], body, pats, qid)


def EX_idx(n, f, name='i', lo=0):
    c = concrete_int(n)
    cl = concrete_int(lo)
    if c is not None and cl is not None and c - cl <= 8:
        parts = [f(IntV(k)) for k in range(cl, c)]
        return z3.Or(*parts) if parts else z3.BoolVal(False)
    i = z3.Int(name + '?%d' % next(_counter))
    return z3.Exists([i], z3.And(lo <= i, i < n, f(i)))


def b2i(b):
    return z3.If(b, 1, 0)
