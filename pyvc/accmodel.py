"""Abstract values for sliding_delta_conformity (C20): a nested dict returned by an assumed callee and a nested defaultdict of
lists that collects (stamp, value) pairs.

VLambda      a lambda expression (only its syntax is used: the factory of a defaultdict)
VNDict       level l (1..3) of the callee's result for the call at instant t: keys are opaque (levels 1, 2) / nodes (level 3);
             membership k_l(t, keys...) and leaf value cv(t, a, b, n) are uninterpreted functions of the world
VAcc         defaultdict(lambda: defaultdict(lambda: defaultdict(list))): ghost state
               Cnt[a][b][n][s]  how many pairs with stamp s were appended to acc[a][b][n]
               Val[a][b][n][s]  the value of the pair appended last with stamp s
             (the ORDER of the pairs inside one list is not part of the ghost state)
VAccPath     acc[a], acc[a][b] (reading a defaultdict level creates it: harmless for the ghost state, empty lists hold no pair)
VAccList     acc[a][b][n]: only .append((stamp, value)) is supported
"""
import z3
from .sym import fresh, fresh_fun, Int, Bool, Node, Obj, IntV
from .values import *   # noqa

A4C = z3.ArraySort(Obj, z3.ArraySort(Obj, z3.ArraySort(Node, z3.ArraySort(Int, Int))))
A4V = z3.ArraySort(Obj, z3.ArraySort(Obj, z3.ArraySort(Node, z3.ArraySort(Int, Obj))))


class VLambda(V):
    kind = 'lambda'

    def __init__(self, node):
        self.node = node


class ConfWorld(object):
    def __init__(self):
        self.cnone = fresh_fun('conf_none', Int, Bool)
        self.k1 = fresh_fun('conf_k1', Int, Obj, Bool)
        self.k2 = fresh_fun('conf_k2', Int, Obj, Obj, Bool)
        self.k3 = fresh_fun('conf_k3', Int, Obj, Obj, Node, Bool)
        self.cv = fresh_fun('conf_v', Int, Obj, Obj, Node, Obj)

    def entry(self, t, a, b, n):
        return z3.And(self.k1(t, a), self.k2(t, a, b), self.k3(t, a, b, n))


class VNDict(V):
    kind = 'ndict'

    def __init__(self, w, t, keys=()):
        self.w, self.t, self.keys = w, t, tuple(keys)


class VAcc(V):
    kind = 'acc'

    def __init__(self, cnt=None, val=None):
        zero = z3.K(Obj, z3.K(Obj, z3.K(Node, z3.K(Int, IntV(0)))))
        self.cnt = cnt if cnt is not None else zero
        self.val = val if val is not None else fresh('accval0', A4V)

    def havoc(self, name):
        return VAcc(fresh(name + '.cnt', A4C), fresh(name + '.val', A4V))


class VAccPath(V):
    kind = 'accpath'

    def __init__(self, acc, keys):
        self.acc, self.keys = acc, tuple(keys)


class VAccList(V):
    kind = 'acclist'

    def __init__(self, acc, a, b, n):
        self.acc, self.a, self.b, self.n = acc, a, b, n


def lambda_depth(node):
    """defaultdict(lambda: defaultdict(lambda: defaultdict(list))) -> 3; None when the expression has another shape"""
    import ast
    d = 1
    cur = node
    while True:
        if isinstance(cur, ast.Name) and cur.id == 'list':
            return d
        if isinstance(cur, ast.Lambda) and not cur.args.args and isinstance(cur.body, ast.Call) and isinstance(cur.body.func, ast.Name) \
                and cur.body.func.id == 'defaultdict' and len(cur.body.args) == 1 and not cur.body.keywords:
            cur = cur.body.args[0]
            d += 1
            continue
        return None


def acc_getitem(interp, c, key):
    acc = c if c.kind == 'acc' else c.acc
    keys = () if c.kind == 'acc' else c.keys
    if len(keys) < 2:
        if key.kind != 'opaque' or key.z.sort() != Obj:
            raise Undecided('accumulator key of kind %s at level %d' % (key.kind, len(keys) + 1))
        return VAccPath(acc, keys + (key.z,))
    if key.kind != 'node':
        raise Undecided('accumulator key of kind %s at level 3' % key.kind)
    return VAccList(acc, keys[0], keys[1], key.z)


def m_acclist_append(interp, recv, argv, kwv):
    x = argv[0]
    if not (x.kind == 'tuple' and len(x.items) == 2 and x.items[0].kind == 'int' and x.items[1].kind == 'opaque' and x.items[1].z.sort() == Obj):
        raise Undecided('appended value is not a (stamp, value) pair')
    acc, a, b, n = recv.acc, recv.a, recv.b, recv.n
    s = x.items[0].z
    hook = getattr(interp, 'on_acc_append', None)
    if hook:
        hook(interp, a, b, n, s, x.items[1].z)
    c = acc.cnt
    acc.cnt = z3.Store(c, a, z3.Store(c[a], b, z3.Store(c[a][b], n, z3.Store(c[a][b][n], s, c[a][b][n][s] + 1))))
    v = acc.val
    acc.val = z3.Store(v, a, z3.Store(v[a], b, z3.Store(v[a][b], n, z3.Store(v[a][b][n], s, x.items[1].z))))
    return VNone


def m_ndict_items(interp, recv, argv, kwv):
    from .loops import VBag
    w, t, keys = recv.w, recv.t, recv.keys
    if len(keys) == 0:
        return VBag([Obj], lambda a: w.k1(t, a), lambda a: VTuple([VOpaque(a, 'key'), VNDict(w, t, (a,))]), note='items of the result, level 1')
    if len(keys) == 1:
        return VBag([Obj], lambda b: w.k2(t, keys[0], b), lambda b: VTuple([VOpaque(b, 'key'), VNDict(w, t, keys + (b,))]), note='items, level 2')
    return VBag([Node], lambda n: w.k3(t, keys[0], keys[1], n), lambda n: VTuple([VNode(n), VOpaque(w.cv(t, keys[0], keys[1], n), 'value')]),
                note='items, level 3')


# ---- all_time_respecting_paths (C13): the result of an assumed callee keyed by (first, last) pairs, and a local dict keyed by node pairs

class TrpWorld(object):
    """vocabulary of the assumed contract of time_respecting_paths(G, u, None, start, end, sample) for fixed other arguments:
    K(u, k): k is a key of the result for source u;  last(k): the last node of the key (its first node is u);  pv(u, k): the value;
    keyof(u, w): the key of source u whose last node is w (keys are (u, w) pairs: at most one per w)"""

    def __init__(self):
        self.K = fresh_fun('trp_key', Node, Obj, Bool)
        self.last = fresh_fun('trp_last', Obj, Node)
        self.pv = fresh_fun('trp_val', Node, Obj, Obj)
        self.keyof = fresh_fun('trp_keyof', Node, Node, Obj)

    def E(self, a, b):
        return z3.And(self.K(a, self.keyof(a, b)), self.last(self.keyof(a, b)) == b)


class VTrp(V):
    kind = 'trp'

    def __init__(self, w, u, n):
        self.w, self.u, self.n = w, u, n          # n: its number of keys (z3 Int)


def m_trp_items(interp, recv, argv, kwv):
    from .loops import VBag
    w, u = recv.w, recv.u
    return VBag([Obj], lambda k: w.K(u, k), lambda k: VTuple([VOpaque(k, 'trpkey'), VOpaque(w.pv(u, k), 'value')]), note='items of the per-source result')


class VPairMap(V):
    """a local dict keyed by (node, node) tuples: has[a][b], val[a][b]"""
    kind = 'pairmap'

    def __init__(self, has=None, val=None):
        self.has = has if has is not None else z3.K(Node, z3.K(Node, z3.BoolVal(False)))
        self.val = val if val is not None else fresh('pm_val0', z3.ArraySort(Node, z3.ArraySort(Node, Obj)))

    def havoc(self, name):
        return VPairMap(fresh(name + '.has', z3.ArraySort(Node, z3.ArraySort(Node, Bool))), fresh(name + '.val', z3.ArraySort(Node, z3.ArraySort(Node, Obj))))


def pairmap_setitem(interp, c, key, v):
    if not (key.kind == 'tuple' and len(key.items) == 2 and all(x.kind == 'node' for x in key.items)):
        raise Undecided('pair-keyed dict written with a key that is not a pair of nodes')
    if v.kind != 'opaque' or v.z.sort() != Obj:
        raise Undecided('pair-keyed dict written with a value of kind %s' % v.kind)
    a, b = key.items[0].z, key.items[1].z
    c.has = z3.Store(c.has, a, z3.Store(c.has[a], b, True))
    c.val = z3.Store(c.val, a, z3.Store(c.val[a], b, v.z))


# ---- a local dict with int keys and int values that a loop updates (histograms: inter_event_time_distribution, C17) ------------------

AIB = z3.ArraySort(Int, Bool)
AII = z3.ArraySort(Int, Int)


class VIntDict(V):
    """has[k], val[k]; with ctx.hist_sums = (Mass, WSum) every store emits the defining equations of
       Mass(d) = sum of the values,  WSum(d) = sum over the keys of key * value   for the updated dict"""
    kind = 'intdict'

    def __init__(self, has=None, val=None):
        self.has = has if has is not None else z3.K(Int, z3.BoolVal(False))
        self.val = val if val is not None else z3.K(Int, IntV(0))

    def havoc(self, name):
        return VIntDict(fresh(name + '.has', AIB), fresh(name + '.val', AII))


def intdict_contains(interp, d, x):
    if x.kind != 'int':
        return False
    return d.has[x.z]


def intdict_getitem(interp, d, key):
    if key.kind != 'int':
        raise PyRaise('KeyError', 'histogram key')
    if interp.ctx.branch(z3.Not(d.has[key.z]), 'KeyError(histogram)'):
        raise PyRaise('KeyError', 'histogram at %s' % interp.ctx.where)
    return VInt(d.val[key.z])


def intdict_setitem(interp, d, key, v):
    if key.kind != 'int' or v.kind != 'int':
        raise Undecided('histogram written with %s -> %s' % (key.kind, v.kind))
    ctx = interp.ctx
    old = z3.If(d.has[key.z], d.val[key.z], IntV(0))
    has2, val2 = z3.Store(d.has, key.z, True), z3.Store(d.val, key.z, v.z)
    sums = getattr(ctx, 'hist_sums', None)
    if sums is not None:
        Mass, WSum = sums
        inc = v.z - old
        ctx.assume(Mass(has2, val2) == Mass(d.has, d.val) + inc)
        if not ctx.feasible(inc != 1):
            ctx.assume(WSum(has2, val2) == WSum(d.has, d.val) + key.z)        # (the increment is 1 on this path: linear instance)
        else:
            ctx.assume(WSum(has2, val2) == WSum(d.has, d.val) + key.z * inc)
    d.has, d.val = has2, val2
