"""Property checks: run the proof units that serve a property, triage what is not discharged (counter-model
-> replay on the real code), run the bounded stand-in parts, honour known findings, write evidence.

Exit codes (DESIGN 1.5): 0 held (KNOWN-FINDING lines allowed) / 1 violation (with a VIOLATION line) /
3 the tool itself failed.  `unknown`, time-outs and constructs outside the subset are UNDECIDED and never
non-zero by themselves."""
import hashlib
import importlib
import json
import multiprocessing as mp
import os
import sys
import time
import traceback

ROOT = os.path.dirname(os.path.dirname(os.path.abspath(__file__)))


def _unit_worker(job):
    """one proof unit = (contract, variant): enumerate paths, discharge the obligations carrying `tags`"""
    (factory_mod, factory_name, factory_args, variant, tags, excl, timeout_ms, use_cvc5) = job
    t0 = time.time()
    out = {'unit': '%s%r %s' % (factory_name, tuple(factory_args), variant), 'variant': variant, 'results': [],
           'stats': None, 'error': None, 'key': None, 'sha': None}
    try:
        from pyvc.engine import Engine
        from pyvc.solve import split_goal, to_smt2, solve_one
        import z3
        eng = Engine()
        mod = importlib.import_module(factory_mod)
        contract = getattr(mod, factory_name)(*factory_args)
        contract.excluded_regions = set(excl or ())
        for dep in getattr(contract, 'uses', lambda e: [])(eng):
            eng.register(dep, modular=True)
        eng.register(contract, modular=False)
        eng.cur_key = contract.key
        out['key'] = contract.key
        out['sha'] = eng.fn(contract.key).sha if contract.key in eng.funcs else None
        out['deps'] = {k: eng.funcs[k].sha for k in getattr(contract, 'reads', lambda: [])() if k in eng.funcs}
        canaries = []

        def finish_with_canary(ctx, call, outcome):
            # vacuity guard ("smoke test"): `False` must NOT follow from the hypotheses and the path condition
            if len(canaries) < 4 or (outcome[0] == 'raise' and not any(k == outcome[1] for k, _ in canaries)):
                from pyvc.interp import Obligation
                canaries.append((outcome[0] if outcome[0] == 'return' else outcome[1],
                                 Obligation('canary.false', z3.BoolVal(False), ctx.hyps + ctx.pc, kind='canary', path=list(ctx.trace))))
            contract.finish(ctx, call, outcome)
        cut_canaries = []

        def on_cut(ctx):
            # the same guard at the end of loop-body / prefix paths (their obligations are loop-step clauses assumed from invariants)
            if len(cut_canaries) < 10:
                from pyvc.interp import Obligation
                cut_canaries.append(('cut', Obligation('canary.false', z3.BoolVal(False), ctx.hyps + ctx.pc, kind='canary', path=list(ctx.trace))))
        eng.on_cut = on_cut
        obs, stats = eng.run_paths(lambda ctx: contract.setup(ctx, variant), contract.body, finish_with_canary)
        canaries.extend(cut_canaries)
        out['stats'] = {k: v for k, v in stats.items()}
        out['gen_s'] = time.time() - t0
        out['n_generated'] = len(obs)
        idx = 0
        nfail = {}
        retry = []
        for ob in obs:
            if tags and not (set(ob.tags) & set(tags)) and ob.kind not in ('loop-entry', 'loop-step', 'loop-frame', 'pre'):
                continue
            for k, g in enumerate(split_goal(ob.goal)):
                if z3.is_true(g):
                    res = {'status': 'discharged', 'backend': 'trivial', 'seconds': 0.0, 'reason': ''}
                elif nfail.get(ob.name, 0) >= 3:
                    # the clause already failed three times in this unit: do not burn the budget on more paths
                    res = {'status': 'unknown', 'backend': '', 'seconds': 0.0, 'reason': 'skipped: clause already not discharged on 3 paths of this unit'}
                else:
                    res = solve_one((idx, to_smt2(ob.hyps, g), timeout_ms, use_cvc5))
                    if res['status'] != 'discharged' and getattr(ob, 'hyps_full', None) is not None:
                        # the clause was posed with a filtered hypothesis set: only a verdict on the FULL set counts
                        res2 = solve_one((idx, to_smt2(ob.hyps_full, g), timeout_ms, use_cvc5))
                        res2['seconds'] += res['seconds']
                        res2['backend'] = (res2['backend'] + '+allhyps') if res2['backend'] else ''
                        res = res2
                    if res['status'] != 'discharged':
                        nfail[ob.name] = nfail.get(ob.name, 0) + 1
                idx += 1
                rec = {'name': ob.name, 'conj': k, 'kind': ob.kind, 'tags': list(ob.tags), 'status': res['status'],
                       'backend': res['backend'], 'seconds': round(res['seconds'], 3), 'path': ob.path,
                       'note': ob.note, 'reason': res.get('reason', '')[:160]}
                if res['status'] != 'discharged' or len(out['results']) < 3:
                    rec['goal'] = str(g)[:600]
                if res['status'] == 'unknown' and 'timeout' in res.get('reason', '') and not res.get('reason', '').startswith('skipped'):
                    retry.append((rec, getattr(ob, 'hyps_full', None) or ob.hyps, g))
                out['results'].append(rec)
        # a time-out is not a verdict: one more attempt (at most three obligations per unit) with twice the budget (a busy machine must not flip a verdict)
        for rec, hyps, g in retry[:3]:
            res = solve_one((0, to_smt2(hyps, g), 2 * timeout_ms, False))
            rec['seconds'] = round(rec['seconds'] + res['seconds'], 3)
            if res['status'] != 'unknown':
                rec.update(status=res['status'], backend=res['backend'] + '+retry', reason=res.get('reason', '')[:160])
        live = 0
        cut_live = 0
        for kind_, ob in canaries:
            r = solve_one((0, to_smt2(ob.hyps, ob.goal), 1500, False))
            if r['status'] != 'discharged':
                live += 1
                if kind_ == 'cut':
                    cut_live += 1
        out['canary'] = {'path_ends_probed': len(canaries), 'not_vacuous': live, 'loop_body_paths_probed': len(cut_canaries), 'loop_body_paths_not_vacuous': cut_live}
        out['wall_s'] = time.time() - t0
    except Exception:
        out['error'] = traceback.format_exc()
    return out


def run_units(jobs, workers):
    if not jobs:
        return []
    if workers <= 1 or len(jobs) == 1:
        return [_unit_worker(j) for j in jobs]
    ctx = mp.get_context('fork')
    with ctx.Pool(min(workers, len(jobs))) as pool:
        return list(pool.imap(_unit_worker, jobs, chunksize=1))


def load_known_findings():
    p = os.path.join(ROOT, 'known_findings.json')
    if not os.path.exists(p):
        return {'findings': [], 'fixed': []}
    return json.load(open(p))


def write_evidence(pid, ev):
    d = os.environ.get('VERIF_EVIDENCE_DIR') or os.path.join(ROOT, 'evidence')
    os.makedirs(d, exist_ok=True)
    p = os.path.join(d, pid + '.json')
    with open(p, 'w') as f:
        json.dump(ev, f, indent=1, sort_keys=True, default=str)
    return p


def write_replay(pid, clause, payload):
    d = os.path.join(ROOT, 'replays')
    os.makedirs(d, exist_ok=True)
    h = hashlib.sha256(json.dumps(payload, sort_keys=True, default=str).encode()).hexdigest()[:10]
    safe = ''.join(ch if ch.isalnum() or ch in '._-' else '_' for ch in clause)[:80]
    p = os.path.join(d, '%s-%s-%s.json' % (pid, safe, h))
    with open(p, 'w') as f:
        json.dump(payload, f, indent=1, sort_keys=True, default=str)
    return p
