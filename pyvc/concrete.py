"""Between the symbolic world and the real code: abstraction of a real graph object into a concrete
HGraph (z3 constant arrays), construction of a real graph object from a solver model, and evaluation of
contract clauses on concrete pre/post states of the REAL function (replay, CPython differential)."""
import collections
import copy
import itertools
import z3
from .sym import Int, Bool, Node, Obj, Op, OP_PLUS, OP_MINUS, EvK, evk, IntV
from .values import HGraph, A


class NodeMap(object):
    """python node ids <-> distinct z3 Node constants; attribute values <-> Obj constants"""

    def __init__(self):
        self.n2z, self.z2n = {}, {}
        self.objs = {}

    def node(self, n):
        if n not in self.n2z:
            z = z3.Const('N!%s' % (repr(n),), Node)
            self.n2z[n] = z
            self.z2n[str(z)] = n
        return self.n2z[n]

    def obj(self, value, empty=None):
        if isinstance(value, dict) and not value and empty is not None:
            return empty
        k = repr(value)
        if k not in self.objs:
            self.objs[k] = z3.Const('O!%s' % k, Obj)
        return self.objs[k]

    def distinct(self, extra_nodes=(), empty=None):
        hs = []
        ns = list(self.n2z.values()) + list(extra_nodes)
        if len(ns) > 1:
            hs.append(z3.Distinct(*ns))
        os_ = list(self.objs.values()) + ([empty] if empty is not None else [])
        if len(os_) > 1:
            hs.append(z3.Distinct(*os_))
        return hs


def _store2(arr, a, b, v):
    return z3.Store(arr, a, z3.Store(arr[a], b, v))


def abstract_graph(G, nm, name, refs=None, empty_attr=None):
    """real DynGraph/DynDiGraph -> concrete HGraph.  refs: id(edge-data dict) -> ref number, shared
    between the pre- and post-state abstraction of one call so that object identity is preserved."""
    directed = G.is_directed()
    g = HGraph(name, directed, G.__class__.__name__)
    g.make_empty(bool(G.edge_removal))
    refs = refs if refs is not None else {}
    problems = []
    nodein, nattr = g['NodeIn'], z3.K(Node, empty_attr if empty_attr is not None else z3.Const('O!none', Obj))
    for n, d in G._node.items():
        nodein = z3.Store(nodein, nm.node(n), True)
        nattr = z3.Store(nattr, nm.node(n), nm.obj(d, empty_attr))
    g['NodeIn'], g['NAttr'] = nodein, nattr
    reps = {'adj': G._adj} if not directed else {'succ': G._succ, 'pred': G._pred}
    hasT, ln, S, E = g['HasT'], g['Len'], g['S'], g['E']
    seen_iv = {}
    for w, rep in reps.items():
        row, cell = g['Row_' + w], g['Cell_' + w]
        for a, nbrs in rep.items():
            row = z3.Store(row, nm.node(a), True)
            for b, dd in nbrs.items():
                if id(dd) not in refs:
                    refs[id(dd)] = len(refs) + 1
                r = refs[id(dd)]
                cell = _store2(cell, nm.node(a), nm.node(b), IntV(r))
                if 't' in dd:
                    hasT = z3.Store(hasT, r, True)
                    tl = dd['t']
                    ln = z3.Store(ln, r, IntV(len(tl)))
                    Sr, Er = z3.K(Int, IntV(0)), z3.K(Int, IntV(0))
                    for i, iv in enumerate(tl):
                        if not (isinstance(iv, list) and len(iv) == 2 and all(isinstance(x, int) and not isinstance(x, bool) for x in iv)):
                            problems.append('timeline entry %r of %r-%r is not a 2-element int list' % (iv, a, b))
                            continue
                        key = (r, i)
                        if id(iv) in seen_iv and seen_iv[id(iv)] != key:
                            problems.append('interval object shared between timeline slots %r and %r' % (seen_iv[id(iv)], key))
                        seen_iv[id(iv)] = key
                        Sr = z3.Store(Sr, i, IntV(iv[0]))
                        Er = z3.Store(Er, i, IntV(iv[1]))
                    S = z3.Store(S, r, Sr)
                    E = z3.Store(E, r, Er)
                extra = set(dd) - {'t'}
                if extra:
                    problems.append('edge data of %r-%r has extra keys %r' % (a, b, sorted(extra)))
        g['Row_' + w], g['Cell_' + w] = row, cell
    g['HasT'], g['Len'], g['S'], g['E'] = hasT, ln, S, E
    g['NextRef'] = IntV(len(refs) + 1)
    tk, tv0, ev = g['TKey'], g['TVal0'], g['Ev']
    for q, val in G.time_to_edge.items():
        if not isinstance(q, int) or isinstance(q, bool):
            problems.append('time_to_edge key %r is not an int' % (q,))
            continue
        tk = z3.Store(tk, q, True)
        if isinstance(val, dict):
            inner = z3.K(EvK, z3.BoolVal(False))
            for key in val:
                if not (isinstance(key, tuple) and len(key) == 3 and key[2] in ('+', '-')):
                    problems.append('event key %r' % (key,))
                    continue
                inner = z3.Store(inner, evk(nm.node(key[0]), nm.node(key[1]), OP_PLUS if key[2] == '+' else OP_MINUS), True)
            ev = z3.Store(ev, q, inner)
        else:
            tv0 = z3.Store(tv0, q, True)
    g['TKey'], g['TVal0'], g['Ev'] = tk, tv0, ev
    sk, sc = g['SKey'], g['SCnt']
    for q, c in G.snapshots.items():
        if not isinstance(q, int) or isinstance(q, bool) or not isinstance(c, int):
            problems.append('snapshots entry %r: %r' % (q, c))
            continue
        sk = z3.Store(sk, q, True)
        sc = z3.Store(sc, q, IntV(c))
    g['SKey'], g['SCnt'] = sk, sc
    g['GAttr'] = nm.obj(dict(G.graph))
    g['Frozen'] = z3.BoolVal(bool(getattr(G, 'frozen', False)))
    g.problems = problems
    return g


def graph_dump(G):
    """JSON-able description of a real graph's representation (for replay files)"""
    directed = G.is_directed()
    rep = G._succ if directed else G._adj
    cells = []
    for a, nbrs in rep.items():
        for b, dd in nbrs.items():
            cells.append([repr(a), repr(b), copy.deepcopy(dd.get('t'))])
    return {
        'class': G.__class__.__name__, 'edge_removal': bool(G.edge_removal),
        'nodes': {repr(n): repr(d) for n, d in G._node.items()},
        'cells': cells,
        'time_to_edge': {str(q): (sorted('%r %r %s' % k for k in v) if isinstance(v, dict) else v)
                         for q, v in sorted(G.time_to_edge.items())},
        'snapshots': {str(q): c for q, c in sorted(G.snapshots.items())},
    }


def build_graph(desc):
    """real graph object from a state description:
    {'class','edge_removal','nodes':[ids],'edges':[(a,b,[[s,e],..])...],'events':[(q,a,b,op)],'tte_zero':[q],
     'snapshots':{q:c}} - written directly into the representation fields (DESIGN 7)."""
    import dynetx as dn
    cls = getattr(dn, desc['class'])
    G = cls(edge_removal=desc.get('edge_removal', True))
    directed = desc['class'] == 'DynDiGraph'
    for n in desc['nodes']:
        G._node[n] = {}
        if directed:
            G._succ[n] = {}
            G._pred[n] = {}
        else:
            G._adj[n] = {}
    for a, b, tl in desc['edges']:
        dd = {'t': [list(iv) for iv in tl]}
        if directed:
            G._succ[a][b] = dd
            G._pred[b][a] = dd
        else:
            G._adj[a][b] = dd
            G._adj[b][a] = dd
    for q in desc.get('tte_zero', []):
        G.time_to_edge[q] = 0
    for (q, a, b, op) in desc.get('events', []):
        if not isinstance(G.time_to_edge.get(q), dict):
            G.time_to_edge[q] = {}
        G.time_to_edge[q][(a, b, op)] = None
    for q in desc.get('tte_empty', []):
        if q not in G.time_to_edge:
            G.time_to_edge[q] = {}
    for q, c in desc.get('snapshots', {}).items():
        G.snapshots[int(q)] = c
    return G


def check_concrete(hyps, goal, timeout_ms=10000):
    """is the clause violated on these concrete states?  True / False / None (undecided)"""
    s = z3.Solver()
    s.set('timeout', timeout_ms)
    for h in hyps:
        s.add(h)
    s.add(z3.Not(goal))
    r = s.check()
    if r == z3.sat:
        return True, s.model()
    if r == z3.unsat:
        return False, None
    return None, None


def model_to_desc(m, g, cls, bound_n, int_terms, focus=None):
    """concretise a solver model of a (bounded-mode) pre-state into a state description.
    g: the symbolic pre-state HGraph; int_terms: z3 Int terms whose values are interesting instants"""
    def ev(t):
        return m.eval(t, model_completion=True)
    uni = m.get_universe(Node) or []
    if focus is not None:
        # keep only the part of the model the clause talks about (the rest is solver filler)
        keep = []
        for t in focus:
            z = ev(t)
            if not any(z.eq(k) for k in keep):
                keep.append(z)
        uni = keep
    ids = {str(z): k + 1 for k, z in enumerate(uni)}
    directed = g.directed
    desc = {'class': cls, 'edge_removal': z3.is_true(ev(g['ER'])), 'nodes': [], 'edges': [], 'events': [],
            'tte_zero': [], 'snapshots': {}}
    for z in uni:
        if z3.is_true(ev(g['NodeIn'][z])):
            desc['nodes'].append(ids[str(z)])
    pts = set()
    w = g.mainw()
    seen_pairs = set()
    for a in uni:
        for b in uni:
            r = ev(g['Cell_' + w][a][b]).as_long()
            if r == 0:
                continue
            ka, kb = ids[str(a)], ids[str(b)]
            if not directed and (kb, ka) in seen_pairs:
                continue
            seen_pairs.add((ka, kb))
            n = ev(g['Len'][r]).as_long()
            tl = []
            for i in range(n):
                s, e = ev(g['S'][r][i]).as_long(), ev(g['E'][r][i]).as_long()
                tl.append([s, e])
                pts.update([s, e])
            desc['edges'].append((ka, kb, tl))
            for x in (ka, kb):
                if x not in desc['nodes']:
                    desc['nodes'].append(x)
    for t in int_terms:
        v = ev(t)
        if z3.is_int_value(v):
            pts.add(v.as_long())
    cand = set()
    for p in pts:
        cand.update(range(p - 2, p + 3))
    for q in sorted(cand):
        if z3.is_true(ev(g['TKey'][q])):
            if z3.is_true(ev(g['TVal0'][q])):
                desc['tte_zero'].append(q)
            else:
                any_ = False
                for a in uni:
                    for b in uni:
                        for opn, op in (('+', OP_PLUS), ('-', OP_MINUS)):
                            if z3.is_true(ev(g['Ev'][q][evk(a, b, op)])):
                                desc['events'].append((q, ids[str(a)], ids[str(b)], opn))
                                any_ = True
                if not any_:
                    desc.setdefault('tte_empty', []).append(q)
        if z3.is_true(ev(g['SKey'][q])):
            desc['snapshots'][q] = ev(g['SCnt'][q]).as_long()
    desc['node_ids'] = ids
    return desc
