"""Known findings (committed in /verif/known_findings.json, never written at run time) and replay files."""
import importlib
import json
import os
import sys

ROOT = os.path.dirname(os.path.dirname(os.path.abspath(__file__)))


def witness_still_fails(f):
    """re-run the finding's witness against the real code: does it still fail?"""
    w = f.get('witness')
    if not w:
        return True
    mod = importlib.import_module(w['module'])
    try:
        return bool(getattr(mod, w['function'])(*w.get('args', [])))
    except Exception:
        return True


def match_bounded(kf, pid, violation):
    """a bounded-tier violation that falls inside the region of a listed finding -> that finding"""
    for f in kf.get('findings', []):
        if pid not in f.get('properties', [f.get('property')]):
            continue
        m = f.get('matcher')
        if not m:
            continue
        mod = importlib.import_module(m['module'])
        try:
            if getattr(mod, m['function'])(violation):
                return f
        except Exception:
            continue
    return None


def replay_file(path):
    d = json.load(open(path))
    print('replay of %s: property %s, obligation %s' % (path, d.get('property'), d.get('obligation') or d.get('check')))
    if d.get('kind') == 'no-failing-input-found':
        print('no failing input was found; the file carries the failed obligation and the solver output:')
        print(json.dumps({k: d[k] for k in ('function', 'obligation', 'goal', 'reason') if k in d}, indent=1))
        return 0
    if d.get('function', '').endswith('.add_interaction') and 'history' in d and 'args' in d:
        from pyvc.engine import Engine
        mod = importlib.import_module('contracts.kernel')
        c = mod.AddInteraction(d['class'])
        rep = c.replay_history(Engine(), d['edge_removal'], [tuple(x) for x in d['history']] + [tuple(d['args'])])
        print('history:', d['history'], '(edge_removal=%s, %s)' % (d['edge_removal'], d['class']))
        print('call   :', rep['call'])
        print('outcome:', rep['outcome'])
        print('violated clauses on the real code:', sorted(rep['violated']))
        return 1 if rep['violated'] else 0
    if 'replayer' in d:
        r = d['replayer']
        viol = getattr(importlib.import_module(r['module']), r['function'])(*r['args'])
        print('call   :', d.get('call'))
        print('violated clauses on the real code:', json.dumps(viol, indent=1))
        return 1 if viol else 0
    if 'part' in d:
        from bounded import parts
        return parts.replay(d)
    print(json.dumps(d, indent=1)[:2000])
    return 0
