"""Run the verification of one contract: enumerate paths per variant, discharge, summarise."""
import time
from .engine import Engine
from .solve import discharge
from . import sym


def verify_contract(engine, contract, variants=None, workers=8, timeout_ms=20000, use_cvc5=True, verbose=False):
    out = []
    t0 = time.time()
    engine.register(contract, modular=False)
    for var in contract.variants():
        if variants is not None and not variants(var):
            continue
        vname = contract.variant_name(var)
        engine.cur_key = contract.key
        t1 = time.time()
        obs, stats = engine.run_paths(lambda ctx: contract.setup(ctx, var), contract.body, contract.finish)
        gen_s = time.time() - t1
        t2 = time.time()
        meta = discharge(obs, workers=workers, timeout_ms=timeout_ms, use_cvc5=use_cvc5)
        out.append({'variant': vname, 'stats': stats, 'results': meta, 'gen_s': gen_s, 'solve_s': time.time() - t2})
        if verbose:
            n = len(meta)
            d = sum(1 for _, _, r in meta if r['status'] == 'discharged')
            print('  %-32s paths=%d infeasible=%d exits=%s undecided=%d  obligations=%d discharged=%d  gen %.1fs solve %.1fs'
                  % (vname, stats['paths'], stats['infeasible'], stats['exits'], len(stats['undecided']), n, d,
                     gen_s, time.time() - t2))
            for u in stats['undecided'][:5]:
                print('     UNDECIDED:', u)
    return out


def summarise(results, show=40):
    fails = {}
    for r in results:
        for ob, k, res in r['results']:
            if res['status'] != 'discharged':
                fails.setdefault((ob.name, res['status']), []).append((r['variant'], ob, k, res))
    for (name, st), lst in sorted(fails.items()):
        v, ob, k, res = lst[0]
        print('  %-9s %-60s x%d  e.g. [%s] %s  %s' % (st, name, len(lst), v, ' '.join(ob.path[-6:]), ob.note))
    return fails


def find_counterexample(engine, make_contract, variant, ob_name, ns=(1, 2, 3), max_queries=60, log=None, budget_s=150):
    """Refutation mode (DESIGN 1.5): re-generate the obligations of `variant` with every timeline length fixed
    to n (index quantifiers unroll), solve the named clause in complete mode (MBQI), concretise the model into a
    real pre-state + arguments, check that the pre-state satisfies the whole invariant (models of the filtered
    hypothesis set that are not legal pre-states are discarded), run the REAL function and re-evaluate the clause.
    Returns (replay dict or None, info)."""
    import time
    import z3
    from .solve import split_goal
    t0 = time.time()
    tried = 0
    info = {'models': 0, 'illegal_pre_states': 0, 'not_reproduced': 0}
    for n in ns:
        for full in (False,):
            c = make_contract(n)
            c.full_hyps = full
            engine.register(c, modular=False)
            engine.cur_key = c.key
            obs, stats = engine.run_paths(lambda ctx: c.setup(ctx, variant), c.body, c.finish)
            cands = [o for o in obs if o.name == ob_name]
            for ob in cands:
                for g in split_goal(ob.goal):
                    if tried >= max_queries or time.time() - t0 > budget_s:
                        return None, info
                    tried += 1
                    s = z3.Solver()
                    s.set('timeout', 12000 if full else 4000)
                    for h in ob.hyps:
                        s.add(h)
                    s.add(z3.Not(g))
                    if s.check() != z3.sat:
                        continue
                    info['models'] += 1
                    m = s.model()
                    try:
                        rep = c.replay_model(engine, m, ob.call, n)
                    except Exception as ex:     # concretisation problems are not verdicts
                        if log:
                            log('model could not be replayed: %r' % (ex,))
                        continue
                    rep['bound_n'] = n
                    rep['path'] = ob.path
                    rep['clause'] = ob.name
                    if ob_name in rep['violated'] or any(k.split('.')[0] == ob_name.split('.')[0] for k in rep['violated']):
                        rep['confirmed'] = True
                        return rep, info
                    info['not_reproduced'] += 1
                    if log:
                        log('model did not reproduce on the real code: %s -> %s' % (rep['call'], sorted(rep['violated'])))
    return None, info
