"""Run the verification of one contract: enumerate paths per variant, discharge, summarise."""
import time
from .engine import Engine
from .solve import discharge
from . import sym


def verify_contract(engine, contract, variants=None, workers=8, timeout_ms=20000, use_cvc5=True, verbose=False):
    out = []
    t0 = time.time()
    engine.register(contract, modular=False)
    for var in contract.variants():
        if variants is not None and not variants(var):
            continue
        vname = contract.variant_name(var)
        engine.cur_key = contract.key
        t1 = time.time()
        obs, stats = engine.run_paths(lambda ctx: contract.setup(ctx, var), contract.body, contract.finish)
        gen_s = time.time() - t1
        t2 = time.time()
        meta = discharge(obs, workers=workers, timeout_ms=timeout_ms, use_cvc5=use_cvc5)
        out.append({'variant': vname, 'stats': stats, 'results': meta, 'gen_s': gen_s, 'solve_s': time.time() - t2})
        if verbose:
            n = len(meta)
            d = sum(1 for _, _, r in meta if r['status'] == 'discharged')
            print('  %-32s paths=%d infeasible=%d exits=%s undecided=%d  obligations=%d discharged=%d  gen %.1fs solve %.1fs'
                  % (vname, stats['paths'], stats['infeasible'], stats['exits'], len(stats['undecided']), n, d,
                     gen_s, time.time() - t2))
            for u in stats['undecided'][:5]:
                print('     UNDECIDED:', u)
    return out


def summarise(results, show=40):
    fails = {}
    for r in results:
        for ob, k, res in r['results']:
            if res['status'] != 'discharged':
                fails.setdefault((ob.name, res['status']), []).append((r['variant'], ob, k, res))
    for (name, st), lst in sorted(fails.items()):
        v, ob, k, res = lst[0]
        print('  %-9s %-60s x%d  e.g. [%s] %s  %s' % (st, name, len(lst), v, ' '.join(ob.path[-6:]), ob.note))
    return fails
