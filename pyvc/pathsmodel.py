"""Abstract values for annotate_paths (C14): what the function reads of a path is its hop count, the time of its first and of
its last hop, and its identity under == (two equal hop sequences are one path).  A path is therefore kept as its content id
c = cid(i) (i = position in the input list) with PL(c), T0(c), T1(c) uninterpreted functions of the content.

VPath(c)      a path object (list or tuple of hops) with content id c
VPathKey(c)   tuple(path): the hashable content
VOptInt       a local that is None or an int (min-so-far variables)
VOptBag       a local that is None or a list of input paths: multiset over positions, cnt(i) = multiplicity of paths[i]
VKeyMap       {tuple(p): f(p) for p in bag}: dom(c), value F(c)
VKeySet       a list / iteration of content ids given by its membership predicate
"""
import z3
from .sym import fresh, fresh_fun, Int, Bool, IntV, inb, FA
from .values import *   # noqa


class PathWorld(object):
    """the uninterpreted vocabulary shared by one verification run"""

    def __init__(self):
        self.cid = fresh_fun('cid', Int, Int)        # position -> content id
        self.PL = fresh_fun('PL', Int, Int)          # content -> hop count
        self.T0 = fresh_fun('T0', Int, Int)          # content -> time of the first hop
        self.T1 = fresh_fun('T1', Int, Int)          # content -> time of the last hop
        self.n = fresh('npaths', Int)


class VPath(V):
    kind = 'path'

    def __init__(self, w, c, pos=None):
        self.w, self.c, self.pos = w, c, pos


class VPathKey(V):
    kind = 'pathkey'

    def __init__(self, w, c):
        self.w, self.c = w, c


class VOptInt(V):
    kind = 'optint'

    def __init__(self, isnone, val):
        self.isnone, self.val = isnone, val


class VOptBag(V):
    kind = 'optbag'

    def __init__(self, w, isnone, cnt):
        self.w, self.isnone, self.cnt = w, isnone, cnt


class VKeyMap(V):
    kind = 'keymap'

    def __init__(self, w, dom, val):
        self.w, self.dom, self.val = w, dom, val       # dom(c) -> Bool, val(c) -> Int


class VKeySet(V):
    kind = 'keyset'

    def __init__(self, w, member, as_lists=False):
        self.w, self.member, self.as_lists = w, member, as_lists


def bag_of(w, items):
    """[p1, p2, ...] (a literal list of input paths) as a bag"""
    cnt = z3.K(Int, IntV(0))
    for p in items:
        if p.kind != 'path' or p.pos is None:
            raise Undecided('list of something other than input paths')
        cnt = z3.Store(cnt, p.pos, cnt[p.pos] + 1)
    return VOptBag(w, z3.BoolVal(False), cnt)


def resolve_opt(interp, v):
    """an optional local splits the path when it is read: None on one side, the int / bag on the other"""
    if v.kind == 'optint':
        if interp.ctx.branch(v.isnone, 'is-None'):
            return VNone
        return VInt(v.val)
    if v.kind == 'optbag':
        if interp.ctx.branch(v.isnone, 'is-None'):
            return VNone
        return VOptBag(v.w, z3.BoolVal(False), v.cnt)
    return v
