"""./verif check <property> --tier quick|thorough     ./verif replay <file>"""
import argparse
import importlib
import json
import os
import sys
import time
import traceback

ROOT = os.path.dirname(os.path.dirname(os.path.abspath(__file__)))
sys.path.insert(0, ROOT)
# the tree under verification (default /repo); `import dynetx` in replays and bounded runs must resolve there
REPO = os.environ.get('DYNETX_REPO', '/repo')
sys.path.insert(0, REPO)

from pyvc import check as chk            # noqa: E402


def _collect(results, tags):
    rows = []
    for u in results:
        for r in u['results']:
            rows.append((u, r))
    return rows


class _Limit(object):
    """wall-clock limit around calls that run the code under test in this process (witnesses, replays, bounded searches): a call
    that does not come back must not hang the check; the caller treats the TimeoutError like any other failure of that step"""

    def __init__(self, seconds):
        self.seconds = seconds

    def __enter__(self):
        import signal

        def on_alarm(signum, frame):
            raise TimeoutError('no result within %d s' % self.seconds)
        try:
            self.old = signal.signal(signal.SIGALRM, on_alarm)
            signal.alarm(self.seconds)
        except (ValueError, AttributeError):
            self.old = None
        return self

    def __exit__(self, *exc):
        import signal
        try:
            signal.alarm(0)
            if self.old is not None:
                signal.signal(signal.SIGALRM, self.old)
        except (ValueError, AttributeError):
            pass
        return False


def check_property(pid, tier, seed):
    from contracts import registry
    import dynetx
    assert os.path.realpath(dynetx.__file__).startswith(os.path.realpath(REPO)), 'dynetx imported from %s, not from %s' % (dynetx.__file__, REPO)
    t0 = time.time()
    workers = int(os.environ.get('VERIF_WORKERS', '16' if tier == 'thorough' else '12'))
    timeout_ms = 30000 if tier == 'thorough' else 8000
    lines = []
    violations = []          # (clause/part, replay path, suffix)
    undecided = []
    known_printed = []
    kf = chk.load_known_findings()

    # ---- known findings: is each one still present on the real code?
    active_regions = set()
    from pyvc import findings
    for f in kf.get('findings', []):
        if pid not in f.get('properties', [f.get('property')]):
            continue
        try:
            with _Limit(120):
                still = findings.witness_still_fails(f)
        except TimeoutError:
            still = True            # (the witness did not come back: the finding is certainly not repaired)
        if still:
            msg = 'KNOWN-FINDING: property=%s %s' % (pid, f['what'])
            if msg not in known_printed:
                known_printed.append(msg)
            for r in f.get('regions', []):
                active_regions.add(r)

    # ---- proof units
    units = registry.PROOF_UNITS.get(pid, [])
    jobs = [(m, f, a, v, (pid,), sorted(active_regions), timeout_ms, tier == 'thorough') for (m, f, a, v) in units]
    results = chk.run_units(jobs, workers)
    n_ob = n_dis = 0
    vacuity = []
    backends = {}
    solver_s = 0.0
    functions = {}
    samples = []
    failing = {}
    tool_errors = []
    for u in results:
        if u['error']:
            tool_errors.append((u['unit'], u['error']))
            continue
        functions[u['key']] = {'sha256_16': u['sha'], 'paths': functions.get(u['key'], {}).get('paths', 0) + u['stats']['paths']}
        for ud in u['stats']['undecided']:
            undecided.append('%s: %s' % (u['unit'], ud))
        can = u.get('canary') or {}
        vacuity.append({'unit': u['unit'], 'paths': u['stats']['paths'], 'path_ends_probed': can.get('path_ends_probed'), 'not_vacuous': can.get('not_vacuous'),
                        'loop_body_paths_probed': can.get('loop_body_paths_probed'), 'loop_body_paths_not_vacuous': can.get('loop_body_paths_not_vacuous')})
        if can.get('loop_body_paths_probed') and not can.get('loop_body_paths_not_vacuous'):
            undecided.append('%s: VACUOUS LOOP BODIES - `False` is provable at the end of every probed loop-body path (contradictory invariant?)' % u['unit'])
        if can.get('path_ends_probed') and not can.get('not_vacuous'):
            undecided.append('%s: VACUOUS - `False` is provable at every probed path end (contradictory requires/invariant?)' % u['unit'])
        if not u.get('n_generated') and not u['stats']['undecided']:
            undecided.append('%s: no obligation was generated' % u['unit'])
        for r in u['results']:
            n_ob += 1
            solver_s += r['seconds']
            backends[r['backend'] or 'none'] = backends.get(r['backend'] or 'none', 0) + 1
            if r['status'] == 'discharged':
                n_dis += 1
                if len(samples) < 4 and r.get('goal'):
                    samples.append({'clause': r['name'], 'function': u['key'], 'variant': u['variant'],
                                    'path': ' '.join(r['path'][-8:]), 'goal': r['goal'][:300], 'backend': r['backend']})
            else:
                failing.setdefault((u['key'], r['name']), []).append((u, r))

    # ---- ledger: every clause that the committed baseline generated must be generated again (vacuity guard)
    clause_names = sorted(set(r['name'] for u in results if not u['error'] for r in u['results'] if r['kind'] not in ('canary',)))
    ledger_path = os.path.join(ROOT, 'obligations.lock.json')
    if os.environ.get('VERIF_WRITE_LEDGER'):
        led = json.load(open(ledger_path)) if os.path.exists(ledger_path) else {}
        led[pid] = clause_names
        json.dump(led, open(ledger_path, 'w'), indent=0, sort_keys=True)
    elif os.path.exists(ledger_path):
        led = json.load(open(ledger_path)).get(pid)
        if led is not None:
            import re
            norm = lambda n: re.sub(r'@\d+', '@', n)          # loop labels carry line numbers
            have = set(norm(n) for n in clause_names)
            missing = sorted(set(norm(n) for n in led) - have)
            for m in missing[:12]:
                undecided.append('clause %s of the committed ledger was not generated on this tree (function changed shape, or paths vanished)' % m)

    # ---- static analyses that produce obligations (C19 frame analysis)
    static_rows = None
    for (modname, fname) in getattr(registry, 'STATIC_PARTS', {}).get(pid, []):
        obs_s, static_rows = getattr(importlib.import_module(modname), fname)(REPO)
        functions['%s.%s' % (modname, fname)] = {'callables_analysed': len(static_rows)}
        for o in obs_s:
            if o['ok'] is None:
                continue
            n_ob += 1
            backends['static-analysis'] = backends.get('static-analysis', 0) + 1
            if o['ok']:
                n_dis += 1
                if len(samples) < 6:
                    samples.append({'clause': o['name'], 'detail': o['detail'][:200], 'backend': 'static-analysis'})
            else:
                payload = {'property': pid, 'obligation': o['name'], 'kind': 'no-failing-input-found', 'function': o['name'],
                           'goal': o['detail'], 'reason': 'static frame / AST analysis of the real source'}
                path = chk.write_replay(pid, o['name'], payload)
                violations.append((o['name'], path, ' no-failing-input-found'))

    # ---- triage of what was not discharged
    from pyvc.driver import find_counterexample
    from pyvc.engine import Engine
    triage = []
    if failing:
        eng = Engine()
    triage_budget = 240 if tier == 'quick' else 1200
    t_tri = time.time()
    confirmed = 0
    for (key, name), lst in sorted(failing.items(), key=lambda kv: (0 if any(r['status'] == 'refuted' for _, r in kv[1]) else 1, kv[0])):
        statuses = sorted(set(r['status'] for _, r in lst))
        u, r = lst[0]
        if confirmed >= 2 or time.time() - t_tri > triage_budget:
            triage.append({'function': key, 'clause': name, 'count': len(lst), 'status': statuses, 'variant': u['variant'],
                           'path': ' '.join(r['path']), 'goal': r.get('goal', ''), 'triage': 'skipped (budget / already confirmed)'})
            if not confirmed:
                undecided.append('%s %s: not discharged, triage budget exhausted: UNDECIDED' % (key, name))
            continue
        entry = {'function': key, 'clause': name, 'count': len(lst), 'status': statuses, 'variant': u['variant'],
                 'path': ' '.join(r['path']), 'goal': r.get('goal', ''), 'reason': r.get('reason', '')}
        rep = None
        try:
            mod = importlib.import_module([x for x in units if True][0][0])
            unit = next(x for x in units if x[3] == u['variant'] and ('%s%r %s' % (x[1], tuple(x[2]), x[3])) == u['unit'])
            factory = getattr(importlib.import_module(unit[0]), unit[1])

            def mk(n, unit=unit, factory=factory):
                c = factory(*unit[2], bound_n=n)
                c.excluded_regions = set(active_regions)
                return c
            probe = mk(None)
            if not hasattr(probe, 'replay_model'):
                # no model concretisation for this contract: bounded search on the real function, if it offers one
                with _Limit(300 if tier == 'quick' else 900):
                    rep, cx_info = (probe.search_real(eng), {'search': 'bounded search on the real function'}) if hasattr(probe, 'search_real') else (None, {})
                if rep is not None:
                    rep['clause'] = name
            else:
                with _Limit(400 if tier == 'quick' else 1500):
                    rep, cx_info = find_counterexample(eng, mk, u['variant'], name, ns=(1, 2) if tier == 'quick' else (1, 2, 3),
                                                       log=lambda s: None, budget_s=150 if tier == 'quick' else 600)
            entry['counter_model_search'] = cx_info
        except Exception:
            entry['triage_error'] = traceback.format_exc()[-600:]
        if rep is not None:
            rep.update({'property': pid, 'function': key, 'obligation': name, 'kind': 'counter-model replayed on the real code'})
            path = chk.write_replay(pid, name, rep)
            violations.append((name, path, ''))
            entry['replay'] = path
            confirmed += 1
        elif 'refuted' in statuses and r.get('kind') == 'shape':
            undecided.append('%s %s: the code has a form the contract cannot interpret (%s) and no failing input was found: UNDECIDED, not a violation' % (key, name, r.get('note', '')[:80]))
        elif 'refuted' in statuses:
            payload = {'property': pid, 'function': key, 'obligation': name, 'kind': 'no-failing-input-found',
                       'solver': 'counter-model of the verification condition (complete mode), not reproduced on the real code',
                       'goal': r.get('goal', ''), 'path': r['path'], 'variant': u['variant'], 'reason': r.get('reason', '')}
            path = chk.write_replay(pid, name, payload)
            violations.append((name, path, ' no-failing-input-found'))
            entry['replay'] = path
        else:
            undecided.append('%s %s: not discharged (%s), no counter-model: UNDECIDED, not a violation' % (key, name, r.get('reason', '')[:80]))
        triage.append(entry)

    # ---- bounded stand-in parts
    bounded_cov = []
    for part in registry.BOUNDED_PARTS.get(pid, []):
        from bounded import parts
        t_part = time.time()
        res = getattr(parts, part)(tier, seed)
        res['coverage']['part'] = part
        res['coverage']['seconds'] = round(time.time() - t_part, 1)
        bounded_cov.append(res['coverage'])
        n_part = 0
        for v in res['violations']:
            v['part'] = part
            v['seed'] = seed
            m = findings.match_bounded(kf, pid, v)
            if m is not None:
                msg = 'KNOWN-FINDING: property=%s %s' % (pid, m['what'])
                if msg not in known_printed:
                    known_printed.append(msg)
                continue
            n_part += 1
            if n_part > 3:
                continue
            path = chk.write_replay(pid, v['check'], dict(v, property=pid, kind='bounded stand-in: failing input on the real code'))
            violations.append((v['check'], path, ''))

    # ---- evidence
    level = registry.LEVELS.get(pid, 'proof')
    cov = {
        'obligations': n_ob, 'discharged': n_dis,
        'checker_cmd': './verif check %s --tier %s' % (pid, tier),
        'trusted_base': registry.TRUSTED_BASE,
        'functions_under_contract': functions,
        'backends': backends, 'solver_seconds': round(solver_s, 2),
        'samples': samples or [{'note': 'no discharged sample recorded'}],
        'undecided': undecided[:40],
        'not_discharged': triage[:40],
        'known_findings_reported': known_printed,
        'bounded': bounded_cov,
        'static_analysis': static_rows,
        'vacuity_guard': vacuity,
        'explanation': registry.EXPLANATIONS.get(pid, '') if hasattr(registry, 'EXPLANATIONS') else '',
    }
    if bounded_cov:
        cov['evaluations'] = sum(b.get('evaluations', 0) for b in bounded_cov)
        cov['distinct_nontrivial'] = sum(b.get('distinct_nontrivial', 0) for b in bounded_cov)
        cov['rule'] = ' | '.join(b.get('rule', '') for b in bounded_cov)
    if undecided and level == 'proof':
        level_run = 'other'
        cov['explanation'] = ('level lowered for this run: %d obligation(s)/path(s) undecided; ' % len(undecided)) + cov.get('explanation', '')
    else:
        level_run = level
    if level_run == 'other' and not cov.get('explanation'):
        cov['explanation'] = 'mixed: proved clauses counted in obligations/discharged; bounded parts listed under bounded'
    ev = {'property_id': pid, 'tier': tier, 'seed': seed, 'level': level_run, 'coverage': cov,
          'assumptions': registry.TRUSTED_BASE + list(getattr(registry, 'ASSUMPTIONS', {}).get(pid, [])),
          'wall_s': round(time.time() - t0, 2), 'violations': len(violations)}
    chk.write_evidence(pid, ev)

    for m in known_printed:
        print(m)
    for u_ in undecided[:20]:
        print('UNDECIDED', u_)
    if tool_errors:
        for unit, err in tool_errors:
            sys.stderr.write('TOOL ERROR in %s\n%s\n' % (unit, err))
        print('check %s: tool error (exit 3)' % pid)
        return 3
    for (name, path, suffix) in violations:
        print('VIOLATION property=%s replay=%s%s' % (pid, path, suffix))
    print('check %s [%s]: %d/%d obligations discharged, %d undecided, %d violation(s), %.1fs'
          % (pid, tier, n_dis, n_ob, len(undecided), len(violations), time.time() - t0))
    return 1 if violations else 0


def main(argv=None):
    ap = argparse.ArgumentParser(prog='verif')
    sub = ap.add_subparsers(dest='cmd')
    c = sub.add_parser('check')
    c.add_argument('property')
    c.add_argument('--tier', default=os.environ.get('VERIF_TIER', 'quick'), choices=['quick', 'thorough'])
    r = sub.add_parser('replay')
    r.add_argument('path')
    a = ap.parse_args(argv)
    seed = int(os.environ.get('VERIF_SEED', '0') or 0)
    try:
        if a.cmd == 'check':
            return check_property(a.property, a.tier, seed)
        if a.cmd == 'replay':
            from pyvc import findings
            return findings.replay_file(a.path)
    except SystemExit:
        raise
    except Exception:
        traceback.print_exc()
        return 3
    ap.print_help()
    return 3


if __name__ == '__main__':
    sys.exit(main())
