"""CPython differential of the symbolic executor (DESIGN section 9): the executor is run on fully CONCRETE inputs (the
abstraction of a real graph object, concrete arguments) and its final heap is compared, component by component, with the
abstraction of the real object after CPython ran the real function.  Any difference is an engine bug (or a construct whose
model is wrong).  Used by the thorough tier and by tools/differential.py."""
import copy
import random
import z3
from .engine import Engine
from .interp import Interp, Ctx, PathEnd
from .values import *   # noqa
from .concrete import NodeMap, abstract_graph
from .sym import IntV, Node, Int


def run_concrete(engine, G, fkey, args, kwargs=None):
    """-> (list of mismatch descriptions, outcome string)"""
    kwargs = kwargs or {}
    nm = NodeMap()
    refs = {}
    empty = engine.empty_attr()
    for a in args:
        if isinstance(a, int) and not isinstance(a, bool):
            pass
    pre = abstract_graph(G, nm, 'self', refs, empty)
    if pre.problems:
        return ['pre-state outside the model: %s' % pre.problems[:2]], 'skipped'
    G2 = copy.deepcopy(G)
    # the deep copy has new dict identities: abstract the copy separately for the expectation, with its own ref numbering
    try:
        getattr(G2, fkey.split('.')[-1])(*args, **kwargs)
        real = 'return'
    except Exception as ex:
        real = 'raise ' + ex.__class__.__name__
    nm2 = NodeMap()
    nm2.n2z, nm2.z2n, nm2.objs = dict(nm.n2z), dict(nm.z2n), dict(nm.objs)
    exp = abstract_graph(G2, nm2, 'self', {}, empty)

    def val(a, is_node):
        if a is None:
            return VNone
        if is_node:
            return VNode(nm2.node(a))
        return VInt(a)
    decisions = []
    ctx = Ctx(engine, decisions, 2000)
    ctx.graphs['self'] = pre
    ctx.assume(nm2.distinct([], empty))
    interp = Interp(ctx, engine)
    fi = engine.fn(fkey)
    engine.cur_key = fkey
    argv = [VGraph(pre)] + [val(a, i < 2) for i, a in enumerate(args)]
    try:
        engine.inline(interp, fi, argv, {})
        sym = 'return'
    except PyRaise as ex:
        sym = 'raise ' + ex.cls
    except PathEnd:
        return ['executor hit an infeasible branch on concrete input'], real
    except Undecided as u:
        return [], 'undecided: %s' % u
    out = []
    if sym != real:
        out.append('outcome: executor %s, CPython %s' % (sym, real))
    # compare the abstract observables of both final states (reference numbering may differ: compare through the cells)
    s = z3.Solver()
    s.set('timeout', 5000)
    for h in ctx.hyps + ctx.pc:
        s.add(h)
    g = pre
    nodes = list(nm2.n2z.values())
    w = g.mainw()
    checks = []
    for a in nodes:
        checks.append(('NodeIn[%s]' % a, g['NodeIn'][a] == exp['NodeIn'][a]))
        for ww in g.ws:
            checks.append(('Row_%s[%s]' % (ww, a), g['Row_' + ww][a] == exp['Row_' + ww][a]))
        for b in nodes:
            for ww in g.ws:
                r1, r2 = g['Cell_' + ww][a][b], exp['Cell_' + ww][a][b]
                checks.append(('cell %s %s-%s present' % (ww, a, b), (r1 != 0) == (r2 != 0)))
                checks.append(('timeline %s %s-%s' % (ww, a, b), z3.Implies(r1 != 0, z3.And(
                    g['Len'][r1] == exp['Len'][r2], g['HasT'][r1] == exp['HasT'][r2],
                    *[z3.And(g['S'][r1][k] == exp['S'][r2][k], g['E'][r1][k] == exp['E'][r2][k]) for k in range(6)]))))
    for c in ('TKey', 'TVal0', 'Ev', 'SKey'):
        checks.append((c, g[c] == exp[c]))
    q = z3.Int('q?df')
    checks.append(('SCnt', z3.ForAll([q], z3.Implies(g['SKey'][q], g['SCnt'][q] == exp['SCnt'][q]))))
    # mirror cells share one object in the executor's heap too
    for a in nodes:
        for b in nodes:
            if g.directed:
                checks.append(('mirror %s-%s' % (a, b), g['Cell_pred'][b][a] == g['Cell_succ'][a][b]))
            else:
                checks.append(('mirror %s-%s' % (a, b), g['Cell_adj'][b][a] == g['Cell_adj'][a][b]))
    for name, f in checks:
        s.push()
        s.add(z3.Not(f))
        r = s.check()
        s.pop()
        if r != z3.unsat:
            out.append('%s differs (%s)' % (name, r))
    return out, real


def kernel_differential(n_histories, seed, max_len=4):
    """random histories on both classes and both modes; every call of every history is executed both ways"""
    import dynetx as dn
    rng = random.Random(seed)
    eng = Engine()
    stats = {'calls': 0, 'mismatches': [], 'undecided': 0, 'raise': 0}
    for h in range(n_histories):
        cls = rng.choice(('DynGraph', 'DynDiGraph'))
        removal = rng.random() < 0.75
        G = getattr(dn, cls)(edge_removal=removal)
        key = '%s::%s.add_interaction' % ('dyndigraph' if cls == 'DynDiGraph' else 'dyngraph', cls)
        hist = []
        for _ in range(rng.randint(1, max_len)):
            u, v = rng.choice((1, 2, 3)), rng.choice((1, 2, 3))
            t = rng.randint(-2, 6)
            e = rng.choice((None, None, t + 1, t + 2, t + 4))
            if rng.random() < 0.04:
                t, e = None, None
            args = (u, v, t, e)
            mism, real = run_concrete(eng, G, key, args)
            stats['calls'] += 1
            hist.append(list(args))
            if real.startswith('undecided'):
                stats['undecided'] += 1
            if real.startswith('raise'):
                stats['raise'] += 1
            if mism:
                stats['mismatches'].append({'class': cls, 'edge_removal': removal, 'history': list(hist), 'differences': mism[:4]})
                break
            try:
                G.add_interaction(u, v, t, e) if e is not None else G.add_interaction(u, v, t)
            except Exception:
                pass
    return stats
