"""CPython differential of the symbolic executor (DESIGN section 9): the executor is run on fully CONCRETE inputs (the
abstraction of a real graph object, concrete arguments) and its final heap is compared, component by component, with the
abstraction of the real object after CPython ran the real function.  Any difference is an engine bug (or a construct whose
model is wrong).  Used by the thorough tier and by tools/differential.py."""
import copy
import random
import z3
from .engine import Engine
from .interp import Interp, Ctx, PathEnd
from .values import *   # noqa
from .concrete import NodeMap, abstract_graph
from .sym import IntV, Node, Int


def run_concrete(engine, G, fkey, args, kwargs=None):
    """-> (list of mismatch descriptions, outcome string)"""
    kwargs = kwargs or {}
    nm = NodeMap()
    refs = {}
    empty = engine.empty_attr()
    for a in args:
        if isinstance(a, int) and not isinstance(a, bool):
            pass
    pre = abstract_graph(G, nm, 'self', refs, empty)
    if pre.problems:
        return ['pre-state outside the model: %s' % pre.problems[:2]], 'skipped'
    G2 = copy.deepcopy(G)
    # the deep copy has new dict identities: abstract the copy separately for the expectation, with its own ref numbering
    try:
        getattr(G2, fkey.split('.')[-1])(*args, **kwargs)
        real = 'return'
    except Exception as ex:
        real = 'raise ' + ex.__class__.__name__
    nm2 = NodeMap()
    nm2.n2z, nm2.z2n, nm2.objs = dict(nm.n2z), dict(nm.z2n), dict(nm.objs)
    exp = abstract_graph(G2, nm2, 'self', {}, empty)

    def val(a, is_node):
        if a is None:
            return VNone
        if is_node:
            return VNode(nm2.node(a))
        return VInt(a)
    decisions = []
    ctx = Ctx(engine, decisions, 2000)
    ctx.graphs['self'] = pre
    ctx.assume(nm2.distinct([], empty))
    interp = Interp(ctx, engine)
    fi = engine.fn(fkey)
    engine.cur_key = fkey
    argv = [VGraph(pre)] + [val(a, i < 2) for i, a in enumerate(args)]
    try:
        engine.inline(interp, fi, argv, {})
        sym = 'return'
    except PyRaise as ex:
        sym = 'raise ' + ex.cls
    except PathEnd:
        return ['executor hit an infeasible branch on concrete input'], real
    except Undecided as u:
        return [], 'undecided: %s' % u
    out = []
    if sym != real:
        out.append('outcome: executor %s, CPython %s' % (sym, real))
    # compare the abstract observables of both final states (reference numbering may differ: compare through the cells)
    s = z3.Solver()
    s.set('timeout', 5000)
    for h in ctx.hyps + ctx.pc:
        s.add(h)
    g = pre
    nodes = list(nm2.n2z.values())
    w = g.mainw()
    checks = []
    for a in nodes:
        checks.append(('NodeIn[%s]' % a, g['NodeIn'][a] == exp['NodeIn'][a]))
        for ww in g.ws:
            checks.append(('Row_%s[%s]' % (ww, a), g['Row_' + ww][a] == exp['Row_' + ww][a]))
        for b in nodes:
            for ww in g.ws:
                r1, r2 = g['Cell_' + ww][a][b], exp['Cell_' + ww][a][b]
                checks.append(('cell %s %s-%s present' % (ww, a, b), (r1 != 0) == (r2 != 0)))
                checks.append(('timeline %s %s-%s' % (ww, a, b), z3.Implies(r1 != 0, z3.And(
                    g['Len'][r1] == exp['Len'][r2], g['HasT'][r1] == exp['HasT'][r2],
                    *[z3.And(g['S'][r1][k] == exp['S'][r2][k], g['E'][r1][k] == exp['E'][r2][k]) for k in range(6)]))))
    for c in ('TKey', 'TVal0', 'Ev', 'SKey'):
        checks.append((c, g[c] == exp[c]))
    q = z3.Int('q?df')
    checks.append(('SCnt', z3.ForAll([q], z3.Implies(g['SKey'][q], g['SCnt'][q] == exp['SCnt'][q]))))
    # mirror cells share one object in the executor's heap too
    for a in nodes:
        for b in nodes:
            if g.directed:
                checks.append(('mirror %s-%s' % (a, b), g['Cell_pred'][b][a] == g['Cell_succ'][a][b]))
            else:
                checks.append(('mirror %s-%s' % (a, b), g['Cell_adj'][b][a] == g['Cell_adj'][a][b]))
    for name, f in checks:
        s.push()
        s.add(z3.Not(f))
        r = s.check()
        s.pop()
        if r != z3.unsat:
            out.append('%s differs (%s)' % (name, r))
    return out, real


def kernel_differential(n_histories, seed, max_len=4):
    """random histories on both classes and both modes; every call of every history is executed both ways"""
    import dynetx as dn
    rng = random.Random(seed)
    eng = Engine()
    stats = {'calls': 0, 'mismatches': [], 'undecided': 0, 'raise': 0}
    for h in range(n_histories):
        cls = rng.choice(('DynGraph', 'DynDiGraph'))
        removal = rng.random() < 0.75
        G = getattr(dn, cls)(edge_removal=removal)
        key = '%s::%s.add_interaction' % ('dyndigraph' if cls == 'DynDiGraph' else 'dyngraph', cls)
        hist = []
        for _ in range(rng.randint(1, max_len)):
            u, v = rng.choice((1, 2, 3)), rng.choice((1, 2, 3))
            t = rng.randint(-2, 6)
            e = rng.choice((None, None, t + 1, t + 2, t + 4))
            if rng.random() < 0.04:
                t, e = None, None
            args = (u, v, t, e)
            mism, real = run_concrete(eng, G, key, args)
            stats['calls'] += 1
            hist.append(list(args))
            if real.startswith('undecided'):
                stats['undecided'] += 1
            if real.startswith('raise'):
                stats['raise'] += 1
            if mism:
                stats['mismatches'].append({'class': cls, 'edge_removal': removal, 'history': list(hist), 'differences': mism[:4]})
                break
            try:
                G.add_interaction(u, v, t, e) if e is not None else G.add_interaction(u, v, t)
            except Exception:
                pass
    return stats


# ---- queries: the VALUE the executor computes on a concrete state against the value CPython returns ----------------------------------

QUERIES = {   # method -> (argument kinds, result kind)
    'has_interaction': (('node', 'node', 'int?'), 'bool'),          # (has_node / degree: values of uninterpreted cardinalities, not comparable)
    'neighbors': (('node', 'int?'), 'nodes'), 'neighbors_iter': (('node', 'int?'), 'nodes'),
    'successors': (('node', 'int?'), 'nodes'), 'predecessors': (('node', 'int?'), 'nodes'),
    'successors_iter': (('node', 'int?'), 'nodes'), 'predecessors_iter': (('node', 'int?'), 'nodes'),
    'nodes': (('int?',), 'nodes'), 'interactions_per_snapshots': (('int',), 'int'), 'number_of_interactions': (('node', 'node', 'int?'), 'int'),
}


def run_concrete_query(engine, G, cls, name, args):
    """-> (mismatch descriptions, outcome).  Callee contracts are NOT used: every call is inlined, so this exercises the executor's
    treatment of comprehensions, rows, generic-element evaluation, loops over small concrete collections"""
    kinds, rkind = QUERIES[name]
    nm = NodeMap()
    empty = engine.empty_attr()
    pre = abstract_graph(G, nm, 'self', {}, empty)
    if pre.problems:
        return ['pre-state outside the model: %s' % pre.problems[:2]], 'skipped'
    try:
        real = getattr(G, name)(*args)
        if rkind in ('nodes', 'ints'):
            real = list(real)
        routcome = 'return'
    except Exception as ex:
        real, routcome = None, 'raise ' + ex.__class__.__name__
    argv = [VGraph(pre)]
    for a, k in zip(args, kinds):
        argv.append(VNone if a is None else (VNode(nm.node(a)) if k == 'node' else VInt(a)))
    mod = 'dyndigraph' if cls == 'DynDiGraph' else 'dyngraph'
    fkey = '%s::%s.%s' % (mod, cls, name)
    if fkey not in engine.funcs:
        return [], 'undecided: no source'
    # the executor may keep paths it cannot prove infeasible (trusted contracts such as sorted() leave lengths symbolic): CPython's
    # behaviour must be AMONG the executor's paths (the executor over-approximates); a mismatch is reported when no path agrees
    from .interp import next_decisions
    decisions = []
    problems = []
    n_paths = 0
    while decisions is not None and n_paths < 24:
        n_paths += 1
        pre = abstract_graph(G, nm, 'self', {}, empty)
        argv[0] = VGraph(pre)
        p = _one_query_path(engine, pre, nm, empty, fkey, argv, decisions, name, args, rkind, real, routcome)
        if p is None:
            return [], 'undecided'
        if not p:
            return [], routcome
        problems = p
        decisions = next_decisions(decisions)
    return problems, routcome


def _one_query_path(engine, pre, nm, empty, fkey, argv, decisions, name, args, rkind, real, routcome):
    """one path of the executor: [] if it agrees with CPython, a list of differences if not, None if outside the subset"""
    ctx = Ctx(engine, decisions, 2000)
    ctx.graphs['self'] = pre
    ctx.assume(nm.distinct([], empty))
    interp = Interp(ctx, engine)
    engine.cur_key = fkey
    saved = dict(engine.contracts)
    engine.contracts.clear()
    try:
        res = engine.inline(interp, engine.fn(fkey), argv, {})
        sym = 'return'
    except PyRaise as ex:
        res, sym = None, 'raise ' + ex.cls
    except PathEnd:
        return ['(infeasible path)']
    except Undecided as u:
        return None
    finally:
        engine.contracts.update(saved)
    out = []
    if sym != routcome:
        return ['outcome: executor %s, CPython %s' % (sym, routcome)]
    if sym != 'return':
        return out
    s = z3.Solver()
    s.set('timeout', 5000)
    for h in ctx.hyps + ctx.pc:
        s.add(h)

    def implied(f):
        s.push()
        s.add(z3.Not(f))
        r = s.check()
        s.pop()
        return r == z3.unsat
    if rkind == 'bool':
        if res.kind != 'bool' or not implied(res.z == z3.BoolVal(bool(real))):
            out.append('%s%r: executor %s, CPython %r' % (name, args, getattr(res, 'z', res.kind), real))
    elif rkind == 'int':
        if res.kind != 'int' or not implied(res.z == IntV(int(real))):
            out.append('%s%r: executor %s, CPython %r' % (name, args, getattr(res, 'z', res.kind), real))
    elif rkind == 'nodes':
        if res.kind == 'list' and not res.esc:
            got = [x for x in res.items]
            member = lambda b: z3.Or(*[x.z == b for x in got]) if got else z3.BoolVal(False)
        elif res.kind == 'bag':
            member = res.member
        elif res.kind == 'nodedict':
            member = lambda b: pre['NodeIn'][b]
        else:
            return None
        for n_, z_ in list(nm.n2z.items()):
            if not implied(member(z_) == z3.BoolVal(n_ in real)):
                out.append('%s%r: membership of %r: CPython %r' % (name, args, n_, n_ in real))
    elif rkind == 'ints':
        if res.kind != 'seq':
            return None
        if not implied(res.n == len(real)) or not all(implied(res.elem(IntV(i)).z == v) for i, v in enumerate(real)):
            out.append('%s%r: CPython %r' % (name, args, real))
    return out


def query_differential(n_histories, seed, max_len=4):
    import dynetx as dn
    rng = random.Random(seed)
    eng = Engine()
    stats = {'calls': 0, 'mismatches': [], 'undecided': 0, 'raise': 0}
    for h in range(n_histories):
        cls = rng.choice(('DynGraph', 'DynDiGraph'))
        removal = rng.random() < 0.75
        G = getattr(dn, cls)(edge_removal=removal)
        hist = []
        for _ in range(rng.randint(1, max_len)):
            u, v = rng.choice((1, 2, 3)), rng.choice((1, 2, 3))
            t = rng.randint(-2, 6)
            e = rng.choice((None, None, t + 1, t + 2, t + 4))
            try:
                G.add_interaction(u, v, t, e) if e is not None else G.add_interaction(u, v, t)
                hist.append([u, v, t, e])
            except Exception:
                pass
        for name, (kinds, rkind) in QUERIES.items():
            if not hasattr(type(G), name):
                continue
            for _ in range(2):
                args = tuple((rng.choice((1, 2, 3, 9)) if k == 'node' else (rng.choice((None, rng.randint(-3, 8))) if k == 'int?' else rng.randint(-3, 8))) for k in kinds)
                mism, outcome = run_concrete_query(eng, G, cls, name, args)
                stats['calls'] += 1
                if outcome.startswith('undecided') or outcome == 'skipped':
                    stats['undecided'] += 1
                if outcome.startswith('raise'):
                    stats['raise'] += 1
                if mism:
                    stats['mismatches'].append({'class': cls, 'edge_removal': removal, 'history': list(hist), 'call': [name] + list(args), 'differences': mism[:4]})
    return stats
