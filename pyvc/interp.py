"""Forward symbolic executor for the Python subset of DESIGN appendix B.

One `Ctx` = one path.  Forking is by replay: `Ctx.branch` consults the decision prefix handed in by
the driver and extends it, the driver re-executes the function for every unexplored alternative
(engine.py).  All z3 state lives in HGraph components, so "everything not stored to is unchanged"
holds by construction.
"""
import ast
import z3
from .sym import (Int, Bool, Node, Obj, Op, OP_PLUS, OP_MINUS, EvK, evk, ea, eb, eop, fresh, IntV,
                  concrete_int, inb, FA)
from .values import *   # noqa


class PathEnd(Exception):
    """path cut: infeasible, or an arbitrary loop iteration finished"""


class _Return(Exception):
    def __init__(self, v):
        self.v = v


class _Break(Exception):
    pass


class _Continue(Exception):
    pass


class Obligation(object):
    def __init__(self, name, goal, hyps, kind='ensures', tags=(), path=None, where='', note=''):
        self.name, self.goal, self.hyps = name, goal, list(hyps)
        self.kind, self.tags, self.path, self.where, self.note = kind, tuple(tags), path, where, note


class Ctx(object):
    """one execution path"""

    def __init__(self, engine, decisions, feas_timeout=2000):
        self.engine = engine
        self.decisions = decisions      # shared list of [choice, n_alternatives]
        self.pos = 0
        self.hyps = []                  # assumptions: requires, invariants, callee posts, definitions
        self.hyp_cats = []
        self.feas_skip = set()          # categories not needed to prune infeasible paths
        self.pc = []                    # branch decisions
        self.trace = []                 # human readable decision trail
        self.obligations = []
        self.solver = z3.Solver()
        self.solver.set('timeout', feas_timeout)
        self.solver.set('smt.mbqi', False)
        self.graphs = {}
        self.views = {}                 # graph name -> ghost View of its CURRENT state
        self.focus = []                 # node terms for which invariants are instantiated
        self.on_havoc = None
        self.notes = []
        self.ghost = {}
        self.where = ''
        self.n_feas = 0

    # ---- assumptions / obligations
    def assume(self, f, cat=None):
        """cat: category of a hypothesis ('shape','canon','link','events',...); obligations may restrict
        themselves to some categories (dropping hypotheses is always sound)"""
        if isinstance(f, (list, tuple)):
            for x in f:
                self.assume(x, cat)
            return
        if z3.is_true(f):
            return
        self.hyps.append(f)
        self.hyp_cats.append(cat)
        if cat not in self.feas_skip:
            self.solver.add(f)

    def oblige(self, name, goal, kind='ensures', tags=(), note='', use=None):
        if z3.is_true(goal):
            goal = z3.BoolVal(True)
        if use is None or getattr(self, 'full_hyps', False):
            hs = list(self.hyps)
        else:
            hs = [h for h, c in zip(self.hyps, self.hyp_cats) if c is None or c in use]
        ob = Obligation(name, goal, hs + self.pc, kind, tags, path=list(self.trace), where=self.where, note=note)
        ob.hyps_full = (self.hyps + self.pc) if len(hs) != len(self.hyps) else None
        ob.call = getattr(self, 'call', None)
        self.obligations.append(ob)

    def feasible(self, cond):
        self.n_feas += 1
        self.solver.push()
        self.solver.add(cond)
        r = self.solver.check()
        self.solver.pop()
        return r != z3.unsat

    def mention(self, *terms):
        """put ground terms into the e-graph so that E-matching patterns can fire on them (touch := \\x. True)"""
        import z3 as _z
        for t in terms:
            f = _z.Function('touch!%s' % t.sort().name().replace(' ', '_'), t.sort(), _z.BoolSort())
            self.hyps.append(f(t))
            self.hyp_cats.append(None)

    def inv_pairs(self):
        """pairs for which invariants are instantiated: consecutive focus nodes two by two, both orientations"""
        f = self.focus
        ps = []
        for i in range(0, len(f) - 1, 2):
            ps += [(f[i], f[i + 1]), (f[i + 1], f[i])]
        out = []
        for p in ps:
            if not any(p[0].eq(q[0]) and p[1].eq(q[1]) for q in out):
                out.append(p)
        return out

    def add_focus(self, terms):
        before = self.inv_pairs()
        for t in terms:
            if t.sort() == Node and not any(t.eq(x) for x in self.focus):
                self.focus.append(t)
        new = [p for p in self.inv_pairs() if not any(p[0].eq(q[0]) and p[1].eq(q[1]) for q in before)]
        if new and getattr(self, 'on_focus', None):
            self.on_focus(new)

    # ---- forking
    def choose(self, n, tag, feas=None):
        """pick alternative 0..n-1 (replayed from the decision prefix, else the first feasible one)"""
        if self.pos < len(self.decisions):
            c = self.decisions[self.pos][0]
        else:
            c = 0
            self.decisions.append([c, n])
        self.pos += 1
        self.trace.append('%s=%d' % (tag, c))
        return c

    def branch(self, cond, tag=''):
        """python bool for a z3 condition; both sides explored (infeasible sides pruned)"""
        if isinstance(cond, bool):
            return cond
        cond = z3.simplify(cond)
        if z3.is_true(cond):
            return True
        if z3.is_false(cond):
            return False
        tag = tag or self.where
        if getattr(self, 'no_branch', False):
            # inside the evaluation of an expression for a GENERIC element (comprehensions evaluated once): a path split here would
            # fix the condition for ALL elements at once - only a condition decided by the path condition may be used
            t_ok, f_ok = self.feasible(cond), self.feasible(z3.Not(cond))
            if t_ok and not f_ok:
                return True
            if f_ok and not t_ok:
                return False
            raise Undecided('a condition about the generic element of a comprehension would split the path (%s)' % tag)
        if self.pos < len(self.decisions):
            d = self.decisions[self.pos]
            c = d[0]
            self.pos += 1
            taken = cond if c == 0 else z3.Not(cond)
            if c == 1 and not d[2]:
                d[2] = True       # the flipped side is checked for feasibility once
                if not self.feasible(taken):
                    raise PathEnd('infeasible')
        else:
            if self.feasible(cond):
                c = 0
                self.decisions.append([0, 2, False])
            else:
                c = 1
                self.decisions.append([1, 2, True])   # pc is feasible and cond is not: the other side is
            self.pos += 1
            taken = cond if c == 0 else z3.Not(cond)
        self.pc.append(taken)
        self.solver.add(taken)
        self.trace.append('%s:%s' % (tag, 'T' if c == 0 else 'F'))
        return c == 0


def next_decisions(decisions):
    """advance the DFS: drop exhausted trailing decisions, flip the last open one; None when done"""
    while decisions:
        d = decisions[-1]
        if d[0] + 1 < d[1]:
            d[0] += 1
            if len(d) > 2:
                d[2] = False
            return decisions
        decisions.pop()
    return None


# --------------------------------------------------------------------------------------------------

def veq(a, b):
    """python `==` on symbolic values -> z3 Bool or python bool; Undecided when kinds cannot be related"""
    if a is b:
        return True
    ka, kb = a.kind, b.kind
    if ka == 'int' and kb == 'int':
        return a.z == b.z
    if ka == 'bool' and kb == 'bool':
        return a.z == b.z
    if ka == 'node' and kb == 'node':
        return a.z == b.z
    if ka == 'none' or kb == 'none':
        return ka == kb
    if ka == 'str' and kb == 'str':
        return a.s == b.s
    if ka == 'op' or kb == 'op':
        za, zb = _as_op(a), _as_op(b)
        if za is None or zb is None:
            return False
        return za == zb
    if ka == 'opaque' and kb == 'opaque':
        return a.z == b.z
    if {ka, kb} == {'opaque', 'str'}:
        o, st = (a, b) if ka == 'opaque' else (b, a)
        from . import linemodel
        w = linemodel.CURRENT_WORLD
        if o.tag == 'field' and w is not None:
            return w.is_text(o.z, st.s)          # an abstract field compared with a literal: an uninterpreted predicate per literal

    if ka == 'tuple' and kb == 'tuple':
        if len(a.items) != len(b.items):
            return False
        parts = [veq(x, y) for x, y in zip(a.items, b.items)]
        if any(p is False for p in parts):
            return False
        parts = [p for p in parts if p is not True]
        return z3.And(*parts) if parts else True
    if ka == 'type' and kb == 'type':
        return a.name == b.name
    if ka in ('int', 'str', 'tuple', 'node', 'bool', 'list') and kb in ('int', 'str', 'tuple', 'node', 'bool', 'list') \
            and 'node' not in (ka, kb) and ka != kb and not ({ka, kb} == {'int', 'bool'}):
        return False
    raise Undecided('== between %s and %s' % (ka, kb))


def _as_op(v):
    if v.kind == 'op':
        return v.z
    if v.kind == 'str':
        return {'+': OP_PLUS, '-': OP_MINUS}.get(v.s)
    return None


def to_evk(v):
    if v.kind == 'opaque' and v.z.sort() == EvK:
        return v.z
    if v.kind == 'tuple' and len(v.items) == 3 and v.items[0].kind == 'node' and v.items[1].kind == 'node':
        op = _as_op(v.items[2])
        if op is not None:
            return evk(v.items[0].z, v.items[1].z, op)
    raise Undecided('event-log key of unexpected shape: %r' % (v,))


def zbool(x):
    return z3.BoolVal(x) if isinstance(x, bool) else x


class Frame(object):
    def __init__(self, fdef, classname, env, modname=''):
        self.fdef, self.classname, self.env, self.modname = fdef, classname, env, modname
        self.yields = None
        self.loop_ordinal = 0
        self.fkey = None


class Interp(object):
    def __init__(self, ctx, engine):
        self.ctx = ctx
        self.engine = engine
        self.depth = 0

    # ---------------------------------------------------------------- function invocation
    def call_function(self, fdef, classname, argvals, kwvals, modname=''):
        """bind arguments and execute the body of an extracted FunctionDef; returns the return value"""
        env = self.bind_args(fdef, argvals, kwvals)
        fr = Frame(fdef, classname, env, modname)
        is_gen = any(isinstance(n, (ast.Yield, ast.YieldFrom)) for n in ast.walk(fdef)
                     if not isinstance(n, ast.Lambda))
        if is_gen:
            fr.yields = []
        self.depth += 1
        if self.depth > 12:
            raise Undecided('call depth')
        try:
            try:
                self.exec_block(strip_doc(fdef.body), fr)
                ret = VNone
            except _Return as r:
                ret = r.v
        finally:
            self.depth -= 1
        if is_gen:
            return VList(fr.yields)      # a fully unrolled generator = the list of what it yields
        return ret

    def bind_args(self, fdef, argvals, kwvals):
        a = fdef.args
        names = [x.arg for x in a.posonlyargs + a.args]
        env = {}
        if len(argvals) > len(names) and not a.vararg:
            raise PyRaise('TypeError', 'too many positional arguments')
        for n, v in zip(names, argvals):
            env[n] = v
        if a.vararg:
            env[a.vararg.arg] = VTuple(argvals[len(names):])
        defaults = a.defaults
        dnames = names[len(names) - len(defaults):] if defaults else []
        extra = {}
        for k, v in kwvals.items():
            if k in names or k in [x.arg for x in a.kwonlyargs]:
                if k in env:
                    raise PyRaise('TypeError', 'multiple values for ' + k)
                env[k] = v
            elif a.kwarg:
                extra[k] = v
            else:
                raise PyRaise('TypeError', 'unexpected keyword ' + k)
        for n, d in zip(dnames, defaults):
            if n not in env:
                env[n] = self.const(d)
        for n, d in zip([x.arg for x in a.kwonlyargs], a.kw_defaults):
            if n not in env and d is not None:
                env[n] = self.const(d)
        if a.kwarg:
            env[a.kwarg.arg] = VDictLit([(VStr(k), v) for k, v in extra.items()])
        for n in names:
            if n not in env:
                raise PyRaise('TypeError', 'missing argument ' + n)
        return env

    def const(self, node):
        if isinstance(node, ast.Constant):
            return self.lit(node.value)
        raise Undecided('non-constant default')

    def lit(self, v):
        if v is None:
            return VNone
        if isinstance(v, bool):
            return VBool(v)
        if isinstance(v, int):
            return VInt(v)
        if isinstance(v, str):
            return VStr(v)
        if isinstance(v, float):
            return VReal(z3.RealVal(repr(v)))
        raise Undecided('literal %r' % (v,))

    # ---------------------------------------------------------------- statements
    def exec_block(self, stmts, fr):
        for s in stmts:
            self.exec_stmt(s, fr)

    def exec_stmt(self, s, fr):
        self.ctx.where = '%s:%d' % (fr.fdef.name, getattr(s, 'lineno', 0))
        m = getattr(self, 'st_' + s.__class__.__name__, None)
        if m is None:
            raise Undecided('statement %s at %s' % (s.__class__.__name__, self.ctx.where))
        m(s, fr)

    def st_Pass(self, s, fr):
        pass

    def st_Import(self, s, fr):
        for a in s.names:
            fr.env[(a.asname or a.name).split('.')[0]] = VModule(a.name)

    def st_ImportFrom(self, s, fr):
        for a in s.names:
            fr.env[a.asname or a.name] = self.engine.import_name(s.module, a.name, fr)

    def st_Expr(self, s, fr):
        self.eval(s.value, fr)

    def st_Return(self, s, fr):
        raise _Return(self.eval(s.value, fr) if s.value is not None else VNone)

    def st_Break(self, s, fr):
        raise _Break()

    def st_Continue(self, s, fr):
        raise _Continue()

    def st_Raise(self, s, fr):
        if s.exc is None:
            raise Undecided('bare raise')
        v = self.eval_exc(s.exc, fr)
        raise PyRaise(v, 'raise at %s' % self.ctx.where)

    def eval_exc(self, e, fr):
        # raise Cls(...) / raise mod.Cls(...) / raise Cls
        if isinstance(e, ast.Call):
            for a in e.args:
                self.eval_msg(a, fr)
            e = e.func
        if isinstance(e, ast.Attribute):
            return e.attr
        if isinstance(e, ast.Name):
            v = fr.env.get(e.id)
            if v is not None and v.kind == 'excclass':
                return v.name
            return e.id
        raise Undecided('raise of non-class')

    def eval_msg(self, a, fr):
        """exception messages: evaluated for effect only when they could raise; strings are opaque"""
        if isinstance(a, (ast.Constant, ast.JoinedStr)):
            return
        if isinstance(a, ast.BinOp) and isinstance(a.op, ast.Mod):
            return
        self.eval(a, fr)

    def st_Assign(self, s, fr):
        v = self.eval(s.value, fr)
        for t in s.targets:
            self.assign(t, v, fr)

    def st_AugAssign(self, s, fr):
        cur = self.eval(load_of(s.target), fr)
        rhs = self.eval(s.value, fr)
        self.assign(s.target, self.binop(s.op, cur, rhs), fr)

    def st_Delete(self, s, fr):
        for t in s.targets:
            if isinstance(t, ast.Name):
                if t.id not in fr.env:
                    raise PyRaise('NameError', t.id)
                del fr.env[t.id]
            elif isinstance(t, ast.Subscript):
                base = self.eval(t.value, fr)
                key = self.eval(t.slice, fr)
                self.delitem(base, key)
            else:
                raise Undecided('del target')

    def st_If(self, s, fr):
        c = self.truth(self.eval(s.test, fr))
        if self.ctx.branch(c, '%s:%d' % (fr.fdef.name, s.lineno)):
            self.exec_block(s.body, fr)
        else:
            self.exec_block(s.orelse, fr)

    def st_Try(self, s, fr):
        if s.finalbody:
            raise Undecided('try/finally')
        try:
            self.exec_block(s.body, fr)
        except PyRaise as ex:
            for h in s.handlers:
                if self.handler_matches(h, ex.cls, fr):
                    if h.name:
                        fr.env[h.name] = VExcInst(ex.cls)
                    self.exec_block(h.body, fr)
                    return
            raise
        else:
            self.exec_block(s.orelse, fr)

    def handler_matches(self, h, cls, fr):
        if h.type is None:
            return True
        types = h.type.elts if isinstance(h.type, ast.Tuple) else [h.type]
        for t in types:
            name = t.attr if isinstance(t, ast.Attribute) else t.id
            if exc_isinstance(cls, name):
                return True
        return False

    def st_FunctionDef(self, s, fr):
        raise Undecided('nested function definition')

    def st_While(self, s, fr):
        spec = self.engine.loop_spec(fr, s)
        fr.loop_ordinal += 1
        if spec is None:
            raise Undecided('while loop without invariant at %s' % self.ctx.where)
        from .loops import exec_while_cut
        exec_while_cut(self, s, fr, spec)

    def st_For(self, s, fr):
        it = self.eval(s.iter, fr)
        ordinal = fr.loop_ordinal
        fr.loop_ordinal += 1
        if it.kind == 'keys' and it.what == 'items' and it.base.kind == 'adj':
            from .loops import VBag
            adj = it.base
            Row = adj.g['Row_' + adj.w]
            it = VBag([Node], lambda a: Row[a], lambda a: VTuple([VNode(a), VRow(adj.g, adj.w, a, adj.view)]), note='adjacency items')
        elif it.kind == 'row' or (it.kind == 'keys' and it.what == 'keys' and it.base.kind == 'row'):
            from .loops import VBag
            row = it if it.kind == 'row' else it.base
            Cells = row.g['Cell_' + row.w][row.u]
            it = VBag([Node], lambda b: Cells[b] != 0, lambda b: VNode(b), note='neighbours')
        if it.kind == 'snap' or (it.kind == 'keys' and it.what == 'keys' and it.base.kind == 'snap'):
            # iteration over the keys of self.snapshots: the snapshot ids, each once, in insertion (= unspecified) order
            from .loops import VBag
            SK = (it if it.kind == 'snap' else it.base).g['SKey']
            it = VBag([Int], lambda q: SK[q], lambda q: VInt(q), note='snapshot ids')
        if it.kind == 'tteinner':
            # iteration over the keys of one inner dict of the event log: a set of (u, v, op) keys, order unspecified
            from .loops import VBag
            inner = it.g['Ev'][it.k]
            it = VBag([EvK], lambda key: inner[key], lambda key: VOpaque(key, 'evkey'), note='events at one instant')
        items = self.static_items(it)
        if items is not None:
            try:
                for x in items:
                    self.assign(s.target, x, fr)
                    try:
                        self.exec_block(s.body, fr)
                    except _Continue:
                        pass
                else:
                    self.exec_block(s.orelse, fr)
            except _Break:
                pass
            return
        spec = self.engine.loop_spec(fr, s, ordinal, it)
        if spec is None:
            raise Undecided('loop over %s without invariant at %s' % (it.kind, self.ctx.where))
        from .loops import exec_for_cut, PrefixCut
        if isinstance(spec, PrefixCut):
            spec.hook(self, fr, it)
            raise PathEnd('cut')
        exec_for_cut(self, s, fr, it, spec)

    def static_items(self, it):
        """elements of an iterable whose length is statically known, else None"""
        if it.kind == 'list':
            if it.esc:
                return [self.getitem(it, VInt(k)) for k in range(len(it.items))]
            return list(it.items)
        if it.kind in ('tuple', 'set'):
            return list(it.items)
        if it.kind == 'dict':
            return [k for k, _ in it.pairs]
        if it.kind == 'interval':
            return [self.getitem(it, VInt(0)), self.getitem(it, VInt(1))]
        if it.kind == 'range':
            lo, hi = concrete_int(it.lo), concrete_int(it.hi)
            if lo is not None and hi is not None and hi - lo <= 16:
                return [VInt(k) for k in range(lo, hi)]
            d = concrete_int(it.hi - it.lo)
            if d is not None and d <= 16:
                return [VInt(z3.simplify(it.lo + k)) for k in range(0, d)]
        return None

    # ---------------------------------------------------------------- assignment
    def assign(self, t, v, fr):
        if isinstance(t, ast.Name):
            fr.env[t.id] = v
        elif isinstance(t, (ast.Tuple, ast.List)):
            items = self.static_items(v)
            if items is None:
                raise Undecided('unpacking of %s' % v.kind)
            if len(items) != len(t.elts):
                raise PyRaise('ValueError', 'unpack')
            for tt, x in zip(t.elts, items):
                self.assign(tt, x, fr)
        elif isinstance(t, ast.Subscript):
            base = self.eval(t.value, fr)
            key = self.eval(t.slice, fr)
            self.setitem(base, key, v)
        elif isinstance(t, ast.Attribute):
            base = self.eval(t.value, fr)
            self.setattr(base, t.attr, v)
        else:
            raise Undecided('assignment target %s' % t.__class__.__name__)

    # ---------------------------------------------------------------- expressions
    def eval(self, e, fr):
        m = getattr(self, 'ex_' + e.__class__.__name__, None)
        if m is None:
            raise Undecided('expression %s at %s' % (e.__class__.__name__, self.ctx.where))
        return m(e, fr)

    def ex_Constant(self, e, fr):
        return self.lit(e.value)

    def ex_Lambda(self, e, fr):
        from .accmodel import VLambda
        return VLambda(e)

    def ex_JoinedStr(self, e, fr):
        return VOpaque(fresh('fstr', Obj), 'str')

    def ex_Name(self, e, fr):
        if e.id in fr.env:
            v = fr.env[e.id]
            if v.kind in ('optint', 'optbag'):
                # an optional local splits the path the first time it is read; the branch taken fixes it for the rest of the path
                from .pathsmodel import resolve_opt
                v = resolve_opt(self, v)
                fr.env[e.id] = v
            return v
        return self.engine.global_name(e.id, fr, self)

    def ex_Tuple(self, e, fr):
        return VTuple([self.eval(x, fr) for x in e.elts])

    def ex_List(self, e, fr):
        return VList([self.eval(x, fr) for x in e.elts])

    def ex_Set(self, e, fr):
        return VSetLit([self.eval(x, fr) for x in e.elts])

    def ex_Dict(self, e, fr):
        return VDictLit([(self.eval(k, fr), self.eval(v, fr)) for k, v in zip(e.keys, e.values)])

    def ex_IfExp(self, e, fr):
        c = self.truth(self.eval(e.test, fr))
        if getattr(self.ctx, 'no_branch', False) and not isinstance(c, bool):
            from .seqs import ite_v
            return ite_v(c, self.eval(e.body, fr), self.eval(e.orelse, fr))      # (both arms evaluated: generic-element mode)
        if self.ctx.branch(c, 'ifexp:%d' % e.lineno):
            return self.eval(e.body, fr)
        return self.eval(e.orelse, fr)

    def ex_BoolOp(self, e, fr):
        # short circuit, value-returning semantics restricted to boolean use
        isand = isinstance(e.op, ast.And)
        if getattr(self.ctx, 'no_branch', False):
            # generic-element mode: all operands are evaluated and combined (no short circuit: an operand that could raise only when an
            # earlier one decides otherwise makes the evaluation raise here - an over-approximation)
            cs = []
            for x in e.values:
                c = self.truth(self.eval(x, fr))
                cs.append(z3.BoolVal(c) if isinstance(c, bool) else c)
            return VBool(z3.And(*cs) if isand else z3.Or(*cs))
        last = None
        for i, x in enumerate(e.values):
            v = self.eval(x, fr)
            last = v
            if i == len(e.values) - 1:
                break
            c = self.truth(v)
            if self.ctx.branch(c, 'boolop:%d' % e.lineno):
                if not isand:
                    return v if v.kind == 'bool' else VBool(True)
            else:
                if isand:
                    return v if v.kind == 'bool' else VBool(False)
        return last

    def ex_UnaryOp(self, e, fr):
        v = self.eval(e.operand, fr)
        if isinstance(e.op, ast.Not):
            c = self.truth(v)
            return VBool(z3.Not(c) if not isinstance(c, bool) else (not c))
        if isinstance(e.op, ast.USub):
            if v.kind == 'int':
                return VInt(-v.z)
            if v.kind == 'real':
                return VReal(-v.z)
        raise Undecided('unary op')

    def ex_BinOp(self, e, fr):
        if isinstance(e.op, ast.Mod) and isinstance(e.left, ast.Constant) and isinstance(e.left.value, str):
            self.eval(e.right, fr)
            return VOpaque(fresh('fmt', Obj), 'str')
        return self.binop(e.op, self.eval(e.left, fr), self.eval(e.right, fr))

    def binop(self, op, a, b):
        if a.kind == 'none' or b.kind == 'none':
            raise PyRaise('TypeError', 'arithmetic on None')
        if a.kind == 'bool':
            a = VInt(z3.If(a.z, 1, 0))
        if b.kind == 'bool':
            b = VInt(z3.If(b.z, 1, 0))
        if a.kind == 'int' and b.kind == 'int':
            if isinstance(op, ast.Add):
                return VInt(a.z + b.z)
            if isinstance(op, ast.Sub):
                return VInt(a.z - b.z)
            if isinstance(op, ast.Mult):
                return VInt(a.z * b.z)
            if isinstance(op, ast.Div):
                if self.ctx.branch(b.z == 0, 'div0'):
                    raise PyRaise('ZeroDivisionError')
                return VReal(z3.ToReal(a.z) / z3.ToReal(b.z))
        if a.kind in ('int', 'real') and b.kind in ('int', 'real'):
            ar = z3.ToReal(a.z) if a.kind == 'int' else a.z
            br = z3.ToReal(b.z) if b.kind == 'int' else b.z
            if isinstance(op, ast.Add):
                return VReal(ar + br)
            if isinstance(op, ast.Sub):
                return VReal(ar - br)
            if isinstance(op, ast.Mult):
                return VReal(ar * br)
            if isinstance(op, ast.Div):
                if self.ctx.branch(br == 0, 'div0'):
                    raise PyRaise('ZeroDivisionError')
                return VReal(ar / br)
        if a.kind == 'opaque' and a.tag == 'text' and b.kind == 'str' and isinstance(op, ast.Add) and getattr(self.ctx, 'textworld', None) is not None:
            if b.s != '\n':
                raise Undecided('text + %r' % b.s)
            return VOpaque(self.ctx.textworld['addnl'](a.z), 'text')          # line + "\n"
        if a.kind == 'list' and b.kind == 'list' and isinstance(op, ast.Add) and not a.esc and not b.esc:
            return VList(a.items + b.items)
        if a.kind == 'seq' or b.kind == 'seq':
            from .seqs import seq_binop
            return seq_binop(self, op, a, b)
        raise Undecided('binary %s on %s,%s' % (op.__class__.__name__, a.kind, b.kind))

    def ex_Compare(self, e, fr):
        n = len(e.ops)
        if n > 1 and all(isinstance(x, (ast.Name, ast.Constant)) for x in [e.left] + list(e.comparators)):
            # a chain over plain names / literals has no side effects: a < b < c is (a < b) and (b < c), no path split needed
            # (unless a later comparison could raise: then the short-circuit order matters and the general form below is used)
            try:
                vals = [self.eval(x, fr) for x in [e.left] + list(e.comparators)]
                cs = [self.compare(op, a, b) for op, a, b in zip(e.ops, vals, vals[1:])]
                out = True
                for c in cs:
                    out = self._and(out, c)
                return VBool(zbool(out))
            except PyRaise:
                pass
        left = self.eval(e.left, fr)
        for i, (op, rhs) in enumerate(zip(e.ops, e.comparators)):
            right = self.eval(rhs, fr)
            c = self.compare(op, left, right)
            if i == n - 1:
                return VBool(zbool(c))
            # chained comparison short-circuits: later operands are evaluated only if this one holds
            if not self.ctx.branch(c, 'cmp:%d' % e.lineno):
                return VBool(False)
            left = right

    def _and(self, a, b):
        if a is True:
            return b
        if b is True:
            return a
        if a is False or b is False:
            return False
        return z3.And(a, b)

    def compare(self, op, a, b):
        if isinstance(op, ast.Eq):
            return veq(a, b)
        if isinstance(op, ast.NotEq):
            c = veq(a, b)
            return (not c) if isinstance(c, bool) else z3.Not(c)
        if isinstance(op, ast.Is):
            return self.is_(a, b)
        if isinstance(op, ast.IsNot):
            c = self.is_(a, b)
            return (not c) if isinstance(c, bool) else z3.Not(c)
        if isinstance(op, ast.In):
            return self.contains(b, a)
        if isinstance(op, ast.NotIn):
            c = self.contains(b, a)
            return (not c) if isinstance(c, bool) else z3.Not(c)
        # ordering
        if a.kind == 'none' or b.kind == 'none':
            raise PyRaise('TypeError', 'ordering with None')
        if a.kind == 'bool':
            a = VInt(z3.If(a.z, 1, 0))
        if b.kind == 'bool':
            b = VInt(z3.If(b.z, 1, 0))
        if a.kind in ('int', 'real') and b.kind in ('int', 'real'):
            az, bz = a.z, b.z
            if a.kind != b.kind:
                az = z3.ToReal(az) if a.kind == 'int' else az
                bz = z3.ToReal(bz) if b.kind == 'int' else bz
            if isinstance(op, ast.Lt):
                return az < bz
            if isinstance(op, ast.LtE):
                return az <= bz
            if isinstance(op, ast.Gt):
                return az > bz
            if isinstance(op, ast.GtE):
                return az >= bz
        raise Undecided('comparison %s on %s,%s' % (op.__class__.__name__, a.kind, b.kind))

    def is_(self, a, b):
        if a.kind == 'none' or b.kind == 'none':
            return a.kind == b.kind
        if a.kind == 'type' and b.kind == 'type':
            return a.name == b.name
        if a is b:
            return True
        raise Undecided('`is` on %s,%s' % (a.kind, b.kind))

    def truth(self, v):
        k = v.kind
        if k == 'bool':
            return v.z
        if k == 'int':
            return v.z != 0
        if k == 'none':
            return False
        if k == 'list':
            if v.esc:
                raise Undecided('truth of escaped list')
            return len(v.items) > 0
        if k in ('tuple', 'set'):
            return len(v.items) > 0
        if k == 'dict':
            return len(v.pairs) > 0
        if k == 'str':
            return len(v.s) > 0
        if k == 'seq':
            return v.n > 0
        if k in ('graph', 'callable', 'module'):
            if k == 'graph':
                raise Undecided('truth of a graph (len)')
            return True
        if k == 'opaque' and v.tag == 'nodeattrs' and getattr(self.ctx, 'recworld', None) is not None:
            return self.ctx.recworld.nonempty(v.z)
        raise Undecided('truth of %s' % k)

    def ex_Attribute(self, e, fr):
        base = self.eval(e.value, fr)
        return self.getattr(base, e.attr, fr)

    def ex_Subscript(self, e, fr):
        base = self.eval(e.value, fr)
        if isinstance(e.slice, ast.Slice):
            lo = self.eval(e.slice.lower, fr) if e.slice.lower is not None else None
            hi = self.eval(e.slice.upper, fr) if e.slice.upper is not None else None
            if e.slice.step is not None:
                raise Undecided('slice step')
            return self.getslice(base, lo, hi)
        key = self.eval(e.slice, fr)
        return self.getitem(base, key)

    def ex_Call(self, e, fr):
        # method calls are resolved on the receiver's kind
        args = []
        for a in e.args:
            if isinstance(a, ast.Starred):
                items = self.static_items(self.eval(a.value, fr))
                if items is None:
                    raise Undecided('*args of unknown length')
                args.extend(items)
            else:
                args.append(a)
        kw = {}
        dstar = None
        for k in e.keywords:
            if k.arg is None:
                dstar = self.eval(k.value, fr)
            else:
                kw[k.arg] = k.value
        if isinstance(e.func, ast.Attribute):
            recv = self.eval(e.func.value, fr)
            argv = [a if isinstance(a, V) else self.eval(a, fr) for a in args]
            kwv = {k: self.eval(v, fr) for k, v in kw.items()}
            if dstar is not None:
                self._merge_dstar(kwv, dstar)
            return self.call_method(recv, e.func.attr, argv, kwv, fr, e)
        f = self.eval(e.func, fr)
        argv = [a if isinstance(a, V) else self.eval(a, fr) for a in args]
        kwv = {k: self.eval(v, fr) for k, v in kw.items()}
        if dstar is not None:
            self._merge_dstar(kwv, dstar)
        return self.call_value(f, argv, kwv, fr, e)

    def _merge_dstar(self, kwv, d):
        if d.kind == 'opaque':
            kwv['**'] = d               # **<opaque mapping>: kept as one unit (only observed calls accept it)
            return
        if d.kind != 'dict':
            raise Undecided('** of non-literal dict')
        for k, v in d.pairs:
            if k.kind != 'str':
                raise Undecided('** key')
            kwv[k.s] = v

    def call_value(self, f, argv, kwv, fr, node):
        if f.kind == 'callable':
            return f.fn(self, argv, kwv, fr)
        if f.kind == 'excclass':
            return VExcInst(f.name)
        if f.kind == 'type':
            return self.engine.call_type(self, f.name, argv, kwv, fr)
        raise Undecided('call of %s' % f.kind)

    def ex_Yield(self, e, fr):
        v = self.eval(e.value, fr) if e.value is not None else VNone
        if fr.yields is None:
            raise Undecided('yield outside generator frame')
        if '$yseq' in fr.env:
            # ghost SEQUENCE of yielded interaction-list rows  u<delim>v<delim>op<delim>t  (order matters: C10)
            from .sym import evrow
            if not (v.kind == 'rowstr' and len(v.fields) == 4 and v.fields[3].kind == 'int'):
                raise Undecided('yield of a value that is not a row u v op t')
            code = evrow(to_evk(VTuple(v.fields[:3])), v.fields[3].z)
            ys, n = fr.env['$yseq'].z, fr.env['$ylen'].z
            fr.env['$yseq'] = VOpaque(z3.Store(ys, n, code), 'ghost')
            fr.env['$ylen'] = VInt(n + 1)
            return VNone
        if '$yrow' in fr.env:
            # ghost multiset of yielded edge-list rows (u, v, t)
            if not (v.kind == 'rowstr' and len(v.fields) == 3 and v.fields[0].kind == 'node' and v.fields[1].kind == 'node' and v.fields[2].kind == 'int'):
                raise Undecided('yield of a value that is not a row u<delim>v<delim>t')
            a, b, q = v.fields[0].z, v.fields[1].z, v.fields[2].z
            y = fr.env['$yrow'].z
            fr.env['$yrow'] = VOpaque(z3.Store(y, a, z3.Store(y[a], b, z3.Store(y[a][b], q, y[a][b][q] + 1))), 'ghost')
            return VNone
        if '$ypair' in fr.env:
            # ghost multiset of yielded interaction tuples (a, b, data)
            if not (v.kind == 'tuple' and len(v.items) == 3 and v.items[0].kind == 'node' and v.items[1].kind == 'node'):
                raise Undecided('yield of a value that is not an interaction tuple')
            a, b, data = v.items[0].z, v.items[1].z, v.items[2]
            hook = getattr(self, 'on_yield_pair', None)
            if hook:
                hook(self, a, b, data)
            y = fr.env['$ypair'].z
            fr.env['$ypair'] = VOpaque(z3.Store(y, a, z3.Store(y[a], b, y[a][b] + 1)), 'ghost')
            return VNone
        if '$ydeg' in fr.env:
            # ghost: how many times a (node, number) pair was yielded for each node; what the number is, is the hook's business
            if not (v.kind == 'tuple' and len(v.items) == 2 and v.items[0].kind == 'node' and v.items[1].kind == 'int'):
                raise Undecided('yield of a value that is not a (node, int) pair')
            hook = getattr(self, 'on_yield_deg', None)
            if hook:
                hook(self, v.items[0].z, v.items[1])
            y = fr.env['$ydeg'].z
            fr.env['$ydeg'] = VOpaque(z3.Store(y, v.items[0].z, y[v.items[0].z] + 1), 'ghost')
            return VNone
        if '$ycnt' in fr.env:
            # ghost multiset of yielded event tuples (u, v, op, t) and the time of the last yield
            if not (v.kind == 'tuple' and len(v.items) == 4 and v.items[3].kind == 'int'):
                raise Undecided('yield of a value that is not an event tuple')
            key = to_evk(VTuple(v.items[:3]))
            t = v.items[3].z
            ycnt = fr.env['$ycnt'].z
            yany, ylast = fr.env['$yany'].z, fr.env['$ylast'].z
            self.ctx.oblige('C05.stream.chronological', z3.Implies(yany, ylast <= t), tags=('C05',), kind='yield')
            fr.env['$ycnt'] = VOpaque(z3.Store(ycnt, t, z3.Store(ycnt[t], key, ycnt[t][key] + 1)), 'ghost')
            fr.env['$yany'], fr.env['$ylast'] = VBool(True), VInt(t)
            return VNone
        fr.yields.append(v)
        return VNone

    def ex_ListComp(self, e, fr):
        return self.comprehension(e, fr, 'list')

    def ex_GeneratorExp(self, e, fr):
        return self.comprehension(e, fr, 'list')

    def ex_DictComp(self, e, fr):
        return self.comprehension(e, fr, 'dict')

    def comprehension(self, e, fr, what):
        if len(e.generators) != 1:
            raise Undecided('nested comprehension')
        g = e.generators[0]
        it = self.eval(g.iter, fr)
        items = self.static_items(it)
        if items is None:
            from .seqs import symbolic_comprehension
            return symbolic_comprehension(self, e, fr, it, what)
        out = []
        saved = dict(fr.env)
        for x in items:
            self.assign(g.target, x, fr)
            ok = True
            for cond in g.ifs:
                if not self.ctx.branch(self.truth(self.eval(cond, fr)), 'comp-if:%d' % e.lineno):
                    ok = False
                    break
            if ok:
                if what == 'dict':
                    out.append((self.eval(e.key, fr), self.eval(e.value, fr)))
                else:
                    out.append(self.eval(e.elt, fr))
        fr.env.clear()
        fr.env.update(saved)
        return VDictLit(out) if what == 'dict' else VList(out)

    # ---------------------------------------------------------------- attribute access
    def getattr(self, base, name, fr):
        k = base.kind
        if k == 'opaque' and base.tag == 'file' and name == 'name' and getattr(self.ctx, 'fileworld', None) is not None:
            return VOpaque(self.ctx.fileworld['name'], 'filename')
        if k == 'graph':
            return self.graph_attr(base.g, name, fr)
        if k == 'module':
            return self.engine.module_attr(base.name, name, fr, self)
        if k == 'type' and name == '__name__':
            return VStr(base.name)
        raise Undecided('attribute .%s of %s' % (name, k))

    def graph_attr(self, g, name, fr):
        if name.startswith('__') and not name.endswith('__') and fr.classname:
            name = '_%s%s' % (fr.classname.lstrip('_'), name)
        if name == '_adj':
            return VAdj(g, g.mainw())
        if name == 'adj':
            return VAdj(g, g.mainw(), view=True)
        if name in ('_succ', '_pred') and g.directed:
            return VAdj(g, name[1:])
        if name in ('succ', 'pred') and g.directed:
            return VAdj(g, name, view=True)
        if name == '_node':
            return VNodeDict(g)
        if name == 'time_to_edge':
            return VTTE(g)
        if name == 'snapshots':
            return VSnap(g)
        if name == 'edge_removal':
            return VBool(g['ER'])
        if name == 'directed':
            return VBool(g.directed)
        if name == 'graph':
            return VOpaque(g['GAttr'], 'graphattr')
        if name == 'name':
            return VOpaque(fresh('name', Obj), 'name')
        if name == '__class__':
            return VType(g.cls)
        if name == 'frozen':
            raise Undecided('frozen attribute')
        return self.engine.bound_method(g, name, fr, self)

    def setattr(self, base, name, v):
        if base.kind != 'graph':
            raise Undecided('attribute store on %s' % base.kind)
        g = base.g
        if name == 'name':
            return   # nx stores graph['name']; graph attributes are opaque
        if name == 'graph':
            if v.kind != 'opaque':
                raise Undecided('graph attr store')
            g['GAttr'] = v.z
            return
        if name == '_node':
            # G._node = deepcopy(self._node): whole node dict replaced
            if v.kind == 'nodedict_copy':
                if g.valid:
                    # replacing the node dict keeps Inv only if the key set is the same (I1: node <=> adjacency row)
                    self.ctx.oblige('typestate.node_dict_replaced_with_the_same_key_set', g['NodeIn'] == v.src['NodeIn'], kind='pre')
                g['NodeIn'] = v.src['NodeIn']
                g['NAttr'] = v.attrs
                return
            raise Undecided('_node store of %s' % v.kind)
        if name in ('time_to_edge', 'snapshots', 'edge_removal', 'directed') and getattr(g, 'constructing', False):
            return self.engine.ctor_store(g, name, v, self)
        raise Undecided('attribute store .%s' % name)

    # ---------------------------------------------------------------- containers: contains
    def contains(self, c, x):
        k = c.kind
        g = getattr(c, 'g', None)
        if k == 'nodedict':
            if x.kind != 'node':
                return self.nonnode_member(x)
            return g['NodeIn'][x.z]
        if k == 'graph':                       # n in G  (nx.Graph.__contains__)
            if x.kind == 'list':
                return False                   # TypeError (unhashable) caught by Graph.__contains__
            if x.kind != 'node':
                return self.nonnode_member(x)
            return c.g['NodeIn'][x.z]
        if k == 'adj':
            if x.kind != 'node':
                return self.nonnode_member(x)
            return g['Row_' + c.w][x.z]
        if k == 'row':
            if x.kind != 'node':
                return self.nonnode_member(x)
            return g['Cell_' + c.w][c.u][x.z] != 0
        if k == 'edgedata':
            if x.kind == 'str':
                return g['HasT'][c.r] if x.s == 't' else False
            raise Undecided('edge-data key')
        if k == 'tte':
            if x.kind != 'int':
                return False
            return g['TKey'][x.z]
        if k == 'tteinner':
            return g['Ev'][c.k][to_evk(x)]
        if k == 'snap':
            if x.kind != 'int':
                return False
            return g['SKey'][x.z]
        if k == 'range':
            if x.kind != 'int':
                return False
            return z3.And(c.lo <= x.z, x.z < c.hi)
        if k in ('list', 'tuple', 'set'):
            items = self.static_items(c)
            parts = [veq(x, y) for y in items]
            if any(p is True for p in parts):
                return True
            parts = [p for p in parts if p is not False]
            return z3.Or(*parts) if parts else False
        if k == 'keymap':
            return c.dom(x.c) if x.kind == 'pathkey' else False
        if k == 'intdict':
            from .accmodel import intdict_contains
            return intdict_contains(self, c, x)
        if k == 'dict' and getattr(c, 'symset', None) is not None:
            if x.kind != 'node':
                return False
            return c.symset[x.z]
        if k == 'dict':
            if x.kind == 'node' and not c.pairs:
                return False
            parts = [veq(x, y) for y, _ in c.pairs]
            if any(p is True for p in parts):
                return True
            parts = [p for p in parts if p is not False]
            return z3.Or(*parts) if parts else False
        if k == 'keys':
            if c.what == 'keys':
                return self.contains(c.base, x)
        if k == 'seq':
            from .seqs import seq_contains
            return seq_contains(self, c, x)
        if k == 'vset':
            return c.member(x)
        raise Undecided('`in` on %s' % k)

    def nonnode_member(self, x):
        if x.kind == 'none':
            return False          # None is never a node (networkx rejects it)
        if x.kind == 'list':
            raise PyRaise('TypeError', 'unhashable type: list')       # (Graph.__contains__ turns this into False)
        raise Undecided('membership of a %s in a node container' % x.kind)

    # ---------------------------------------------------------------- containers: getitem
    def norm_index(self, i, n):
        """python index normalisation with IndexError; i VInt, n z3 int"""
        if i.kind != 'int':
            raise PyRaise('TypeError', 'list index')
        ci = concrete_int(i.z)
        if ci is not None:
            idx = z3.simplify(n + ci) if ci < 0 else IntV(ci)
        else:
            idx = z3.If(i.z < 0, n + i.z, i.z)
        if self.ctx.branch(z3.Not(inb(idx, n)), 'IndexError'):
            raise PyRaise('IndexError', 'index out of range at %s' % self.ctx.where)
        return idx

    def getitem(self, c, key):
        k = c.kind
        g = getattr(c, 'g', None)
        if k == 'adj':
            if key.kind != 'node':
                raise PyRaise('KeyError', 'non-node key')
            if self.ctx.branch(z3.Not(g['Row_' + c.w][key.z]), 'KeyError(adj)'):
                raise PyRaise('KeyError', 'adjacency row at %s' % self.ctx.where)
            return VRow(g, c.w, key.z, c.view)
        if k == 'row':
            if key.kind != 'node':
                raise PyRaise('KeyError', 'non-node key')
            r = g['Cell_' + c.w][c.u][key.z]
            if self.ctx.branch(r == 0, 'KeyError(row)'):
                raise PyRaise('KeyError', 'adjacency cell at %s' % self.ctx.where)
            return VEdgeData(g, r)
        if k == 'edgedata':
            if key.kind == 'str' and key.s == 't':
                if self.ctx.branch(z3.Not(g['HasT'][c.r]), "KeyError('t')"):
                    raise PyRaise('KeyError', "'t'")
                return VTimeline(g, c.r)
            raise PyRaise('KeyError', 'edge data key') if key.kind == 'str' else Undecided('edge data key')
        if k == 'timeline':
            idx = self.norm_index(key, g['Len'][c.r])
            return VInterval(g, c.r, idx)
        if k == 'interval':
            ci = concrete_int(key.z) if key.kind == 'int' else None
            if ci in (0, -2):
                return VInt(g['S'][c.r][c.i])
            if ci in (1, -1):
                return VInt(g['E'][c.r][c.i])
            if ci is not None:
                raise PyRaise('IndexError', 'interval index')
            raise Undecided('symbolic index into an interval')
        if k == 'tte':
            if key.kind != 'int':
                raise Undecided('time_to_edge key of kind %s' % key.kind)
            if not self.ctx.branch(g['TKey'][key.z], 'tte-hit'):
                # defaultdict(int): a read of a missing instant INSERTS 0
                g['TKey'] = z3.Store(g['TKey'], key.z, True)
                g['TVal0'] = z3.Store(g['TVal0'], key.z, True)
                return VInt(0)
            if self.ctx.branch(g['TVal0'][key.z], 'tte-val0'):
                return VInt(0)
            return VTTEInner(g, key.z)
        if k == 'snap':
            if key.kind != 'int':
                raise PyRaise('KeyError', 'snapshots key')
            if self.ctx.branch(z3.Not(g['SKey'][key.z]), 'KeyError(snapshots)'):
                raise PyRaise('KeyError', 'snapshots at %s' % self.ctx.where)
            return VInt(g['SCnt'][key.z])
        if k == 'nodedict':
            if key.kind != 'node':
                raise PyRaise('KeyError', 'non-node key')
            if self.ctx.branch(z3.Not(g['NodeIn'][key.z]), 'KeyError(_node)'):
                raise PyRaise('KeyError', '_node at %s' % self.ctx.where)
            return VOpaque(g['NAttr'][key.z], 'nodeattr')
        if k == 'list':
            if c.esc:
                return self.getitem(self.esc_target(c), key)
            if key.kind != 'int':
                raise PyRaise('TypeError', 'list index')
            ci = concrete_int(key.z)
            if ci is None:
                raise Undecided('symbolic index into a local list')
            if not -len(c.items) <= ci < len(c.items):
                raise PyRaise('IndexError', 'local list index at %s' % self.ctx.where)
            return c.items[ci]
        if k == 'tuple':
            if key.kind != 'int':
                raise PyRaise('TypeError', 'tuple index')
            ci = concrete_int(key.z)
            if ci is None:
                raise Undecided('symbolic index into a tuple')
            if not -len(c.items) <= ci < len(c.items):
                raise PyRaise('IndexError', 'tuple index at %s' % self.ctx.where)
            return c.items[ci]
        if k == 'dict':
            for idx_, (kk, vv) in enumerate(c.pairs):
                eq = veq(kk, key)
                if eq is True:
                    if vv.kind in ('optint', 'optbag'):
                        from .pathsmodel import resolve_opt
                        vv = resolve_opt(self, vv)
                        c.pairs[idx_] = (kk, vv)
                    return vv
                if eq is not False:
                    if self.ctx.branch(eq, 'dictlit-key'):
                        return vv
            raise PyRaise('KeyError', 'local dict at %s' % self.ctx.where)
        if k == 'int':
            raise PyRaise('TypeError', "'int' object is not subscriptable at %s" % self.ctx.where)
        if k == 'none':
            raise PyRaise('TypeError', "'NoneType' object is not subscriptable")
        if k in ('acc', 'accpath'):
            from .accmodel import acc_getitem
            return acc_getitem(self, c, key)
        if k == 'intdict':
            from .accmodel import intdict_getitem
            return intdict_getitem(self, c, key)
        if k == 'record':
            from .linemodel import record_getitem
            return record_getitem(self, c, key)
        if k == 'opaque' and c.tag == 'trpkey':
            ci = concrete_int(key.z) if key.kind == 'int' else None
            w = getattr(self.ctx, 'trpworld', None)
            if ci == -1 and w is not None:
                return VNode(w.last(c.z))
            raise Undecided('index %r into a result key' % (ci,))
        if k == 'opaque' and c.z.sort() == EvK:
            ci = concrete_int(key.z) if key.kind == 'int' else None
            if ci == 0:
                return VNode(ea(c.z))
            if ci == 1:
                return VNode(eb(c.z))
            if ci == 2:
                return VOp(eop(c.z))
            raise Undecided('event key index')
        if k == 'seq':
            from .seqs import seq_getitem
            return seq_getitem(self, c, key)
        if k == 'path':
            ci = concrete_int(key.z) if key.kind == 'int' else None
            if ci not in (0, -1):
                raise Undecided('index %r into a path' % (ci,))
            if self.ctx.branch(c.w.PL(c.c) < 1, 'IndexError(path)'):
                raise PyRaise('IndexError', 'hop of an empty path')
            tm = c.w.T0(c.c) if ci == 0 else c.w.T1(c.c)
            return VTuple([VOpaque(fresh('hop_a', Obj), 'node'), VOpaque(fresh('hop_b', Obj), 'node'), VInt(tm)])
        if k == 'keymap':
            if key.kind != 'pathkey':
                raise PyRaise('KeyError', 'key map')
            if self.ctx.branch(z3.Not(c.dom(key.c)), 'KeyError(keymap)'):
                raise PyRaise('KeyError', 'key map')
            return VInt(c.val(key.c))
        if k == 'vmap':
            return c.getitem(self, key)
        raise Undecided('subscript of %s at %s' % (k, self.ctx.where))

    def esc_target(self, lst):
        what = lst.esc
        if what[0] == 'interval':
            _, g, r, i, ver = what
            if g.py.get('slotver', {}).get(('iv', id(lst))) != ver and False:
                raise Undecided('escaped list slot replaced')
            return VInterval(g, r, i)
        if what[0] == 'timeline':
            return VTimeline(what[1], what[2])
        raise Undecided('use of an escaped local container')

    def getslice(self, c, lo, hi):
        if c.kind == 'list' and not c.esc:
            l = concrete_int(lo.z) if lo is not None else None
            h = concrete_int(hi.z) if hi is not None else None
            if (lo is not None and l is None) or (hi is not None and h is None):
                raise Undecided('symbolic slice of local list')
            return VList(c.items[l:h])
        if c.kind == 'seq':
            from .seqs import seq_slice
            return seq_slice(self, c, lo, hi)
        if c.kind == 'line':
            from .linemodel import line_slice
            return line_slice(self, c, lo, hi)
        raise Undecided('slice of %s' % c.kind)

    # ---------------------------------------------------------------- containers: setitem / delitem
    def setitem(self, c, key, v):
        k = c.kind
        g = getattr(c, 'g', None)
        if k == 'pairmap':
            from .accmodel import pairmap_setitem
            return pairmap_setitem(self, c, key, v)
        if k == 'intdict':
            from .accmodel import intdict_setitem
            return intdict_setitem(self, c, key, v)
        if g is not None and k in ('adj', 'row', 'edgedata', 'timeline', 'interval', 'tte', 'tteinner', 'snap'):
            g.valid = False           # a direct write to the edge representation: Inv(g) is no longer known
        if k in ('adj', 'row') and c.view:
            raise PyRaise('TypeError', 'AdjacencyView does not support item assignment')
        if k == 'adj':
            if key.kind != 'node':
                raise Undecided('adjacency key kind')
            if v.kind == 'dict' and not v.pairs and not v.esc:
                v.esc = ('row', g, c.w, key.z)
                g['Row_' + c.w] = z3.Store(g['Row_' + c.w], key.z, True)
                g['Cell_' + c.w] = z3.Store(g['Cell_' + c.w], key.z, z3.K(Node, IntV(0)))
                return
            raise Undecided('store of a non-fresh row dict into the adjacency')
        if k == 'row':
            if key.kind != 'node':
                raise Undecided('adjacency key kind')
            r = self.edge_ref_of(g, v)
            cells = g['Cell_' + c.w]
            g['Cell_' + c.w] = z3.Store(cells, c.u, z3.Store(cells[c.u], key.z, r))
            return
        if k == 'edgedata':
            if key.kind == 'str' and key.s == 't':
                self.store_timeline(g, c.r, v)
                return
            raise Undecided('edge-data store of key other than t')
        if k == 'timeline':
            idx = self.norm_index(key, g['Len'][c.r])
            s, e = self.interval_of(v)
            g['S'] = z3.Store(g['S'], c.r, z3.Store(g['S'][c.r], idx, s))
            g['E'] = z3.Store(g['E'], c.r, z3.Store(g['E'][c.r], idx, e))
            v.esc = ('interval', g, c.r, idx, 0)
            return
        if k == 'interval':
            ci = concrete_int(key.z) if key.kind == 'int' else None
            if v.kind != 'int':
                raise Undecided('non-integer stored into an interval (%s)' % v.kind)
            if ci in (0, -2):
                g['S'] = z3.Store(g['S'], c.r, z3.Store(g['S'][c.r], c.i, v.z))
            elif ci in (1, -1):
                g['E'] = z3.Store(g['E'], c.r, z3.Store(g['E'][c.r], c.i, v.z))
            elif ci is not None:
                raise PyRaise('IndexError', 'interval index')
            else:
                raise Undecided('symbolic interval index')
            return
        if k == 'tte':
            if key.kind != 'int':
                raise Undecided('time_to_edge key kind %s' % key.kind)
            if v.kind != 'dict' or v.esc:
                raise Undecided('time_to_edge value')
            inner = z3.K(EvK, z3.BoolVal(False))
            for kk, vv in v.pairs:
                inner = z3.Store(inner, to_evk(kk), True)
            v.esc = ('tteinner', g, key.z)
            g['TKey'] = z3.Store(g['TKey'], key.z, True)
            g['TVal0'] = z3.Store(g['TVal0'], key.z, False)
            g['Ev'] = z3.Store(g['Ev'], key.z, inner)
            return
        if k == 'tteinner':
            g['Ev'] = z3.Store(g['Ev'], c.k, z3.Store(g['Ev'][c.k], to_evk(key), True))
            return
        if k == 'snap':
            if key.kind != 'int':
                raise Undecided('snapshots key kind %s' % key.kind)
            if v.kind != 'int':
                raise Undecided('snapshots value kind %s' % v.kind)
            g['SKey'] = z3.Store(g['SKey'], key.z, True)
            g['SCnt'] = z3.Store(g['SCnt'], key.z, v.z)
            return
        if k == 'nodedict':
            if key.kind != 'node':
                raise Undecided('node key kind')
            if g.valid:
                # a store into _node keeps Inv only if the key set does not change (I1: node <=> row)
                self.ctx.oblige('typestate.node_store_on_existing_node', g['NodeIn'][key.z], kind='pre')
            if v.kind == 'dict' and not v.pairs:
                attr = self.engine.empty_attr()
            elif v.kind == 'opaque':
                attr = v.z
            elif v.kind == 'dict':
                attr = fresh('attrdict', Obj)
            else:
                raise Undecided('node attribute value')
            g['NodeIn'] = z3.Store(g['NodeIn'], key.z, True)
            g['NAttr'] = z3.Store(g['NAttr'], key.z, attr)
            return
        if k == 'list':
            if c.esc:
                return self.setitem(self.esc_target(c), key, v)
            ci = concrete_int(key.z) if key.kind == 'int' else None
            if ci is None:
                raise Undecided('symbolic local list index')
            if not -len(c.items) <= ci < len(c.items):
                raise PyRaise('IndexError', 'local list assignment')
            c.items[ci] = v
            return
        if k == 'dict':
            if c.esc:
                if c.esc[0] == 'edgedata':
                    return self.setitem(VEdgeData(c.esc[1], c.esc[2]), key, v)
                raise Undecided('store into an escaped local dict')
            if key.kind == 'node' and (not c.pairs or getattr(c, 'symset', None) is not None):
                # helper dicts such as `seen[n] = 1`: only membership is ever asked, modelled as a set of nodes
                if getattr(c, 'symset', None) is None:
                    c.symset = z3.K(Node, z3.BoolVal(False))
                c.symset = z3.Store(c.symset, key.z, True)
                return
            for i, (kk, vv) in enumerate(c.pairs):
                eq = veq(kk, key)
                if eq is True:
                    c.pairs[i] = (kk, v)
                    return
                if eq is not False:
                    raise Undecided('symbolic key in local dict store')
            c.pairs.append((key, v))
            return
        if k == 'int':
            raise PyRaise('TypeError', "'int' object does not support item assignment")
        if k == 'vmap':
            return c.setitem(self, key, v)
        raise Undecided('item store on %s' % k)

    def delitem(self, c, key):
        k = c.kind
        g = getattr(c, 'g', None)
        if g is not None and k in ('adj', 'row', 'edgedata', 'timeline', 'interval', 'tte', 'tteinner', 'snap', 'nodedict'):
            g.valid = False
        if k == 'tteinner':
            ek = to_evk(key)
            if self.ctx.branch(z3.Not(g['Ev'][c.k][ek]), 'KeyError(event)'):
                raise PyRaise('KeyError', 'event at %s' % self.ctx.where)
            g['Ev'] = z3.Store(g['Ev'], c.k, z3.Store(g['Ev'][c.k], ek, False))
            return
        if k == 'int':
            raise PyRaise('TypeError', "'int' object does not support item deletion at %s" % self.ctx.where)
        if k == 'tte':
            if key.kind != 'int':
                raise PyRaise('KeyError')
            if self.ctx.branch(z3.Not(g['TKey'][key.z]), 'KeyError(tte)'):
                raise PyRaise('KeyError', 'time_to_edge')
            g['TKey'] = z3.Store(g['TKey'], key.z, False)
            return
        if k == 'snap':
            if key.kind != 'int':
                raise PyRaise('KeyError')
            if self.ctx.branch(z3.Not(g['SKey'][key.z]), 'KeyError(snapshots)'):
                raise PyRaise('KeyError', 'snapshots')
            g['SKey'] = z3.Store(g['SKey'], key.z, False)
            return
        if k == 'dict' and not c.esc:
            for i, (kk, vv) in enumerate(c.pairs):
                eq = veq(kk, key)
                if eq is True:
                    del c.pairs[i]
                    return
                if eq is not False:
                    raise Undecided('symbolic key in local dict delete')
            raise PyRaise('KeyError', 'local dict')
        raise Undecided('del on %s' % k)

    # ---------------------------------------------------------------- heap helpers
    def interval_of(self, v):
        """(s,e) z3 ints of a 2-element local int list being stored into a timeline"""
        if v.kind == 'list' and len(v.items) == 2 and not v.esc:
            a, b = v.items
            if a.kind == 'int' and b.kind == 'int':
                return a.z, b.z
            raise Undecided('interval with non-integer endpoint (%s,%s)' % (a.kind, b.kind))
        if v.kind == 'list' and v.esc:
            raise Undecided('the same list object stored into two timeline slots (aliasing)')
        raise Undecided('non-interval stored into a timeline: %r' % (v,))

    def store_timeline(self, g, r, v):
        """datadict['t'] = [[s,e],...] for heap edge data r"""
        if v.kind != 'list' or v.esc:
            raise Undecided("'t' value")
        S_r, E_r = g['S'][r], g['E'][r]
        for i, iv in enumerate(v.items):
            s, e = self.interval_of(iv)
            S_r = z3.Store(S_r, i, s)
            E_r = z3.Store(E_r, i, e)
            iv.esc = ('interval', g, r, IntV(i), 0)
        g['S'] = z3.Store(g['S'], r, S_r)
        g['E'] = z3.Store(g['E'], r, E_r)
        g['Len'] = z3.Store(g['Len'], r, IntV(len(v.items)))
        g['HasT'] = z3.Store(g['HasT'], r, True)
        v.esc = ('timeline', g, r)

    def edge_ref_of(self, g, v):
        """reference stored into an adjacency cell: existing heap edge data, or a local dict that is
        allocated now (ownership transfer)"""
        if v.kind == 'edgedata':
            if v.g is not g:
                raise Undecided('edge data of one graph stored into another graph')
            return v.r
        if v.kind == 'dict':
            if v.esc:
                if v.esc[0] == 'edgedata' and v.esc[1] is g:
                    return v.esc[2]
                raise Undecided('escaped dict stored again')
            r = g['NextRef']
            g['NextRef'] = z3.simplify(r + 1)
            g['HasT'] = z3.Store(g['HasT'], r, False)
            g['Len'] = z3.Store(g['Len'], r, IntV(0))
            for kk, vv in v.pairs:
                if kk.kind == 'str' and kk.s == 't':
                    self.store_timeline(g, r, vv)
                else:
                    raise Undecided('edge data with key other than t')
            v.esc = ('edgedata', g, r)
            return r
        raise Undecided('adjacency cell value of kind %s' % v.kind)

    # ---------------------------------------------------------------- method calls
    def call_method(self, recv, name, argv, kwv, fr, node):
        k = recv.kind
        if k == 'graph':
            f = self.graph_attr(recv.g, name, fr)
            return self.call_value(f, argv, kwv, fr, node)
        if k == 'module':
            f = self.engine.module_attr(recv.name, name, fr, self)
            return self.call_value(f, argv, kwv, fr, node)
        if k in ('str', 'opaque') and name == 'join' and len(argv) == 1 and argv[0].kind == 'mapped' and argv[0].fn == 'make_str':
            return VRowStr(argv[0].items)
        if k == 'super' and name == '__init__':
            from .engine import _super_init
            return _super_init(self, recv, argv, kwv)
        m = getattr(self, 'm_%s_%s' % (k, name), None)
        if m is None:
            from . import seqs
            m2 = getattr(seqs, 'm_%s_%s' % (k, name), None)
            if m2 is not None:
                return m2(self, recv, argv, kwv)
            from . import accmodel
            m3 = getattr(accmodel, 'm_%s_%s' % (k, name), None)
            if m3 is not None:
                return m3(self, recv, argv, kwv)
            from . import linemodel
            m4 = getattr(linemodel, 'm_%s_%s' % (k, name), None)
            if m4 is not None:
                return m4(self, recv, argv, kwv)
            raise Undecided('method %s.%s at %s' % (k, name, self.ctx.where))
        return m(recv, argv, kwv)

    def m_opaque_decode(self, recv, argv, kwv):
        w = getattr(self.ctx, 'fileworld', None)
        if recv.tag != 'rawline' or w is None or len(argv) != 1 or argv[0].kind not in ('opaque', 'str'):
            raise Undecided('decode on %s' % recv.tag)
        if argv[0].kind == 'str':
            lits = w.setdefault('literals', {})
            if argv[0].s not in lits:
                lits[argv[0].s] = fresh('encoding_literal', Obj)
            return VOpaque(w['dec'](recv.z, lits[argv[0].s]), 'decoded')
        return VOpaque(w['dec'](recv.z, argv[0].z), 'decoded')

    def m_opaque_write(self, recv, argv, kwv):
        hook = getattr(self.ctx, 'file_write_hook', None)
        if recv.tag != 'file' or hook is None:
            raise Undecided('write on %s' % recv.tag)
        return hook(self, recv, argv, kwv)

    def m_opaque_encode(self, recv, argv, kwv):
        w = getattr(self.ctx, 'textworld', None)
        if recv.tag != 'text' or w is None or len(argv) != 1 or argv[0].kind not in ('opaque', 'str'):
            raise Undecided('encode on %s' % recv.tag)
        if argv[0].kind == 'str':
            lits = w.setdefault('literals', {})
            if argv[0].s not in lits:
                lits[argv[0].s] = fresh('encoding_literal', Obj)          # a literal encoding name: some object (not known to be the caller's)
            return VOpaque(w['enc'](recv.z, lits[argv[0].s]), 'bytes')
        return VOpaque(w['enc'](recv.z, argv[0].z), 'bytes')

    def m_opaque_add_node(self, recv, argv, kwv):
        if recv.tag != 'nxdigraph':
            raise Undecided('add_node on %s' % recv.tag)
        return VNone            # the content of a plain networkx DiGraph built by the function is not modelled

    def m_opaque_add_edge(self, recv, argv, kwv):
        if recv.tag != 'nxdigraph':
            raise Undecided('add_edge on %s' % recv.tag)
        return VNone

    def m_row_get(self, row, argv, kwv):
        key = argv[0]
        default = argv[1] if len(argv) > 1 else VNone
        if key.kind != 'node':
            return default
        r = row.g['Cell_' + row.w][row.u][key.z]
        if self.ctx.branch(r != 0, 'row.get-hit'):
            return VEdgeData(row.g, r)
        return default

    def m_row_keys(self, row, argv, kwv):
        return VKeys(row, 'keys')

    def m_row_items(self, row, argv, kwv):
        return VKeys(row, 'items')

    def m_adj_items(self, adj, argv, kwv):
        return VKeys(adj, 'items')

    def m_adj_keys(self, adj, argv, kwv):
        return VKeys(adj, 'keys')

    def m_adj_values(self, adj, argv, kwv):
        return VKeys(adj, 'values')

    def m_tte_keys(self, t, argv, kwv):
        return VKeys(t, 'keys')

    def m_snap_keys(self, t, argv, kwv):
        return VKeys(t, 'keys')

    def m_snap_get(self, t, argv, kwv):
        # self.snapshots.get(k, default): the counter of k, or the default when k is not a snapshot id
        key = argv[0]
        default = argv[1] if len(argv) > 1 else VNone
        if key.kind != 'int':
            return default
        if self.ctx.branch(t.g['SKey'][key.z], 'snap.get-hit'):
            return VInt(t.g['SCnt'][key.z])
        return default

    def m_tte_setdefault(self, t, argv, kwv):
        # self.time_to_edge.setdefault(k, {}): the entry of k, created as the given empty dict when k is missing
        key = argv[0]
        default = argv[1] if len(argv) > 1 else VNone
        if key.kind != 'int':
            raise Undecided('time_to_edge key of kind %s' % key.kind)
        if not self.ctx.branch(t.g['TKey'][key.z], 'tte.setdefault-hit'):
            self.setitem(t, key, default)
        return self.getitem(t, key)

    def m_snap_items(self, t, argv, kwv):
        return VKeys(t, 'items')

    def m_nodedict_items(self, t, argv, kwv):
        return VKeys(t, 'items')

    def m_tteinner_pop(self, inner, argv, kwv):
        ek = to_evk(argv[0])
        g = inner.g
        g.valid = False
        if len(argv) < 2:
            if self.ctx.branch(z3.Not(g['Ev'][inner.k][ek]), 'KeyError(event pop)'):
                raise PyRaise('KeyError', 'event pop')
        g['Ev'] = z3.Store(g['Ev'], inner.k, z3.Store(g['Ev'][inner.k], ek, False))
        return VNone

    def m_timeline_append(self, tl, argv, kwv):
        g, r = tl.g, tl.r
        g.valid = False
        v = argv[0]
        s, e = self.interval_of(v)
        n = g['Len'][r]
        g['S'] = z3.Store(g['S'], r, z3.Store(g['S'][r], n, s))
        g['E'] = z3.Store(g['E'], r, z3.Store(g['E'][r], n, e))
        g['Len'] = z3.Store(g['Len'], r, n + 1)
        v.esc = ('interval', g, r, n, 0)
        return VNone

    def link_fields(self, d):
        if d.kind != 'dict' or d.esc:
            return None
        f = {k.s: v for k, v in d.pairs if k.kind == 'str'}
        if set(f) == {'source', 'target', 'time'} and f['source'].kind == 'node' and f['target'].kind == 'node' and f['time'].kind == 'int':
            return f['source'].z, f['target'].z, f['time'].z
        return None

    def m_linkbag_append(self, bag, argv, kwv):
        lf = self.link_fields(argv[0])
        if lf is None:
            raise Undecided('append of something other than a link dict {source, target, time}')
        a, b, q = lf
        y = bag.cnt
        bag.cnt = z3.Store(y, a, z3.Store(y[a], b, z3.Store(y[a][b], q, y[a][b][q] + 1)))
        return VNone

    def m_optbag_append(self, bag, argv, kwv):
        p = argv[0]
        if p.kind != 'path' or p.pos is None:
            raise Undecided('append of something other than an input path')
        bag.cnt = z3.Store(bag.cnt, p.pos, bag.cnt[p.pos] + 1)
        return VNone

    def m_keymap_values(self, km, argv, kwv):
        v = V()
        v.kind = 'keyvals'
        v.km = km
        return v

    def m_list_append(self, lst, argv, kwv):
        if lst.esc:
            return self.call_method(self.esc_target(lst), 'append', argv, kwv, None, None)
        lst.items.append(argv[0])
        return VNone

    def m_list_extend(self, lst, argv, kwv):
        items = self.static_items(argv[0])
        if lst.esc or items is None:
            raise Undecided('extend')
        lst.items.extend(items)
        return VNone

    def m_list_pop(self, lst, argv, kwv):
        if lst.esc:
            raise Undecided('pop on escaped list')
        if not lst.items:
            raise PyRaise('IndexError', 'pop from empty list')
        if argv:
            ci = concrete_int(argv[0].z)
            if ci is None:
                raise Undecided('pop index')
            return lst.items.pop(ci)
        return lst.items.pop()

    def m_dict_get(self, d, argv, kwv):
        try:
            return self.getitem(d, argv[0])
        except PyRaise as ex:
            if ex.cls == 'KeyError':
                return argv[1] if len(argv) > 1 else VNone
            raise

    def m_dict_items(self, d, argv, kwv):
        return VList([VTuple([k, v]) for k, v in d.pairs])

    def m_dict_keys(self, d, argv, kwv):
        return VList([k for k, v in d.pairs])

    def m_dict_values(self, d, argv, kwv):
        return VList([v for k, v in d.pairs])


def strip_doc(body):
    if body and isinstance(body[0], ast.Expr) and isinstance(body[0].value, ast.Constant) \
            and isinstance(body[0].value.value, str):
        return body[1:]
    return body


def load_of(target):
    import copy
    t = copy.deepcopy(target)
    for n in ast.walk(t):
        if hasattr(n, 'ctx'):
            n.ctx = ast.Load()
    return t
