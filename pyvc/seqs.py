"""Symbolic-length sequences (VSeq) and the builtins over collections."""
import z3
from .sym import fresh, fresh_fun, Int, Bool, Node, Obj, IntV, inb, concrete_int, FA
from .values import *   # noqa


def len_of(interp, v):
    raise Undecided('len() of %s' % v.kind)


def minmax(interp, argv, is_max):
    if len(argv) == 1:
        items = interp.static_items(argv[0])
        if items is None:
            v = argv[0]
            if v.kind == 'seq' and v.meta.get('elem_kind') == 'int':
                # trusted contract of max/min over a non-empty int sequence
                if interp.ctx.branch(v.n <= 0, 'max(empty)'):
                    raise PyRaise('ValueError', 'max() arg is an empty sequence')
                m = fresh('max' if is_max else 'min', Int)
                w = fresh('argm', Int)
                i = z3.Int('i?mm')
                interp.ctx.assume(z3.And(inb(w, v.n), v.elem(w).z == m))
                interp.ctx.assume(z3.ForAll([i], z3.Implies(inb(i, v.n), v.elem(i).z <= m if is_max else v.elem(i).z >= m),
                                            patterns=[v.elem(i).z]))
                return VInt(m)
            raise Undecided('max/min of %s' % v.kind)
    else:
        items = argv
    if not items:
        raise PyRaise('ValueError', 'max() arg is an empty sequence')
    if not all(x.kind == 'int' for x in items):
        raise Undecided('max/min of non-int')
    m = items[0].z
    for x in items[1:]:
        m = z3.If(x.z > m, x.z, m) if is_max else z3.If(x.z < m, x.z, m)
    return VInt(m)


def sorted_(interp, argv, kwv):
    """trusted contract of sorted() over the keys of an int-keyed dict: an ascending, duplicate-free
    enumeration of exactly the keys (a dict has no duplicate keys)"""
    v = argv[0]
    if kwv:
        raise Undecided('sorted() with key/reverse')
    if v.kind == 'keys' and v.what == 'keys' and v.base.kind in ('snap', 'tte'):
        g = v.base.g
        member = g['SKey'] if v.base.kind == 'snap' else g['TKey']
        return sorted_int_set(interp.ctx, lambda q: member[q], lambda q: [member[q]], 'sorted_' + v.base.kind)
    items = interp.static_items(v)
    if items is not None and all(x.kind == 'int' for x in items) and len(items) <= 1:
        return VList(items)
    raise Undecided('sorted() of %s' % v.kind)


def sorted_int_set(ctx, member, pattern, name):
    n = fresh(name + '.n', Int)
    f = fresh_fun(name + '.at', Int, Int)
    idx = fresh_fun(name + '.idx', Int, Int)
    i, j, q = z3.Int('i?so'), z3.Int('j?so'), z3.Int('q?so')
    ctx.assume(n >= 0, 'seq')
    ctx.assume(z3.ForAll([i, j], z3.Implies(z3.And(0 <= i, i < j, j < n), f(i) < f(j)), patterns=[z3.MultiPattern(f(i), f(j))]), 'seq')
    ctx.assume(z3.ForAll([i], z3.Implies(inb(i, n), member(f(i))), patterns=[f(i)]), 'seq')
    ctx.assume(z3.ForAll([q], z3.Implies(member(q), z3.And(inb(idx(q), n), f(idx(q)) == q)), patterns=pattern(q)), 'seq')
    return VSeq(n, lambda k: VInt(f(k)), {'elem_kind': 'int', 'sorted': True, 'f': f, 'idx': idx, 'member': member})


def sum_(interp, argv):
    raise Undecided('sum()')


def dict_(interp, argv):
    raise Undecided('dict()')


def next_(interp, argv):
    raise Undecided('next()')


def set_(interp, argv):
    raise Undecided('set()')


def zip_(interp, argv):
    raise Undecided('zip()')


def enumerate_(interp, argv):
    raise Undecided('enumerate()')


def to_seq(interp, v):
    raise Undecided('list() of %s' % v.kind)


def seq_binop(interp, op, a, b):
    raise Undecided('sequence arithmetic')


def seq_contains(interp, c, x):
    raise Undecided('in on seq')


def seq_getitem(interp, c, key):
    if key.kind != 'int':
        raise PyRaise('TypeError', 'sequence index')
    idx = interp.norm_index(key, c.n)
    return c.elem(idx)


def seq_slice(interp, c, lo, hi):
    raise Undecided('seq slice')


def symbolic_comprehension(interp, e, fr, it, what):
    raise Undecided('comprehension over %s' % it.kind)


def havoc_seq(v, name):
    raise Undecided('havoc seq')
