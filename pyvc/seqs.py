"""Symbolic-length sequences (VSeq) and the builtins over collections."""
import z3
from .sym import fresh, fresh_fun, Int, Bool, Node, Obj, IntV, inb, concrete_int, FA
from .values import *   # noqa


def len_of(interp, v):
    if v.kind == 'snap':
        # |dom Cnt|: an uninterpreted cardinality with the one instance of counting lemma L1 that callers need
        # (a set with an element has cardinality >= 1); listed as an assumption
        g = v.g
        T = fresh('card_snapshots', Int)
        q = z3.Int('q?card')
        interp.ctx.assume(T >= 0, 'card')
        interp.ctx.assume(z3.ForAll([q], z3.Implies(g['SKey'][q], T >= 1), patterns=[g['SKey'][q]]), 'card')
        interp.ctx.notes.append('assumed: counting lemma L1 instance (non-empty dom Cnt has cardinality >= 1)')
        interp.ctx.card_snap = T
        return VInt(T)
    raise Undecided('len() of %s' % v.kind)


def minmax(interp, argv, is_max):
    if len(argv) == 1 and argv[0].kind == 'keyvals' and not is_max:
        # trusted contract of min() over the values of a dict: the least value, ValueError on an empty dict
        km = argv[0].km
        c = z3.Int('c?min')
        ctx = interp.ctx
        wit = fresh('argmin', Int)
        m = fresh('min', Int)
        if ctx.branch(z3.Not(z3.Exists([c], km.dom(c))), 'min(empty)'):
            raise PyRaise('ValueError', 'min() arg is an empty sequence')
        ctx.assume(z3.And(km.dom(wit), km.val(wit) == m), 'call')
        ctx.assume(z3.ForAll([c], z3.Implies(km.dom(c), km.val(c) >= m)), 'call')
        return VInt(m)
    if len(argv) == 1:
        items = interp.static_items(argv[0])
        if items is None:
            v = argv[0]
            if v.kind == 'seq' and v.meta.get('elem_kind') == 'int':
                # trusted contract of max/min over a non-empty int sequence
                if interp.ctx.branch(v.n <= 0, 'max(empty)'):
                    raise PyRaise('ValueError', 'max() arg is an empty sequence')
                m = fresh('max' if is_max else 'min', Int)
                w = fresh('argm', Int)
                i = z3.Int('i?mm')
                interp.ctx.assume(z3.And(inb(w, v.n), v.elem(w).z == m))
                interp.ctx.assume(z3.ForAll([i], z3.Implies(inb(i, v.n), v.elem(i).z <= m if is_max else v.elem(i).z >= m),
                                            patterns=[v.elem(i).z]))
                return VInt(m)
            raise Undecided('max/min of %s' % v.kind)
    else:
        items = argv
    if not items:
        raise PyRaise('ValueError', 'max() arg is an empty sequence')
    if not all(x.kind == 'int' for x in items):
        raise Undecided('max/min of non-int')
    m = items[0].z
    for x in items[1:]:
        m = z3.If(x.z > m, x.z, m) if is_max else z3.If(x.z < m, x.z, m)
    return VInt(m)


class VIntSet(V):
    """an abstract finite set of ints given by its membership predicate (a dict's keys, a parameter)"""
    kind = 'vset'

    def __init__(self, member, pattern=None, name='set'):
        self.member_z, self.pattern, self.name = member, pattern, name

    def member(self, x):
        if x.kind != 'int':
            return False
        return self.member_z(x.z)


class VSeqIter(V):
    """iter(seq): the sequence and how many elements were consumed by next() (a mutable cursor)"""
    kind = 'seqiter'

    def __init__(self, seq, pos=None):
        self.seq, self.pos = seq, (pos if pos is not None else IntV(0))


class VIntBag(V):
    """a local list of ints that a loop grows by append: the multiset of its elements, cnt[x] = multiplicity (the order is not modelled)"""
    kind = 'intbag'

    def __init__(self, cnt):
        self.cnt = cnt


def m_intbag_append(interp, recv, argv, kwv):
    x = argv[0]
    if x.kind != 'int':
        recv.tainted = True             # not a list of ints: its content is unknown from here on (any READ of it is outside the subset)
        return VNone
    recv.cnt = z3.Store(recv.cnt, x.z, recv.cnt[x.z] + 1)
    return VNone


class VMap(V):
    """a locally built dict with symbolic int keys: dom(q) -> Bool, get(q) -> V"""
    kind = 'vmap'

    def __init__(self, dom, get, meta=None):
        self.dom, self.get, self.meta = dom, get, (meta or {})

    def getitem(self, interp, key):
        if key.kind != 'int':
            raise PyRaise('KeyError', 'non-int key')
        if interp.ctx.branch(z3.Not(self.dom(key.z)), 'KeyError(map)'):
            raise PyRaise('KeyError', 'local map')
        return self.get(key.z)

    def setitem(self, interp, key, v):
        raise Undecided('store into a symbolic map')


def sorted_(interp, argv, kwv):
    """trusted contract of sorted() over the keys of an int-keyed dict: an ascending, duplicate-free
    enumeration of exactly the keys (a dict has no duplicate keys)"""
    v = argv[0]
    if kwv:
        raise Undecided('sorted() with key/reverse')
    if v.kind == 'keys' and v.what == 'keys' and v.base.kind in ('snap', 'tte'):
        g = v.base.g
        member = g['SKey'] if v.base.kind == 'snap' else g['TKey']
        return sorted_int_set(interp.ctx, lambda q: member[q], lambda q: [member[q]], 'sorted_' + v.base.kind)
    if v.kind == 'vset':
        return sorted_int_set(interp.ctx, v.member_z, v.pattern or (lambda q: None), 'sorted_' + v.name)
    items = interp.static_items(v)
    if items is not None and all(x.kind == 'int' for x in items) and len(items) <= 1:
        return VList(items)
    raise Undecided('sorted() of %s' % v.kind)


def sorted_int_set(ctx, member, pattern, name):
    n = fresh(name + '.n', Int)
    f = fresh_fun(name + '.at', Int, Int)
    idx = fresh_fun(name + '.idx', Int, Int)
    i, j, q = z3.Int('i?so'), z3.Int('j?so'), z3.Int('q?so')
    ctx.assume(n >= 0, 'seq')
    ctx.assume(z3.ForAll([i, j], z3.Implies(z3.And(0 <= i, i < j, j < n), f(i) < f(j)), patterns=[z3.MultiPattern(f(i), f(j))]), 'seq')
    ctx.assume(z3.ForAll([i], z3.Implies(inb(i, n), member(f(i))), patterns=[f(i)]), 'seq')
    pats = pattern(q)
    body = z3.Implies(member(q), z3.And(inb(idx(q), n), f(idx(q)) == q))
    ctx.assume(z3.ForAll([q], body, patterns=pats) if pats else z3.ForAll([q], body, patterns=[idx(q)]), 'seq')
    return VSeq(n, lambda k: VInt(f(k)), {'elem_kind': 'int', 'sorted': True, 'f': f, 'idx': idx, 'member': member})


def sum_(interp, argv):
    v = argv[0]
    if len(argv) == 1 and v.kind == 'bag' and len(v.sorts) == 1:
        x = fresh('x', v.sorts[0])
        e = v.make(x)
        if e.kind == 'int' and concrete_int(e.z) == 1:
            # sum of a collection of ones = its number of elements
            from .engine import b_len
            return b_len(interp, [v], {}, None)
    if len(argv) == 1 and v.kind == 'seq' and v.meta.get('elem_kind') in ('int', 'mapped'):
        # sum of a sequence of ints: an uninterpreted integer remembered with the sequence (trusted: sum() adds the elements up;
        # contracts state what the elements are)
        total = fresh('seqsum', Int)
        if not hasattr(interp.ctx, 'seqsums'):
            interp.ctx.seqsums = []
        interp.ctx.seqsums.append((total, v))
        return VInt(total)
    if len(argv) == 1 and v.kind == 'nodemapview' and v.what == 'values':
        # sum of the values of a map keyed by nodes: an uninterpreted integer remembered with the map (trusted: sum() adds the values up,
        # one per key; the contract states which map it is and what its values are)
        total = fresh('mapsum', Int)
        if not hasattr(interp.ctx, 'mapsums'):
            interp.ctx.mapsums = []
        interp.ctx.mapsums.append((total, v.m))
        return VInt(total)
    raise Undecided('sum()')


def dict_(interp, argv):
    v = argv[0]
    if v.kind == 'opaque' and v.tag.startswith('recitems-without-id:'):
        w = getattr(interp.ctx, 'recworld', None)
        if w is None:
            raise Undecided('dict() of record items')
        return VOpaque(w.attrs(v.z), 'nodeattrs')
    if v.kind == 'snap':
        g = v.g
        SKey, SCnt = g['SKey'], g['SCnt']      # a copy: later writes to the graph do not show through
        return VMap(lambda q: SKey[q], lambda q: VInt(SCnt[q]), {'copy_of': 'snapshots'})
    if v.kind == 'dict':
        return VDictLit(list(v.pairs))
    if v.kind == 'list' and not v.esc and all(x.kind == 'tuple' and len(x.items) == 2 for x in v.items):
        out = []
        for x in v.items:           # (later pairs overwrite earlier ones with an equal key)
            out = [(k, w) for (k, w) in out if veq_static(k, x.items[0]) is False] + [(x.items[0], x.items[1])]
        return VDictLit(out)
    if v.kind == 'bag' and len(v.sorts) == 1 and v.sorts[0] == Node:
        # dict(<pairs (node, value), one per member node>): a map keyed by the member nodes
        x = fresh('x', Node)
        e = v.make(x)
        if e.kind == 'tuple' and len(e.items) == 2 and e.items[0].kind == 'node' and e.items[0].z.eq(x):
            return VNodeMap(v.member, lambda a: v.make(a).items[1])
    raise Undecided('dict() of %s' % v.kind)


def veq_static(a, b):
    from .interp import veq
    try:
        r = veq(a, b)
    except Undecided:
        return None
    if r is True or r is False:
        return r
    raise Undecided('dict() of pairs whose keys may or may not coincide')


class VNodeMap(V):
    """a locally built dict keyed by nodes: dom(a) -> Bool, get(a) -> V"""
    kind = 'nodemap'

    def __init__(self, dom, get):
        self.dom, self.get = dom, get


class VNodeMapView(V):
    kind = 'nodemapview'

    def __init__(self, m, what):
        self.m, self.what = m, what


def m_nodemap_values(interp, recv, argv, kwv):
    return VNodeMapView(recv, 'values')


def m_nodemap_items(interp, recv, argv, kwv):
    return VNodeMapView(recv, 'items')


def mapped_nodemap(interp, fr, g, e, view):
    """[f(k, v) for k, v in m.items() if c(k, v)] / [f(v) for v in m.values() if c(v)]: one element per key that passes the filter"""
    from .loops import VBag
    ctx = interp.ctx
    m = view.m
    a0 = fresh('a0', Node)
    saved = dict(fr.env)
    interp.assign(g.target, VTuple([VNode(a0), m.get(a0)]) if view.what == 'items' else m.get(a0), fr)
    n_h, n_pc = len(ctx.hyps), len(ctx.pc)
    ctx.solver.push()
    was_nb = getattr(ctx, 'no_branch', False)
    ctx.no_branch = True
    try:
        ctx.assume(m.dom(a0))
        conds = []
        for cnd in g.ifs:
            t_ = interp.truth(interp.eval(cnd, fr))
            conds.append(z3.BoolVal(t_) if isinstance(t_, bool) else t_)
        val = interp.eval(e.elt, fr)
    finally:
        ctx.no_branch = was_nb
        ctx.solver.pop()
        del ctx.hyps[n_h:]
        del ctx.hyp_cats[n_h:]
        del ctx.pc[n_pc:]
    fr.env.clear()
    fr.env.update(saved)
    cond0 = z3.And(*conds) if conds else z3.BoolVal(True)
    subst_v(val, a0, a0)
    return VBag([Node], lambda a: z3.And(m.dom(a), z3.substitute(cond0, (a0, a))), lambda a: subst_v(val, a0, a), note='mapped node map')


def next_(interp, argv):
    v = argv[0]
    if len(argv) == 1 and v.kind == 'opaque' and v.tag == 'counter':
        return VInt(fresh('count', Int))
    if len(argv) == 1 and v.kind == 'seqiter':
        if interp.ctx.branch(v.pos >= v.seq.n, 'StopIteration'):
            raise PyRaise('StopIteration', 'next() of an exhausted iterator')
        x = v.seq.elem(v.pos)
        v.pos = v.pos + 1
        return x
    if len(argv) == 1 and v.kind == 'list' and not v.esc:
        if not v.items:
            raise PyRaise('StopIteration', 'next() of an exhausted iterator')
        return v.items[0]
    raise Undecided('next()')


def set_(interp, argv):
    v = argv[0] if argv else None
    if v is not None and v.kind == 'intbag':
        if getattr(v, 'tainted', False):
            raise Undecided('set() of a list with unknown content')
        cnt = v.cnt
        return VIntSet(lambda q: cnt[q] >= 1, lambda q: [cnt[q]], 'set_of_list')
    if v is not None and v.kind == 'list' and not v.esc and not v.items:
        return VIntSet(lambda q: z3.BoolVal(False), None, 'empty_set')
    raise Undecided('set()')


def _as_seq(interp, v):
    if v.kind == 'seq':
        return v
    items = interp.static_items(v)
    if items is not None:
        n = len(items)

        def elem(k, items=items):
            if not items:
                raise Undecided('element of an empty list')
            out = items[-1]
            for j in range(len(items) - 2, -1, -1):
                out = ite_v(k == j, items[j], out)
            return out
        return VSeq(IntV(n), elem, {'elem_kind': items[0].kind if items else 'none'})
    raise Undecided('sequence view of %s' % v.kind)


def ite_v(c, a, b):
    """if c then a else b on values of one scalar kind"""
    if a.kind != b.kind:
        raise Undecided('conditional over values of kinds %s/%s' % (a.kind, b.kind))
    if a.kind == 'node':
        return VNode(z3.If(c, a.z, b.z))
    if a.kind == 'int':
        return VInt(z3.If(c, a.z, b.z))
    if a.kind == 'tuple' and len(a.items) == len(b.items):
        return VTuple([ite_v(c, x, y) for x, y in zip(a.items, b.items)])
    raise Undecided('conditional over values of kind %s' % a.kind)


def zip_(interp, argv):
    if len(argv) != 2:
        raise Undecided('zip() of %d iterables' % len(argv))
    a, b = _as_seq(interp, argv[0]), _as_seq(interp, argv[1])
    n = z3.If(a.n <= b.n, a.n, b.n)
    return VSeq(n, lambda k: VTuple([a.elem(k), b.elem(k)]), {'elem_kind': 'tuple', 'zip_of': (a, b)})


def enumerate_(interp, argv):
    v = argv[0]
    if len(argv) > 1:
        raise Undecided('enumerate with start')
    items = interp.static_items(v)
    if items is not None:
        return VList([VTuple([VInt(k), x]) for k, x in enumerate(items)])
    if v.kind == 'seq':
        return VSeq(v.n, lambda k: VTuple([VInt(k), v.elem(k)]), {'elem_kind': 'tuple', 'of': v})
    raise Undecided('enumerate() of %s' % v.kind)


def to_seq(interp, v):
    if v.kind == 'seq':
        return v                    # list(s): a list with the same elements (s is never mutated afterwards by the subset)
    raise Undecided('list() of %s' % v.kind)


def seq_binop(interp, op, a, b):
    import ast as _ast
    if isinstance(op, _ast.Add):
        a, b = _as_seq(interp, a), _as_seq(interp, b)
        return VSeq(a.n + b.n, lambda k: ite_v(k < a.n, a.elem(k), b.elem(k - a.n)), {'elem_kind': a.meta.get('elem_kind'), 'concat_of': (a, b)})
    raise Undecided('sequence arithmetic')


def seq_contains(interp, c, x):
    raise Undecided('in on seq')


def seq_getitem(interp, c, key):
    if key.kind != 'int':
        raise PyRaise('TypeError', 'sequence index')
    idx = interp.norm_index(key, c.n)
    return c.elem(idx)


def seq_slice(interp, c, lo, hi):
    """s[a:b] for constant a >= 0 (or omitted) and constant b < 0 (or omitted)"""
    a = concrete_int(lo.z) if lo is not None else 0
    b = concrete_int(hi.z) if hi is not None else 0
    if a is None or b is None or a < 0 or b > 0:
        raise Undecided('slice bounds other than [const>=0 : const<=0]')
    m = c.n - a + b
    n2 = z3.If(m > 0, m, IntV(0))
    return VSeq(n2, lambda k: c.elem(k + a), {'elem_kind': c.meta.get('elem_kind'), 'slice_of': (c, a, b)})


def symbolic_comprehension(interp, e, fr, it, what):
    """{key(i): val(i) for target in seq}: exact dict semantics (a later element overwrites an earlier one with
    the same key): dom(q) <=> exists i<n. key(i) == q;  get(q) = val(last(q)), last(q) the largest such index"""
    import ast as _ast
    g = e.generators[0]
    if it.kind in ('optbag', 'keymap', 'keyset', 'list') and (it.kind != 'list' or all(x.kind == 'path' for x in it.items)):
        from .pathsmodel import VPath, VPathKey, VKeyMap, VKeySet, bag_of
        ctx = interp.ctx
        if it.kind == 'list':
            if not it.items:
                raise Undecided('comprehension over an empty literal list')
            it = bag_of(it.items[0].w, it.items)
        w = it.w
        c0 = fresh('c0', Int)
        saved = dict(fr.env)
        if it.kind == 'optbag':
            i_ = z3.Int('i?cb')
            member = lambda c: z3.Exists([i_], z3.And(inb(i_, w.n), it.cnt[i_] >= 1, w.cid(i_) == c))
            interp.assign(g.target, VPath(w, c0), fr)
        elif it.kind == 'keymap':
            member = it.dom
            interp.assign(g.target, VPathKey(w, c0), fr)
        else:
            member = it.member
            interp.assign(g.target, VPathKey(w, c0), fr)
        # the element expressions are evaluated for a generic member c0 of the collection, in a scratch scope: member(c0) is assumed
        # only while they are evaluated (it prunes e.g. the KeyError of d[x] for x in d), and whatever the evaluation adds to the
        # path condition about the placeholder c0 is dropped again - only the resulting formulas (guarded by member) are kept
        n_h, n_pc = len(ctx.hyps), len(ctx.pc)
        ctx.solver.push()
        ctx.solver.add(member(c0))
        was_nb = getattr(ctx, 'no_branch', False)
        ctx.no_branch = True
        try:
            conds = []
            for cnd in g.ifs:
                t_ = interp.truth(interp.eval(cnd, fr))
                conds.append(z3.BoolVal(t_) if isinstance(t_, bool) else t_)
            if what == 'dict':
                kv, vv = interp.eval(e.key, fr), interp.eval(e.value, fr)
            else:
                kv, vv = interp.eval(e.elt, fr), None
        finally:
            ctx.no_branch = was_nb
            ctx.solver.pop()
            del ctx.hyps[n_h:]
            del ctx.hyp_cats[n_h:]
            del ctx.pc[n_pc:]
        fr.env.clear()
        fr.env.update(saved)
        if kv.kind not in ('pathkey', 'path') or not kv.c.eq(c0):
            raise Undecided('comprehension that re-keys its elements')
        sub = lambda f: (lambda c: z3.substitute(f, (c0, c)))
        cond_f = z3.And(*conds) if conds else z3.BoolVal(True)
        mem2 = lambda c: z3.And(member(c), sub(cond_f)(c))
        if what == 'dict':
            if vv.kind != 'int':
                raise Undecided('dict comprehension with non-int values')
            return VKeyMap(w, mem2, sub(vv.z))
        return VKeySet(w, mem2, as_lists=(kv.kind == 'path'))
    if it.kind == 'graph' and what == 'list' and not g.ifs and isinstance(g.target, _ast.Name):
        # [f(n) for n in G]: one entry per node; the entry itself (an attribute dict with the id) is kept opaque
        from .loops import VBag
        NodeIn = it.g['NodeIn']
        entry = fresh_fun('node_entry', Node, Obj)
        interp.ctx.notes.append('node entries of a comprehension over the graph are opaque')
        return VBag([Node], lambda a: NodeIn[a], lambda a: VOpaque(entry(a), 'node-entry'), note='one entry per node')
    if it.kind == 'nodedict' and what == 'list' and not g.ifs and isinstance(g.target, _ast.Name) \
            and isinstance(e.elt, _ast.Name) and e.elt.id == g.target.id:
        # [k for k in self._node]: the nodes, each once, in unspecified order (a snapshot of the key set)
        from .loops import VBag
        NodeIn = it.g['NodeIn']
        return VBag([Node], lambda a: NodeIn[a], lambda a: VNode(a), note='nodes')
    if it.kind == 'opaque' and it.tag == 'file' and getattr(interp.ctx, 'fileworld', None) is not None:
        # iteration over an opened file: its raw lines, in order
        fw = interp.ctx.fileworld
        it = VSeq(fw['n'], lambda k: VOpaque(fw['raw'](k), 'rawline'), {'elem_kind': 'rawline'})
    if it.kind == 'opaque' and it.tag.startswith('recitems:') and what == 'list':
        # ((make_str(k), v) for k, v in record.items() if k != <id key>): the record's other attributes, kept opaque
        return VOpaque(it.z, 'recitems-without-id:' + it.tag.split(':', 1)[1])
    if it.kind == 'seqiter':
        rest = it
        it = VSeq(z3.If(rest.seq.n - rest.pos > 0, rest.seq.n - rest.pos, IntV(0)), lambda k, r=rest, p=rest.pos: r.seq.elem(k + p), dict(rest.seq.meta))
    if it.kind == 'nodemapview' and what == 'list':
        return mapped_nodemap(interp, fr, g, e, it)
    if it.kind == 'bag' and what == 'list' and not g.ifs and isinstance(g.target, _ast.Name) and isinstance(e.elt, _ast.Name) and e.elt.id == g.target.id:
        return it            # [x for x in <collection>]: the same elements
    if it.kind == 'keys' and it.what == 'items' and it.base.kind == 'adj' and what == 'list' and not g.ifs:
        return mapped_adjacency_items(interp, fr, g, e, it.base)
    rowlike = it if it.kind == 'row' else (it.base if (it.kind == 'keys' and it.what == 'keys' and it.base.kind == 'row') else None)
    if rowlike is not None and what == 'list' and isinstance(g.target, _ast.Name) and isinstance(e.elt, _ast.Name) and e.elt.id == g.target.id:
        return filtered_row(interp, fr, g, rowlike)
    if it.kind == 'seq' and g.ifs and what == 'list' and it.meta.get('elem_kind') == 'int' and isinstance(g.target, _ast.Name) \
            and isinstance(e.elt, _ast.Name) and e.elt.id == g.target.id:
        return filtered_int_seq(interp, fr, g, it)
    if it.kind != 'seq' or g.ifs:
        raise Undecided('comprehension over %s' % it.kind)
    ctx = interp.ctx

    def at(k):
        saved = dict(fr.env)
        interp.assign(g.target, it.elem(k), fr)
        if what == 'dict':
            kv = (interp.eval(e.key, fr), interp.eval(e.value, fr))
        else:
            kv = (interp.eval(e.elt, fr),)
        fr.env.clear()
        fr.env.update(saved)
        return kv
    if what != 'dict':
        return VSeq(it.n, lambda k: at(k)[0], {'elem_kind': 'mapped', 'of': it})
    probe = at(fresh('probe', Int))
    if probe[0].kind != 'int':
        raise Undecided('dict comprehension with non-int keys')
    last = fresh_fun('last', Int, Int)
    indom = fresh_fun('indom', Int, Bool)
    n = it.n
    i, q = z3.Int('i?dc'), z3.Int('q?dc')
    ctx.assume(z3.ForAll([q], z3.Implies(indom(q), z3.And(inb(last(q), n), at(last(q))[0].z == q)), patterns=[indom(q)]), 'seq')
    ctx.assume(z3.ForAll([i], z3.Implies(inb(i, n), z3.And(indom(at(i)[0].z), i <= last(at(i)[0].z))), patterns=[at(i)[0].z]), 'seq')
    return VMap(lambda qq: indom(qq), lambda qq: at(last(qq))[1], {'n': n, 'key': lambda k: at(k)[0], 'val': lambda k: at(k)[1], 'last': last})


def subst_v(v, x0, x):
    """the value v (built for the generic node x0) with x in place of x0"""
    k = v.kind
    if k == 'node':
        return VNode(z3.substitute(v.z, (x0, x)))
    if k == 'int':
        return VInt(z3.substitute(v.z, (x0, x)))
    if k == 'bool':
        return VBool(z3.substitute(v.z, (x0, x)))
    if k == 'tuple':
        return VTuple([subst_v(y, x0, x) for y in v.items])
    if k == 'row':
        return VRow(v.g, v.w, z3.substitute(v.u, (x0, x)), v.view)
    if k in ('none', 'str'):
        return v
    raise Undecided('generic element of kind %s' % k)


def mapped_adjacency_items(interp, fr, g, e, adj):
    """(f(n, row) for n, row in self._succ.items()): one element per node with a row, computed for a generic node a0"""
    from .loops import VBag
    ctx = interp.ctx
    Row = adj.g['Row_' + adj.w]
    a0 = fresh('a0', Node)
    saved = dict(fr.env)
    interp.assign(g.target, VTuple([VNode(a0), VRow(adj.g, adj.w, a0, adj.view)]), fr)
    if hasattr(ctx, 'add_focus'):
        ctx.add_focus([a0])
    n_h, n_pc = len(ctx.hyps), len(ctx.pc)
    was = getattr(interp, 'pure_calls', False)
    interp.pure_calls = True
    ctx.solver.push()
    was_nb = getattr(ctx, 'no_branch', False)
    ctx.no_branch = True
    try:
        ctx.assume(Row[a0])
        val = interp.eval(e.elt, fr)
    finally:
        interp.pure_calls = was
        ctx.no_branch = was_nb
        ctx.solver.pop()
        del ctx.hyps[n_h:]
        del ctx.hyp_cats[n_h:]
        del ctx.pc[n_pc:]
    fr.env.clear()
    fr.env.update(saved)
    subst_v(val, a0, a0)        # (raises Undecided for element kinds that cannot be re-instantiated)
    return VBag([Node], lambda a: Row[a], lambda a: subst_v(val, a0, a), note='mapped adjacency items')


def filtered_row(interp, fr, g, row):
    """[b for b in self._adj[a] if cond(b)]: the neighbours b of a (keys of the row) that satisfy cond, each once, order unspecified.
    cond is evaluated for a generic neighbour b0 (assumed to be a key of the row while it is evaluated); callee contracts are used in
    their closed form (interp.pure_calls) so that no assumption about b0 outlives the evaluation"""
    from .loops import VBag
    ctx = interp.ctx
    Cells = row.g['Cell_' + row.w][row.u]
    b0 = fresh('b0', Node)
    saved = dict(fr.env)
    interp.assign(g.target, VNode(b0), fr)
    n_h, n_pc = len(ctx.hyps), len(ctx.pc)
    was = getattr(interp, 'pure_calls', False)
    interp.pure_calls = True
    if hasattr(ctx, 'add_focus'):
        ctx.add_focus([b0])
        n_h = len(ctx.hyps)            # (the invariant for the pairs of b0 stays: it is a fact about an arbitrary node)
    ctx.solver.push()
    was_nb = getattr(ctx, 'no_branch', False)
    ctx.no_branch = True
    try:
        ctx.assume(Cells[b0] != 0)
        conds = []
        for cnd in g.ifs:
            t_ = interp.truth(interp.eval(cnd, fr))
            conds.append(z3.BoolVal(t_) if isinstance(t_, bool) else t_)
    finally:
        interp.pure_calls = was
        ctx.no_branch = was_nb
        ctx.solver.pop()
        del ctx.hyps[n_h:]
        del ctx.hyp_cats[n_h:]
        del ctx.pc[n_pc:]
    fr.env.clear()
    fr.env.update(saved)
    cond0 = z3.And(*conds) if conds else z3.BoolVal(True)
    member = lambda b: z3.And(Cells[b] != 0, z3.substitute(cond0, (b0, b)))
    return VBag([Node], member, lambda b: VNode(b), note='filtered neighbours')


def filtered_int_seq(interp, fr, g, it):
    """[x for x in seq if cond(x)] over a sequence of ints: the subsequence of the elements that satisfy cond, in order.
    new(k) = old(idx(k)) with idx strictly increasing into the old indices, cond holds for every kept element, and every old index
    whose element satisfies cond is idx(inv(i)) for some new index inv(i)"""
    ctx = interp.ctx
    x0 = fresh('x0', Int)
    saved = dict(fr.env)
    interp.assign(g.target, VInt(x0), fr)
    n_h, n_pc = len(ctx.hyps), len(ctx.pc)
    ctx.solver.push()
    was_nb = getattr(ctx, 'no_branch', False)
    ctx.no_branch = True
    try:
        conds = []
        for cnd in g.ifs:
            t_ = interp.truth(interp.eval(cnd, fr))
            conds.append(z3.BoolVal(t_) if isinstance(t_, bool) else t_)
    finally:
        ctx.no_branch = was_nb
        ctx.solver.pop()
        del ctx.hyps[n_h:]
        del ctx.hyp_cats[n_h:]
        del ctx.pc[n_pc:]
    fr.env.clear()
    fr.env.update(saved)
    cond0 = z3.And(*conds)
    cond = lambda x: z3.substitute(cond0, (x0, x))
    old = lambda k: it.elem(k).z
    m = fresh('flt.n', Int)
    new = fresh_fun('flt.at', Int, Int)
    idx = fresh_fun('flt.idx', Int, Int)
    inv = fresh_fun('flt.inv', Int, Int)
    k, k2, i = z3.Int('k?fl'), z3.Int('k2?fl'), z3.Int('i?fl')
    ctx.assume(m >= 0, 'seq')
    ctx.assume(z3.ForAll([k], z3.Implies(inb(k, m), z3.And(inb(idx(k), it.n), cond(old(idx(k))), new(k) == old(idx(k)))),
                         patterns=[new(k)]), 'seq')
    ctx.assume(z3.ForAll([k, k2], z3.Implies(z3.And(0 <= k, k < k2, k2 < m), idx(k) < idx(k2)),
                         patterns=[z3.MultiPattern(idx(k), idx(k2))]), 'seq')
    ctx.assume(z3.ForAll([i], z3.Implies(z3.And(inb(i, it.n), cond(old(i))), z3.And(inb(inv(i), m), idx(inv(i)) == i)),
                         patterns=[old(i)]), 'seq')
    return VSeq(m, lambda kk: VInt(new(kk)), {'elem_kind': 'int', 'filtered_from': it, 'idx': idx, 'inv': inv, 'f': new})


def havoc_seq(v, name):
    raise Undecided('havoc seq')
