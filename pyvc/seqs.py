"""Symbolic-length sequences (VSeq) and the builtins over collections."""
import z3
from .sym import fresh, fresh_fun, Int, Bool, Node, Obj, IntV, inb, concrete_int, FA
from .values import *   # noqa


def len_of(interp, v):
    raise Undecided('len() of %s' % v.kind)


def minmax(interp, argv, is_max):
    if len(argv) == 1:
        items = interp.static_items(argv[0])
        if items is None:
            v = argv[0]
            if v.kind == 'seq' and v.meta.get('elem_kind') == 'int':
                # trusted contract of max/min over a non-empty int sequence
                if interp.ctx.branch(v.n <= 0, 'max(empty)'):
                    raise PyRaise('ValueError', 'max() arg is an empty sequence')
                m = fresh('max' if is_max else 'min', Int)
                w = fresh('argm', Int)
                i = z3.Int('i?mm')
                interp.ctx.assume(z3.And(inb(w, v.n), v.elem(w).z == m))
                interp.ctx.assume(z3.ForAll([i], z3.Implies(inb(i, v.n), v.elem(i).z <= m if is_max else v.elem(i).z >= m),
                                            patterns=[v.elem(i).z]))
                return VInt(m)
            raise Undecided('max/min of %s' % v.kind)
    else:
        items = argv
    if not items:
        raise PyRaise('ValueError', 'max() arg is an empty sequence')
    if not all(x.kind == 'int' for x in items):
        raise Undecided('max/min of non-int')
    m = items[0].z
    for x in items[1:]:
        m = z3.If(x.z > m, x.z, m) if is_max else z3.If(x.z < m, x.z, m)
    return VInt(m)


def sorted_(interp, argv, kwv):
    raise Undecided('sorted()')


def sum_(interp, argv):
    raise Undecided('sum()')


def dict_(interp, argv):
    raise Undecided('dict()')


def next_(interp, argv):
    raise Undecided('next()')


def set_(interp, argv):
    raise Undecided('set()')


def zip_(interp, argv):
    raise Undecided('zip()')


def enumerate_(interp, argv):
    raise Undecided('enumerate()')


def to_seq(interp, v):
    raise Undecided('list() of %s' % v.kind)


def seq_binop(interp, op, a, b):
    raise Undecided('sequence arithmetic')


def seq_contains(interp, c, x):
    raise Undecided('in on seq')


def seq_getitem(interp, c, key):
    if key.kind != 'int':
        raise PyRaise('TypeError', 'sequence index')
    idx = interp.norm_index(key, c.n)
    return c.elem(idx)


def seq_slice(interp, c, lo, hi):
    raise Undecided('seq slice')


def symbolic_comprehension(interp, e, fr, it, what):
    raise Undecided('comprehension over %s' % it.kind)


def havoc_seq(v, name):
    raise Undecided('havoc seq')
