"""Discharging obligations: z3 proof mode (E-matching only, MBQI off) -> z3 complete mode (MBQI) ->
cvc5 on the SMT-LIB2 export.  Verdicts: 'discharged' (unsat), 'refuted' (sat in a complete mode: the VC
has a counter-model), 'unknown' (never mapped to a violation)."""
import multiprocessing as mp
import os
import subprocess
import tempfile
import time
import z3


def split_goal(goal):
    """prove conjunct by conjunct (rule 4): top-level And, and And under a universal prefix / implication"""
    if z3.is_and(goal):
        out = []
        for c in goal.children():
            out += split_goal(c)
        return out
    if z3.is_implies(goal) and z3.is_and(goal.arg(1)):
        return [z3.Implies(goal.arg(0), c) for g in goal.arg(1).children() for c in split_goal(g)]
    if z3.is_quantifier(goal) and goal.is_forall() and z3.is_and(goal.body()):
        # forall x. A /\ B  ==  (forall x. A) /\ (forall x. B)
        vs = [z3.Const('%s!sk' % goal.var_name(i), goal.var_sort(i)) for i in range(goal.num_vars())]
        body = z3.substitute_vars(goal.body(), *reversed(vs))
        return [z3.ForAll(vs, c) for c in split_goal(body)]
    return [goal]


def to_smt2(hyps, goal):
    s = z3.Solver()
    for h in hyps:
        s.add(h)
    s.add(z3.Not(goal))
    return s.to_smt2()


def _check(text, mbqi, timeout_ms, seed=0):
    s = z3.Solver()
    s.set('timeout', timeout_ms)
    s.set('smt.mbqi', mbqi)
    if seed:
        s.set('smt.random_seed', seed)
    s.from_string(text)
    t0 = time.time()
    r = s.check()
    dt = time.time() - t0
    reason = ''
    if r == z3.unknown:
        reason = s.reason_unknown()
    return str(r), dt, reason


def _cvc5(text, timeout_ms):
    exe = '/usr/bin/cvc5'
    if not os.path.exists(exe):
        return 'unknown', 0.0, 'cvc5 absent'
    with tempfile.NamedTemporaryFile('w', suffix='.smt2', delete=False) as f:
        f.write('(set-logic ALL)\n' + text)
        path = f.name
    t0 = time.time()
    try:
        p = subprocess.run([exe, '--tlimit=%d' % timeout_ms, '--full-saturate-quant', path],
                           capture_output=True, text=True, timeout=timeout_ms / 1000.0 + 5)
        out = (p.stdout or '').strip().splitlines()
        r = out[0] if out else 'unknown'
        if r not in ('sat', 'unsat', 'unknown'):
            r = 'unknown'
        # cvc5 'sat' with quantifiers under full-saturate is not a complete answer: keep only unsat
        if r == 'sat':
            r = 'unknown'
        return r, time.time() - t0, (p.stderr or '')[:200]
    except Exception as ex:   # timeout etc.
        return 'unknown', time.time() - t0, repr(ex)[:200]
    finally:
        os.unlink(path)


def _z3_cli(text, timeout_ms, exe='/usr/bin/z3'):
    """the Debian z3 4.8.12 binary: same logic, different instantiation heuristics (an independent second opinion)"""
    if not os.path.exists(exe):
        return 'unknown', 0.0, 'z3 cli absent'
    with tempfile.NamedTemporaryFile('w', suffix='.smt2', delete=False) as f:
        f.write(text)
        path = f.name
    t0 = time.time()
    try:
        p = subprocess.run([exe, 'smt.mbqi=false', '-T:%d' % max(1, timeout_ms // 1000), path], capture_output=True, text=True,
                           timeout=timeout_ms / 1000.0 + 5)
        out = (p.stdout or '').strip().splitlines()
        r = out[0] if out else 'unknown'
        return (r if r in ('unsat',) else 'unknown'), time.time() - t0, ''
    except Exception as ex:
        return 'unknown', time.time() - t0, repr(ex)[:100]
    finally:
        os.unlink(path)


def solve_one(job):
    """job = (index, smt2 text, timeout_ms, use_cvc5) -> dict"""
    idx, text, timeout_ms, use_cvc5 = job
    res = {'idx': idx, 'status': 'unknown', 'backend': '', 'seconds': 0.0, 'reason': '', 'slow': False}
    try:
        r, dt, why = _check(text, False, timeout_ms)
        res['seconds'] += dt
        if r == 'unsat':
            res.update(status='discharged', backend='z3-ematch')
            res['slow'] = dt > 5
            return res
        if r == 'sat':
            res.update(status='refuted', backend='z3-ematch(sat)')
            return res
        res['reason'] = why
        r1, dt1, why1 = _z3_cli(text, timeout_ms)
        res['seconds'] += dt1
        if r1 == 'unsat':
            res.update(status='discharged', backend='z3-4.8.12-ematch')
            return res
        r2, dt2, why2 = _check(text, True, min(timeout_ms, 5000))
        res['seconds'] += dt2
        if r2 == 'unsat':
            res.update(status='discharged', backend='z3-mbqi')
            return res
        if r2 == 'sat':
            res.update(status='refuted', backend='z3-mbqi(sat)')
            return res
        res['reason'] += ' | mbqi: ' + why2
        if use_cvc5:
            r3, dt3, why3 = _cvc5(text, min(timeout_ms, 15000))
            res['seconds'] += dt3
            if r3 == 'unsat':
                res.update(status='discharged', backend='cvc5')
                return res
            res['reason'] += ' | cvc5: ' + why3
    except z3.Z3Exception as ex:
        res['reason'] = 'z3 exception: %r' % (ex,)
    return res


def discharge(obligations, workers=8, timeout_ms=20000, use_cvc5=True, progress=None):
    """obligations: list of interp.Obligation.  Returns list of result dicts aligned with a flat list of
    (obligation, conjunct index) jobs: [(ob, k, result)]"""
    jobs = []
    meta = []
    for ob in obligations:
        parts = split_goal(ob.goal)
        for k, g in enumerate(parts):
            if z3.is_true(g):
                meta.append((ob, k, {'idx': len(meta), 'status': 'discharged', 'backend': 'trivial',
                                     'seconds': 0.0, 'reason': '', 'slow': False}))
                continue
            meta.append((ob, k, None))
            jobs.append((len(meta) - 1, to_smt2(ob.hyps, g), timeout_ms, use_cvc5))
    if jobs:
        if workers > 1 and len(jobs) > 1:
            ctxm = mp.get_context('fork')
            with ctxm.Pool(min(workers, len(jobs))) as pool:
                for res in pool.imap_unordered(solve_one, jobs, chunksize=1):
                    ob, k, _ = meta[res['idx']]
                    meta[res['idx']] = (ob, k, res)
        else:
            for j in jobs:
                res = solve_one(j)
                ob, k, _ = meta[res['idx']]
                meta[res['idx']] = (ob, k, res)
    return meta
